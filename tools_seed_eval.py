"""Developer tool: confirm a seeded mutant (patch + demo) in a scratch worktree and run the checks against it.

usage: python3 tools_seed_eval.py <seed_out_dir>/<prop>/<mK> [--skip-tests]
Writes <dir>/confirm.json with: demo on original/mutant, pytest summary + baseline comparison, and per-property check results.
"""
import json
import os
import shutil
import subprocess
import sys
import tempfile
import xml.etree.ElementTree as ET

PY = '/venv/bin/python'
PROPS = ['C%02d' % i for i in range(1, 21)]


def sh(cmd, cwd=None, env=None, timeout=3600):
    p = subprocess.run(cmd, shell=True, cwd=cwd, env=env, stdout=subprocess.PIPE, stderr=subprocess.STDOUT, text=True, timeout=timeout)
    return p.returncode, p.stdout


def main():
    d = os.path.abspath(sys.argv[1])
    skip_tests = '--skip-tests' in sys.argv
    patch = os.path.join(d, 'patch.diff')
    demo = os.path.join(d, 'demo.py')
    out = {'dir': d}
    wt = tempfile.mkdtemp(prefix='seedwt_')
    os.rmdir(wt)
    rc, o = sh('git -C /repo worktree add --detach %s HEAD' % wt)
    try:
        sh('cp /repo/src/dtaidistance/*.so %s/src/dtaidistance/' % wt)
        env = dict(os.environ, PYTHONPATH=wt + '/src')
        # demo on original
        rc0, o0 = sh('%s %s' % (PY, demo), cwd=wt, env=env, timeout=1200)
        out['demo_original'] = {'rc': rc0, 'tail': o0.strip().splitlines()[-3:]}
        rc, o = sh('git apply %s' % patch, cwd=wt)
        out['apply_rc'] = rc
        if rc != 0:
            out['error'] = 'patch does not apply: ' + o[-300:]
            json.dump(out, open(os.path.join(d, 'confirm.json'), 'w'), indent=1)
            print(json.dumps(out)[:400])
            return
        rc, files = sh('git diff --name-only', cwd=wt)
        files = files.split()
        out['files'] = files
        native = any(f.endswith(('.c', '.h', '.pyx', '.pxd')) for f in files)
        if native:
            rc, o = sh('%s setup.py build_ext --inplace' % PY, cwd=wt, timeout=1800)
            out['build_rc'] = rc
            if rc != 0:
                out['error'] = 'build failed: ' + o[-400:]
        rc1, o1 = sh('%s %s' % (PY, demo), cwd=wt, env=env, timeout=1200)
        out['demo_mutant'] = {'rc': rc1, 'tail': o1.strip().splitlines()[-3:]}
        if not skip_tests:
            jx = os.path.join(wt, 'junit.xml')
            rc, o = sh('%s -m pytest -q -p no:cacheprovider --timeout=900 --continue-on-collection-errors --junitxml=%s' % (PY, jx), cwd=wt, env=env, timeout=3000)
            out['pytest_tail'] = o.strip().splitlines()[-1:]
            try:
                base = json.load(open('/root/.vp/BASELINE.json'))
                t = ET.parse(jx).getroot()
                passed = set()
                for tc in t.iter('testcase'):
                    nm = tc.get('classname') + '::' + tc.get('name')
                    if not any(ch.tag in ('failure', 'error', 'skipped') for ch in tc):
                        passed.add(nm)
                out['baseline_missing'] = [x for x in base['stable_pass'] if x not in passed]
            except Exception as e:  # noqa
                out['baseline_missing'] = ['ERROR %r' % (e,)]
        # checks against the mutated tree
        res = {}
        cenv = dict(os.environ, VERIF_REPO=wt, VERIF_NO_EVIDENCE='1', VERIF_CACHE=os.path.join(wt, '.sacache'))
        procs = {p: subprocess.Popen([PY, '-m', 'sa.check', p], cwd='/verif', env=cenv, stdout=subprocess.PIPE, stderr=subprocess.STDOUT, text=True) for p in PROPS}
        for p, pr in procs.items():
            o, _ = pr.communicate()
            viol = [l.strip()[:300] for l in o.splitlines() if l.startswith('  ') and ' R-' in l]
            res[p] = {'rc': pr.returncode, 'violations': viol[:4], 'errors': [l[:200] for l in o.splitlines() if 'ANALYSIS-ERROR' in l][:2]}
        out['checks'] = {p: r for p, r in res.items() if r['rc'] != 0}
        out['detected_by'] = sorted(p for p, r in res.items() if r['rc'] == 1)
        out['analysis_errors'] = sorted(p for p, r in res.items() if r['rc'] == 2)
    finally:
        sh('git -C /repo worktree remove --force %s' % wt)
        shutil.rmtree(wt, ignore_errors=True)
    json.dump(out, open(os.path.join(d, 'confirm.json'), 'w'), indent=1)
    print(os.path.basename(os.path.dirname(d)), os.path.basename(d), 'demo orig rc', out.get('demo_original', {}).get('rc'), 'mutant rc', out.get('demo_mutant', {}).get('rc'),
          'tests', out.get('pytest_tail'), 'missing', out.get('baseline_missing'), 'DETECTED_BY', out.get('detected_by'), 'ERR', out.get('analysis_errors'))


if __name__ == '__main__':
    main()
