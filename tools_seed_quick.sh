#!/bin/bash
# usage: tools_seed_quick.sh <mutant dir> [prop...]   -- apply patch to a scratch copy of /repo/src and run checks (default: all 20, in parallel)
d=$1; shift
props="$@"; [ -z "$props" ] && props=$(seq -f "C%02g" 1 20)
t=$(mktemp -d /tmp/sq_XXXX)
mkdir -p $t/src && cp -r /repo/src/. $t/src/ && find $t -name "*.so" -delete
(cd $t && git init -q . 2>/dev/null; git apply --unsafe-paths -p1 --directory=. $d/patch.diff 2>&1 | head -3)
for p in $props; do
  ( VERIF_REPO=$t VERIF_NO_EVIDENCE=1 VERIF_CACHE=$t/.c /venv/bin/python -m sa.check $p > $t/$p.log 2>&1; echo "rc=$?" >> $t/$p.log ) &
done; wait
det=""
for p in $props; do
  rc=$(tail -n 1 $t/$p.log)
  if [ "$rc" != "rc=0" ]; then det="$det $p($rc)"; grep "^  src\|ANALYSIS-ERROR\|Traceback" $t/$p.log | cut -c1-300; fi
done
echo "== $(basename $(dirname $d))/$(basename $d) DETECTED_BY:$det"
rm -rf $t
