#!/bin/bash
# usage: tools_seed_quick.sh <mutant dir> <prop> [prop...]   -- apply patch to a scratch copy of /repo/src and run checks
d=$1; shift
t=$(mktemp -d /tmp/sq_XXXX)
mkdir -p $t/src && cp -r /repo/src/. $t/src/ && find $t -name "*.so" -delete
(cd $t && git init -q . 2>/dev/null; git apply --unsafe-paths -p1 --directory=. $d/patch.diff 2>&1 | head -3)
for p in "$@"; do
  VERIF_REPO=$t VERIF_NO_EVIDENCE=1 VERIF_CACHE=$t/.c /venv/bin/python -m sa.check $p 2>&1 | grep "^  src\|ANALYSIS-ERROR" | grep -v "^KNOWN" | cut -c1-260
  echo "== $p rc=${PIPESTATUS[0]}"
done
rm -rf $t
