/* empty stub: sources call no omp_* function */
