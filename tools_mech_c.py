#!/usr/bin/env python3
"""Mechanical rename of every local variable in the C engine (developer probe / selftest variant MECH-crename): each local of each function defined
in dd_dtw.c, dd_ed.c and dd_dtw_openmp.c gets the suffix _q, using the source offsets of clang's JSON AST (declarations and references, including
references spelled inside macro arguments).  The result must still compile (`clang -fsyntax-only`).
usage: tools_mech_c.py <target tree>   (writes <target>/src, a copy of $VERIF_REPO or /repo with the three C files rewritten)"""
import json, os, shutil, subprocess, sys

tgt = sys.argv[1]
repo = os.environ.get('VERIF_REPO', '/repo')
shutil.rmtree(tgt, ignore_errors=True)
os.makedirs(tgt)
shutil.copytree(os.path.join(repo, 'src'), os.path.join(tgt, 'src'), ignore=shutil.ignore_patterns('*.so', '__pycache__', 'build'))
cdir = os.path.join(tgt, 'src', 'DTAIDistanceC', 'DTAIDistanceC')
stubs = os.path.join(os.path.dirname(os.path.abspath(__file__)), 'stubs')


def offsets(loc):
    """(offset, length) of the token as spelled in the main file"""
    if loc is None:
        return None
    if 'spellingLoc' in loc:
        loc = loc['spellingLoc']
    if 'includedFrom' in loc and 'file' in loc:
        return None
    if 'offset' not in loc:
        return None
    return loc['offset'], loc.get('tokLen')


for fname in ('dd_dtw.c', 'dd_ed.c', 'dd_dtw_openmp.c'):
    path = os.path.join(cdir, fname)
    cmd = ['clang', '-I', cdir, '-I', stubs, '-fopenmp', '-fsyntax-only', '-Xclang', '-ast-dump=json', path]
    p = subprocess.run(cmd, stdout=subprocess.PIPE, stderr=subprocess.PIPE)
    tree = json.loads(p.stdout)
    src = open(path, 'rb').read()
    edits = {}          # offset -> (length, new bytes)
    fnames = set(__import__('re').findall(rb'^[A-Za-z_][A-Za-z0-9_ \*]*?\b([A-Za-z_][A-Za-z0-9_]*)\s*\([^;{]*\)\s*\{', src, __import__('re').M))

    def ident_at(off, nm):
        b = nm.encode()
        if off is None or src[off:off + len(b)] != b:
            return False
        before = src[off - 1:off]
        after = src[off + len(b):off + len(b) + 1]
        isid = lambda ch: ch.isalnum() or ch == b'_'
        return not (before and isid(before)) and not (after and isid(after))

    def visit_fn(fn):
        locals_ = {}

        def walk(n):
            k = n.get('kind')
            if k == 'VarDecl':
                o = offsets(n.get('loc'))
                nm = n.get('name')
                if o and nm and ident_at(o[0], nm):
                    locals_[n['id']] = nm
                    edits[o[0]] = (len(nm), (nm + '_q').encode())
            if k == 'DeclRefExpr':
                ref = n.get('referencedDecl', {})
                if ref.get('id') in locals_:
                    nm = locals_[ref['id']]
                    o = offsets(n.get('range', {}).get('begin'))
                    if o and ident_at(o[0], nm):
                        edits[o[0]] = (len(nm), (nm + '_q').encode())
                    else:
                        raise SystemExit('cannot locate a reference to %s in %s' % (nm, fn.get('name')))
            for c in n.get('inner', ()):
                if isinstance(c, dict):
                    walk(c)
        walk(fn)
    for n in tree.get('inner', ()):
        if n.get('kind') == 'FunctionDecl' and n.get('name', '').encode() in fnames and any(c.get('kind') == 'CompoundStmt' for c in n.get('inner', ())):
            visit_fn(n)
    out = bytearray(src)
    for off in sorted(edits, reverse=True):
        ln, new = edits[off]
        out[off:off + ln] = new
    open(path, 'wb').write(bytes(out))
    print(fname, 'edits', len(edits))
    chk = subprocess.run(['clang', '-I', cdir, '-I', stubs, '-fopenmp', '-fsyntax-only', path], stdout=subprocess.PIPE, stderr=subprocess.PIPE)
    if chk.returncode != 0:
        print('DOES NOT COMPILE', fname, chk.stderr.decode()[:1500])
        sys.exit(1)
