#!/usr/bin/env python3
"""Regenerate sa/baseline_funcs.json: the functions of the pinned tree, per Python module / Cython module / C translation unit.
Run deliberately on a clean /repo only (never from a check): the list tells the front ends which callees are *new* helpers to expand."""
import json
import os
import sys
sys.path.insert(0, os.path.dirname(os.path.abspath(__file__)))
from sa import pyfront, pyxfront, cfront  # noqa

repo = os.environ.get('VERIF_REPO', '/repo')
out = {}
for name in sorted(pyfront.PY_MODULES):
    try:
        out[name] = sorted(pyfront.module(repo, name).funcs)
    except Exception as e:  # noqa
        print('skip', name, e)
for name in sorted(pyxfront.PYX):
    try:
        out['pyx:' + name] = sorted(pyxfront.module(repo, name).funcs)
    except Exception as e:  # noqa
        print('skip', name, e)
for fname in ('dd_dtw.c', 'dd_ed.c', 'dd_dtw_openmp.c'):
    out[fname] = sorted(cfront.load_unit(repo, fname).funcs)
with open(os.path.join(os.path.dirname(os.path.abspath(__file__)), 'sa', 'baseline_funcs.json'), 'w') as f:
    json.dump(out, f, indent=0, sort_keys=True)
print({k: len(v) for k, v in out.items()})
