#!/usr/bin/env python3
"""Regenerate sa/baseline_funcs.json: the functions of the pinned tree, per Python module / Cython module / C translation unit.
Run deliberately on a clean /repo only (never from a check): the list tells the front ends which callees are *new* helpers to expand."""
import json
import os
import sys
sys.path.insert(0, os.path.dirname(os.path.abspath(__file__)))
from sa import pyfront, pyxfront, cfront  # noqa

repo = os.environ.get('VERIF_REPO', '/repo')
out = {}
for name in sorted(pyfront.PY_MODULES):
    try:
        out[name] = sorted(pyfront.module(repo, name).funcs)
    except Exception as e:  # noqa
        print('skip', name, e)
for name in sorted(pyxfront.PYX):
    try:
        out['pyx:' + name] = sorted(pyxfront.module(repo, name).funcs)
    except Exception as e:  # noqa
        print('skip', name, e)
for fname in ('dd_dtw.c', 'dd_ed.c', 'dd_dtw_openmp.c'):
    out[fname] = sorted(cfront.load_unit(repo, fname).funcs)
with open(os.path.join(os.path.dirname(os.path.abspath(__file__)), 'sa', 'baseline_funcs.json'), 'w') as f:
    json.dump(out, f, indent=0, sort_keys=True)
print({k: len(v) for k, v in out.items()})

# the IR of every function of the pinned tree (before name recovery / canonical ordering): the reference for sa/alpha.py
import gzip
import pickle
ir = {}
for name in sorted(pyfront.PY_MODULES):
    try:
        mod = pyfront.module(repo, name)
    except Exception:  # noqa
        continue
    ir[name] = {q: (list(f.all_params), f.raw_body) for q, f in mod.funcs.items()}
for name in sorted(pyxfront.PYX):
    try:
        full = 'dtaidistance.' + (name[:-4] if name.endswith('_pxd') else name)
        mod = pyxfront.load(repo, pyxfront.PYX[name], full, use_cache=False)
    except Exception as e:  # noqa
        print('skip', name, e)
        continue
    ir['pyx:' + name] = {q: ([a.name for a in f.args] + ([f.vararg] if f.vararg else []) + ([f.kwarg] if f.kwarg else []), f.body) for q, f in mod.funcs.items() if f.body is not None}
for fname in ('dd_dtw.c', 'dd_ed.c', 'dd_dtw_openmp.c'):
    u = cfront.load_unit(repo, fname, use_cache=False)
    ir[fname] = {q: ([p[0] for p in f.params], f.body) for q, f in u.funcs.items() if f.body is not None}
with gzip.open(os.path.join(os.path.dirname(os.path.abspath(__file__)), 'sa', 'baseline_ir.pkl.gz'), 'wb') as f:
    pickle.dump(ir, f, protocol=4)
print('baseline IR functions:', sum(len(v) for v in ir.values()))
