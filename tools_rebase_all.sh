#!/bin/bash
# Re-express every stored patch (seeded changes, refactoring twins) on the current /repo HEAD by a 3-way merge against the commit it was written on.
# Run after every repair of /repo (developer tool; never used by a registered command).
cd /verif
rb() { python3 tools_seed_rebase.py "$1" "$2" 2>&1 | grep -v "^rebased\|^ok\|unchanged"; }
for d in seeded/*-m1 seeded/*-m2; do rb $d df62bfe; done
for d in seeded/*-m3 seeded/*-m4; do rb $d d705437; done
for d in seeded/*-m5 seeded/*-m6 twins/*-r1 twins/*-r2; do rb $d ac29ff1; done
for d in seeded/*-m7 seeded/*-m8 twins/*-r3 twins/*-r4 twins/*-r5; do [ -d $d ] && rb $d 60a0121; done
for n in C10-m3 C05-m4; do git -C /repo apply --check /verif/seeded/$n/patch.diff || echo "DOES NOT APPLY: $n"; done
