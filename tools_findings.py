"""Developer tool: turn the collected candidate violations (/tmp/cands.json) into known_findings.json using the curated
triage table below.  A candidate without a triage entry is NOT written (it stays a VIOLATION until triaged)."""
import json, subprocess, sys

TRIAGE = [
 # (id, predicate on candidate, witness / how reproduced against the real library)
 ('F32', lambda c: c['rule'] == 'R-CLAMP' and c['file'].endswith('dtw.py'),
  'dtw.distance(a, b, window=1, psi=(0,0,8,0)) with len 10 raises IndexError and window=2, psi=(0,0,0,3) raises ValueError where dtw.warping_paths returns 8.485 / 6.633 (round 0)'),
 ('F30/F31', lambda c: c['rule'] == 'R-CLAMP' and c['file'].endswith('dd_dtw.c'),
  'native ASan harness, l=10, window=1, psi_2b=8: heap-buffer-overflow write; psi_2e=8: read before the buffer; dtw.distance_fast(l=10, window=2, psi=(0,0,0,3)) returns heap garbage (round 0)'),
 ('F37', lambda c: c['rule'] == 'R-DOM' and 'provenance' in c['construct_key'],
  'window=1, use_pruning=True (DTW = ED): 4942 of 20000 random equal-length pairs return inf in Python, 0 in C (round 0)'),
 ('F2', lambda c: c['rule'] == 'R-DOM' and c['construct_key'] == 'only_ub return',
  'dtw.distance(s1, s2, only_ub=True) = 8.0 while dtw.ub_euclidean(s1, s2) = 2.828 (both engines)'),
 ('F41', lambda c: c['rule'] == 'R-PSI' and c['construct_key'] == 'result cell index',
  'rng(5) normal(8) pairs, max_dist=2.5: dtw.warping_paths -> inf (true distance 2.5899), dtw.warping_paths_fast -> 1.5209 (value of the last cell written in the abandoned last row)'),
 ('F26', lambda c: c['rule'] == 'R-SIG' and 'ndim' in c['construct_key'] and 'affinity' in c['construct_key'],
  'dtw.warping_paths_affinity_fast(x, y, use_ndim=True) raises AttributeError: module dtw_cc has no attribute warping_paths_affinity_ndim'),
 ('F40', lambda c: c['rule'] == 'R-BAND' and 'region D' in c['construct_key'],
  's1=[0,1,2], s2=[5,1,2,3], window=2: dtw.warping_paths gives matrix[3,1] = inf (out of band), dtw.warping_paths_fast gives 7.07'),
 ('F13', lambda c: c['rule'] == 'R-FWD' and 'best_path' in c['construct_key'],
  'dtw.warping_path(a, b, penalty=0.7, include_distance=True): for 642 of 3000 random pairs the cost along the returned path differs from the returned distance (round 0)'),
 ('F10', lambda c: c['rule'] == 'R-ALLOC' and c['function'] == 'dtw_dba_ptrs',
  'native ASan harness: dtw_dba_ptrs with t=10, lengths={10,6}, window=1: heap-buffer-overflow (round 0)'),
 ('F38', lambda c: c['rule'] == 'R-SHD' and 'affinity' in c['function'],
  'dtw.warping_paths_affinity_fast(s1, s2, psi=2, ...) returns -inf where dtw.warping_paths_affinity returns 10.34'),
 ('F54', lambda c: c['rule'] == 'R-PSI' and c['construct_key'] == 'marked end run',
  'end relaxation: dtw.warping_path_fast(s1, s2, psi=(0,2,0,0)) with s1=[.44,.33,1.49,-.21,.31], s2=[-.85,-2.55,.65,.86,-.74,2.27,-1.45,.05] returns a path ending at (3, 6) (not in the last '
  'column) with cost 3.7042 while the distance is 3.7127; 556 of 1337 random end-psi configurations (C back-tracker), 492 with dtw.best_path on the Python matrix'),
 ('F42', lambda c: c['rule'] == 'R-DOM' and 'affinity penalty' in c['construct_key'],
  'warping_paths_affinity(penalty=0.1) = 10.343 (Python) vs 11.783 (C) = Python with penalty 0.01'),
 ('F45', lambda c: c['rule'] == 'R-MAP' and 'region C map' in c['construct_key'] and 'expand' in c['function'],
  'l1=l2=12, window=2 (ri2=2, ri3=11): wps_expand_slice with rb=4 returns values shifted by one column relative to the full expansion (31 of 48 slices differ)'),
 ('F46', lambda c: c['rule'] == 'R-MAP' and 'region B map' in c['construct_key'] and 'expand' in c['function'],
  'l1=l2=7, window=6 (region B = rows 2..5): wps_expand_slice with cb>=2 returns wrong rows and corrupts the heap (double free or corruption at exit)'),
 ('F47', lambda c: c['rule'] == 'R-REC' and c['construct_key'] == 'max_length_diff exit',
  'a=[0..5], b=[0,1,2], max_length_diff=1: dtw.distance/distance_fast/warping_paths return inf, dtw.warping_paths_fast and warping_path_fast return 3.742'),
 ('F39', lambda c: c['rule'] == 'R-CLAMP' and 'warping_paths' in c['function'],
  'rng(2) normal(10) pairs, window=1, psi=(0,0,0,8): dtw.warping_paths 3.0906 vs dtw.warping_paths_fast 3.0682 (200 of 200 random pairs differ)'),
 ('F48', lambda c: c['rule'] == 'R-MAP' and 'direct matrix' in c['construct_key'],
  'normal(6) pair, window=3 (compact width 7 = len2+1, regions C and D non-empty): dtw.warping_paths_fast returns a matrix whose rows 4..6 are shifted one column left of dtw.warping_paths (30 of 300 random configurations differ)'),
 ('F22', lambda c: c['rule'] == 'R-MON' and 'reported parameter' in c['construct_key'],
  'distance_to_similarity(D, method="reciprocal", cover_quantile=0.5, return_params=True): re-applying with the reported r gives a different array (round 0)'),
]

FIXED = [
 # (finding id, properties, what failed) -- commit hashes are looked up by subject prefix in /repo
 ('F21', ['C19'], 'squash(method="gaussian")', 'fix: squash(method="gaussian")'),
 ('F33', ['C02', 'C09'], 'dtw.distance(use_c=True) dropped only_ub', 'fix: dtw.distance(use_c=True) dropped only_ub'),
 ('F34', ['C04'], 'dtw.warping_paths(use_c=True) dropped keep_int_repr', 'fix: dtw.warping_paths(use_c=True) dropped keep_int_repr'),
 ('F15', ['C18'], 'warping_paths_affinity(use_c=True) dropped gamma, psi, psi_neg', 'fix: warping_paths_affinity(use_c=True) dropped'),
 ('F18', ['C14'], 'SubsequenceSearch.kbest_matches cache hit ignored k', 'fix: SubsequenceSearch.kbest_matches ignored'),
 ('F17', ['C12'], 'mask[curi] is False in dba / dba_loop', 'fix: DBA picked an unselected series'),
 ('F12', ['C07'], 'multiprocessing distance_matrix swapped the series of each pair', 'fix: multiprocessing distance_matrix passed'),
 ('F19', ['C14'], 'LB-skipped candidates kept distance 0', 'fix: candidates skipped by the lower bound'),
 ('F20', ['C14'], 'LB_Keogh pruning under psi-relaxation', 'fix: SubsequenceSearch pruned with LB_Keogh under psi'),
 ('F27', ['C13', 'C14', 'C18'], 'from . import dtw_cc in subsequence modules', 'fix: subsequence modules imported dtw_cc'),
 ('F6', ['C03', 'C11'], 'Euclidean pruning bound ignored use_ndim', 'fix: Euclidean pruning bound ignored use_ndim'),
 ('F35', ['C02', 'C05'], 'warping_path_args_to_c key list lacked inner_dist, use_pruning', 'fix: warping_path_fast/warping_path_prob silently ignored'),
 ('F9', ['C20'], 'lb_keogh(use_c=True) on strided views', 'fix: lb_keogh(use_c=True) handed non-contiguous'),
 ('F25', ['C18'], 'wp.mask[x, y] is True', 'fix: LocalConcurrences.kbest_matches never detected masked'),
 ('F43', ['C20'], 'SubsequenceSearch mutated the caller\'s dists_options', 'fix: SubsequenceSearch wrote max_dist/use_c'),
 ('F44', ['C20'], 'Hierarchical.fit mutated the caller\'s dists_options', 'fix: Hierarchical.fit set only_triu'),
 ('F9b', ['C20'], 'dba(use_c=True) on containers of strided views', 'fix: dba(use_c=True) handed non-contiguous'),
 ('F9c', ['C20'], 'k-means C helpers on strided views when run in-process', 'fix: k-means C helpers handed non-contiguous'),
 ('F14', ['C04'], 'warping_paths returned a bare inf', 'fix: warping_paths returned a bare inf'),
 ('F14b', ['C17'], 'dp() early exits returned 1 or 2 values', 'fix: dp() early exits returned fewer values'),
 ('F24', ['C18'], 'wps_positivize called with 8 of 9 arguments', 'fix: LocalConcurrences._reset_wp_mask called wps_positivize'),
 ('F22b', ['C19'], 'documented Reverse formula r - D vs code (r - D) / r', 'fix: docstring of distance_to_similarity'),
 ('F8', ['C08', 'C09', 'C11'], 'n-D Euclidean distance: shadowed accumulator, padding stride', 'fix: n-D Euclidean distance always returned 0'),
 ('F7', ['C09'], 'C lb_keogh running maximum started at 0', 'fix: C lb_keogh started the running maximum'),
 ('F1', ['C02', 'C03'], 'euclidean C kernels squared max_dist/max_step/penalty', 'fix: the euclidean-inner-distance C kernels squared'),
 ('F4/F5', ['C03', 'C09'], 'dtw_warping_paths_ndim_euclidean used the squared-variant bound and rooted only_ub', 'fix: dtw_warping_paths_ndim_euclidean pruned'),
 ('F36', ['C02', 'C10'], 'psi_1e candidate read through stale curidx', 'fix: C dtw_distance read the psi_1e candidate'),
 ('F53', ['C03'], "early abandoning skipped the free starts of psi-relaxation in all kernels (ec started at 0, stale sc on rows i <= psi_1b): psi=(2,0,1,0) with max_dist 20% above the distance returned inf for 449 of 5300 random pairs, use_pruning a larger value for 33", 'fix: early abandoning (max_dist / use_pruning) skipped the free starts'),
 ('F55', ['C08', 'C18'], "dtw_warping_paths_affinity_ndim{,_euclidean} with only_triu: the loop blanking the cells left of the diagonal ran to column ri without looking at the row's last column -- for len(s1) > len(s2) it wrote behind the row and behind the matrix (lengths 12 and 7, window 2: malloc(): invalid size)", 'fix: affinity warping paths with only_triu wrote past the row'),
 ('F56', ['C16'], "KMeans.fit_fast and KMeans.kmedoids_centers read/wrote `self.dists_options.use_c` although dists_options is a dict: fit_fast(series) and fit with initialize_with_kmedoids=True raised AttributeError on every call", 'fix: KMeans.fit_fast and kmedoids_centers read use_c'),
 ('F57', ['C07', 'C11'], "dtw_ndim.distance_matrix(parallel=True, use_c=False): _distance_with_params_ndim passed use_ndim=True next to **options, and the options (DTWSettings.kwargs()) contain use_ndim: TypeError 'multiple values for keyword argument' on every call", 'fix: multiprocessing n-D distance matrix in pure Python passed use_ndim twice'),
 ('F16', ['C18'], "dtw_wps_positivize was not the inverse of dtw_wps_negativize: negativize(2,6,2,6,True) then positivize left 11 cells negative", 'fix: dtw_wps_positivize was not the inverse'),
 ('F51', ['C18'], "non-compact LocalConcurrences reset left consumed (negated) cells negative: kbest_matches(restart=True) after a first search returned other matches", 'fix: LocalConcurrences reset did not restore'),
 ('F52', ['C18'], "kbest_matches(buffer>0) flipped signs over overlapping windows: cells of a match became positive again and were reused (e.g. seed-10 instance in DESIGN.md)", 'fix: a positive buffer in LocalConcurrences.kbest_matches'),
 ('F49', ['C17'], "dp returned inf for an empty second sequence: needleman_wunsch('AB', '') gave -inf instead of -2", 'fix: dp returned infinity for an empty second sequence'),
 ('F50', ['C17'], "Needleman-Wunsch border charged 1 per gap whatever the gap cost of make_substitution_fn: gap=0.5, 'A' vs 'BA' gave 0 instead of 0.5", 'fix: Needleman-Wunsch border ignored the gap cost'),
 ('F3', ['C03', 'C04'], 'dtw_warping_paths_ndim compared squared cost with unsquared max_dist', 'fix: dtw_warping_paths_ndim compared the squared'),
]


def main():
    cands = json.load(open('/tmp/cands.json'))
    log = subprocess.run(['git', '-C', '/repo', 'log', '--format=%h %s'], stdout=subprocess.PIPE, text=True).stdout.splitlines()
    findings = []
    untriaged = []
    for c in cands:
        hit = None
        for fid, pred, wit in TRIAGE:
            if pred(c):
                hit = (fid, wit)
                break
        if hit is None:
            untriaged.append(c)
            continue
        findings.append({'id': hit[0], 'properties': sorted(c['properties']), 'rule': c['rule'], 'file': c['file'], 'function': c['function'],
                         'construct_key': c['construct_key'], 'what_fails': c['what_fails'][:400], 'witness': hit[1],
                         'static_witness': c.get('witness')})
        if c.get('failset'):
            findings[-1]['failset'] = c['failset']
    fixed = []
    for fid, props_, what, subj in FIXED:
        commits = [l.split()[0] for l in log if l.split(' ', 1)[1].startswith(subj)]
        if not commits:
            print('WARNING no commit for', fid, subj, file=sys.stderr)
        for p in props_:
            fixed.append('fixed: property=%s %s %s [%s]' % (p, commits[0] if commits else '?', what, fid))
    out = {'comment': 'Genuine defects of wannesm/dtaidistance found by the static checks and NOT repaired (findings) or repaired by a fix: commit (fixed). '
                      'Committed by hand; never written by a check at run time. Identity of a finding = (property, rule, file, function, construct_key) and, where recorded, `failset`: the fingerprint of the set of small inputs on which the construct disagrees with its specification (a change that makes other inputs fail is reported as a new violation).',
           'findings': findings, 'fixed': fixed}
    json.dump(out, open('/verif/known_findings.json', 'w'), indent=1)
    print('findings', len(findings), 'fixed lines', len(fixed), 'untriaged', len(untriaged))
    for c in untriaged:
        print('UNTRIAGED', c['rule'], c['file'], c['function'], c['construct_key'])


if __name__ == '__main__':
    main()
