#!/usr/bin/env python3
"""Developer tool: refresh the rule-instance column of DESIGN.md §9.2 from the checks' own output (quick tier, current tree)."""
import re
import subprocess
import os
from concurrent.futures import ThreadPoolExecutor

V = os.path.dirname(os.path.abspath(__file__))


def run(p):
    out = subprocess.run(['/venv/bin/python', '-m', 'sa.check', p], cwd=V, env=dict(os.environ, VERIF_NO_EVIDENCE='1'), stdout=subprocess.PIPE, stderr=subprocess.STDOUT, text=True).stdout
    rules = re.findall(r'^rule (\S+)\s+instances=(\d+)', out, re.M)
    rules.sort(key=lambda x: -int(x[1]))
    return p, ', '.join('%s %s' % r for r in rules)


props = ['C%02d' % i for i in range(1, 21)]
with ThreadPoolExecutor(8) as ex:
    res = dict(ex.map(run, props))
path = os.path.join(V, 'DESIGN.md')
s = open(path).read()
for p, col in res.items():
    s, n = re.subn(r'^\| %s \| [^|]* \|' % p, '| %s | %s |' % (p, col), s, count=1, flags=re.M)
    if n != 1:
        print('row not found', p)
open(path, 'w').write(s)
print('\n'.join('%s %s' % kv for kv in res.items()))
