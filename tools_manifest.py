"""Developer tool: (re)generate MANIFEST.json from sa.props."""
import json, sys
sys.path.insert(0, '/verif')
from sa import props

LEVEL_TEXT = {
 'C01': 'Every structural clause of "dtw.distance is the documented DP scheme" is decided for ALL lengths/windows/psi symbolically (band, recurrence after inverting the rolling-buffer map, psi roles, domain conversions). Numerical optimality of the floating-point result is not claimed.',
 'C02': 'Copy-by-copy agreement of the four C kernels with the same canonical scheme the Python engine is checked against, plus interface/encoding tables and call-site roles. ulp-level equality is not claimed.',
 'C03': 'Normal form of the PrunedDTW block and strictness/domain of every threshold comparison in all kernels, variant/dimensionality of the pruning bound, provenance of the final threshold. The PrunedDTW soundness theorem itself is not claimed.',
 'C04': 'Python matrix kernel as scheme instance; C compact writer per region (map inversion, lock-step, fills, band per region); pyx direct-matrix decision; return arity. Cell values are not compared.',
 'C05': 'Step tables of the back-trackers, penalty plumbing, index-array sizing and one-write-per-decreasing-step. That the path cost equals the distance numerically is not claimed.',
 'C06': 'The pair set/order of every enumerator and both length functions as symbolic iteration spaces (finite set of orderings of rb,re,cb,ce,r), block decoding, square conversion.',
 'C07': 'Static sufficient condition for schedule independence (privatisation per directive incl. nested regions, single output, disjoint slots, re-entrancy); pool primitive and pair order for multiprocessing.',
 'C08': 'Necessary buffer-safety conditions decided structurally (allocation/use agreement, shadowing, stride form) and bounds obligations with concrete witnesses for psi-derived ranges and compact positions. Full memory safety is NOT claimed.',
 'C09': 'Envelope range = DTW band in all copies, scan initialisers, padding element/stride of the Euclidean distance, domain of only_ub, variant agreement. The inequalities themselves are not claimed.',
 'C10': 'Laws of the admissible-path set description (symmetry, monotonicity, window-1 corollary) proved on the band terms every copy was proved equal to; symmetric recurrence and psi roles; mirroring.',
 'C11': 'n-D kernels differ from 1-D siblings only in point distance + stride form; use_ndim reaches every sink; n-D entry points exist.',
 'C12': 'Accumulation/mean pairing on all paths (C and Python), mask guard and bit order, copy-before-update, iteration bound, buffer sizing. Objective monotonicity is not claimed.',
 'C13': 'Reduction to global DTW via psi encoding, identical options in the four engines, single domain conversion, internal-domain back-tracking penalty, writes-only-upper-bounds iterator.',
 'C14': 'Path/typestate rules of the candidate loop (LB validity guard, strict comparators, threshold discipline, defined distances, cache typestate).',
 'C15': 'Writes-only-inf, guard dominance and recomputation on every back edge, blanking coverage, bookkeeping, linkage hook, SciPy condensed order; per-call state of the fit methods (definite assignment, no conditional cache of a mutable attribute).',
 'C16': 'Final assignment post-dominates last write of the means, partition construction, iteration counter, helper siblings, seeding blocks; per-call state of KMeans.fit is assigned before it is read on every path (a second fit does not see the first).',
 'C17': 'dp.dp as scheme instance, arrow table writer/reader agreement, gap emission, joint negation, return arity.',
 'C18': 'Affinity recurrence normal form in Python and C regions, forwarding, entry points, identity tests, scan initialisers, duality; window mask of the non-compact matrix covers the band (box of shapes/windows); restore pass of the reset unconditional.',
 'C19': 'Dispatch chains, sound monotonicity/interval calculus per arm, reported-parameter completeness, documented-formula agreement.',
 'C20': 'Effect rules (no store through series parameters in Python/C), contiguity provenance before raw pointers, private container storage, optional-NumPy symmetry, module state, caller-owned option dictionaries.',
}
checks = []
for pid in sorted(props.PROPS):
    checks.append({
        'property_id': pid,
        'quick_cmd': '/venv/bin/python -m sa.check %s --tier quick' % pid,
        'thorough_cmd': '/venv/bin/python -m sa.check %s --tier thorough' % pid,
        'evidence_file': '/verif/evidence/%s.json' % pid,
        'replay_cmd_template': '/venv/bin/python -m sa.check %s --replay {path}' % pid,
        'engine': 'sa',
        'level_claimed': {'category': 'other', 'text': LEVEL_TEXT[pid], 'design_ref': 'DESIGN.md section 5 (%s) and section 4 (rule catalogue)' % pid},
        'level_note': 'Trusted base: clang-14 / Cython 3 / CPython ast parsers and the sa/* analyses. Decides code-shape clauses that are necessary conditions of the property; '
                      'the behavioural remainder listed under "Declined" in DESIGN.md section 5 is not claimed. Known genuine defects are listed in known_findings.json.',
        'technique': 'static analysis: ' + props.EXPL[pid][:180],
    })
man = {
    'version': 1,
    'setup_cmd': '/venv/bin/python -m compileall -q sa',
    'hooks': {'guard': 'DTAIDISTANCE_VERIF (unused: the checks are purely static, no hooks were added to the repository)',
              'enable': 'none needed: checks parse /repo (or $VERIF_REPO) sources directly',
              'baseline_off_cmd': 'cd /repo && /venv/bin/python -m pytest -ra -q -p no:cacheprovider --timeout=900 --continue-on-collection-errors',
              'source_commits': [], 'add_only': True},
    'engines': [{'name': 'sa', 'path': '/verif/sa', 'serves_properties': sorted(props.PROPS),
                 'kind_free_text': 'repository-specific static analyser: clang JSON AST + Cython parser + Python ast front ends into a common IR; symbolic executor; '
                                   'piecewise-linear term equivalence (case split + Fourier-Motzkin, integer witnesses); rule catalogue R-* (DESIGN.md section 4)'}],
    'checks': checks,
    'not_applicable': [],
    'notes': 'All 20 properties are claimed through structural clauses (DESIGN.md sections 1.2 and 5); no property is wholly not-applicable. '
             'Exit 0 = all rule instances held (KNOWN-FINDING lines for listed genuine defects), 1 = new violation, 2 = ANALYSIS-ERROR (anchor vanished / unrecognised shape / floor).',
}
json.dump(man, open('/verif/MANIFEST.json', 'w'), indent=1)
print('written', len(checks))
