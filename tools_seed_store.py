"""Developer tool: copy confirmed seeded mutants from the scratch area into /verif/seeded/<prop>-<mK>/ with a meta.json that records
what the change breaks, what it needs to manifest, what was run to confirm it, and which checks report it (recomputed now)."""
import json
import os
import re
import shutil
import subprocess
import sys

SRC = sys.argv[1] if len(sys.argv) > 1 else '/tmp/seed_out'
OFFSET = int(sys.argv[2]) if len(sys.argv) > 2 else 0      # round 2 stores its m1, m2 as m3, m4
ROUND = 1 + OFFSET // 2
KS = tuple(sys.argv[3].split(',')) if len(sys.argv) > 3 else ('m1', 'm2')       # round 4: m7,m8 stored under their own names (offset 0)
if len(sys.argv) > 4:
    ROUND = int(sys.argv[4])
PROPS = sys.argv[5].split(',') if len(sys.argv) > 5 else ['C%02d' % i for i in range(1, 21)]
# keyed by the stored name (m1, m2: round 1; m3, m4: round 2; m5, m6: round 3)
SKIP = {('C19', 'm1'): 'breaks only "S(q-quantile) == target" for a quantile-derived `a` with explicit r != 1, which the statement of C19 does not promise',
        ('C19', 'm5'): 'changes a caller of distance_to_similarity (symbolization.alignment.agg_prob drops r=max_value); the transforms of similarity.py, which C19 is about, are untouched',
        ('C19', 'm6'): 'changes LocalConcurrences.similarity_matrix (`d <= tau`), a different function from the two transforms C19 states laws for'}


def main():
    out_root = '/verif/seeded'
    os.makedirs(out_root, exist_ok=True)
    table = {}
    if os.path.exists(os.path.join(out_root, 'DETECTION.json')):
        table = json.load(open(os.path.join(out_root, 'DETECTION.json')))
    for p in PROPS:
        for k in KS:
            d = os.path.join(SRC, p, k)
            if not os.path.exists(os.path.join(d, 'confirm.json')):
                print('no confirm for', p, k)
                continue
            conf = json.load(open(os.path.join(d, 'confirm.json')))
            try:
                meta = json.load(open(os.path.join(d, 'meta.json')))
            except Exception:  # noqa
                meta = {}
            ok = conf.get('demo_original', {}).get('rc') == 0 and conf.get('demo_mutant', {}).get('rc') not in (0, None) and conf.get('baseline_missing') == []
            if not ok:
                print('NOT CONFIRMED', p, k, conf.get('error'))
                continue
            if (p, 'm%d' % (int(k[1:]) + OFFSET)) in SKIP:
                print('skipped', p, k, SKIP[(p, 'm%d' % (int(k[1:]) + OFFSET))])
                continue
            r = subprocess.run(['bash', '/verif/tools_seed_quick.sh', d], stdout=subprocess.PIPE, stderr=subprocess.STDOUT, text=True)
            line = [l for l in r.stdout.splitlines() if 'DETECTED_BY' in l][-1]
            det = re.findall(r'(C\d\d)\(rc=1\)', line)
            errs = re.findall(r'(C\d\d)\(rc=2\)', line)
            reports = [l.strip()[:400] for l in r.stdout.splitlines() if l.startswith('  src')][:3]
            kk = 'm%d' % (int(k[1:]) + OFFSET)
            dst = os.path.join(out_root, '%s-%s' % (p, kk))
            os.makedirs(dst, exist_ok=True)
            shutil.copy(os.path.join(d, 'patch.diff'), dst)
            shutil.copy(os.path.join(d, 'demo.py'), dst)
            m = {
                'breaks_property': p,
                'round': ROUND,
                'files': conf.get('files'),
                'summary': meta.get('summary'),
                'needs_to_manifest': meta.get('needs_to_manifest') or meta.get('needs'),
                'kind': meta.get('kind'),
                'why_it_looks_fine': meta.get('why_it_looks_fine'),
                'sites': meta.get('sites'),
                'refactoring': meta.get('refactoring'),
                'slip': meta.get('slip'),
                'origin': 'written by a fresh sub-agent that saw only the text of the property and its own scratch worktree of /repo (nothing from /verif)',
                'confirmed_by': {
                    'how': 'tools_seed_eval.py: scratch worktree of /repo HEAD + patch (extension rebuilt when C/Cython changed); demo.py on the original and on the '
                           'changed tree; full pytest run compared with the 128 stable tests of /root/.vp/BASELINE.json; worktree removed afterwards',
                    'demo_on_original': conf.get('demo_original'),
                    'demo_on_mutant': conf.get('demo_mutant'),
                    'pytest': conf.get('pytest_tail'),
                    'baseline_tests_no_longer_passing': conf.get('baseline_missing'),
                },
                'checks': {
                    'how': 'tools_seed_quick.sh: patch applied to a scratch copy of /repo/src, all 20 quick checks run with VERIF_REPO pointing at it',
                    'reported_by': det,
                    'own_property_check_reports_it': p in det,
                    'analysis_errors': errs,
                    'first_reports': reports,
                },
            }
            json.dump(m, open(os.path.join(dst, 'meta.json'), 'w'), indent=1)
            table['%s-%s' % (p, kk)] = det
            print(p, kk, det, errs)
    # the table is rebuilt from the stored meta.json files (several instances of this tool may run side by side)
    import glob
    table = {}
    for f in sorted(glob.glob(os.path.join(out_root, '*', 'meta.json'))):
        table[os.path.basename(os.path.dirname(f))] = json.load(open(f))['checks']['reported_by']
    json.dump(table, open(os.path.join(out_root, 'DETECTION.json'), 'w'), indent=1)


if __name__ == '__main__':
    main()
