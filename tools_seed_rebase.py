"""Developer tool: re-express a seeded patch against the current /repo HEAD by a 3-way merge (git merge-file) of
base commit (where the change was written) / changed file / HEAD file, so that a later repair of /repo that moves lines cannot make the
patch land on a sibling copy of the same code.   usage: tools_seed_rebase.py <dir with patch.diff> <base commit>"""
import os
import shutil
import subprocess
import sys
import tempfile


def sh(cmd, cwd=None):
    p = subprocess.run(cmd, shell=True, cwd=cwd, stdout=subprocess.PIPE, stderr=subprocess.STDOUT, text=True)
    return p.returncode, p.stdout


def main():
    d, base = os.path.abspath(sys.argv[1]), sys.argv[2]
    patch = os.path.join(d, 'patch.orig.diff') if os.path.exists(os.path.join(d, 'patch.orig.diff')) else os.path.join(d, 'patch.diff')
    t = tempfile.mkdtemp(prefix='rebase_')
    try:
        for name, rev in (('base', base), ('head', 'HEAD'), ('mut', base)):
            os.makedirs(os.path.join(t, name))
            sh('git -C /repo archive %s src | tar -x -C %s' % (rev, os.path.join(t, name)))
        rc, out = sh('git init -q . && git apply --unsafe-paths -p1 --directory=. %s' % patch, cwd=os.path.join(t, 'mut'))
        if rc != 0:
            print('ORIGINAL PATCH DOES NOT APPLY TO ITS BASE', d, out[:200])
            return 1
        rc, files = sh("grep '^+++ b/' %s | sed 's#^+++ b/##'" % patch)
        merged = os.path.join(t, 'merged')
        shutil.copytree(os.path.join(t, 'head'), merged)
        for f in files.split():
            rc, out = sh('git merge-file -p %s %s %s > %s' % (os.path.join(t, 'head', f), os.path.join(t, 'base', f), os.path.join(t, 'mut', f), os.path.join(merged, f)))
            if rc != 0:
                print('CONFLICT', d, f)
                return 1
        sh('git init -q . && git add -A && git -c user.email=a@b -c user.name=x commit -qm head', cwd=os.path.join(t, 'head'))
        sh('rsync -a --delete --exclude .git %s/ %s/' % (merged, os.path.join(t, 'head')))
        rc, diff = sh('git diff', cwd=os.path.join(t, 'head'))
        if not diff.strip():
            print('EMPTY DIFF', d)
            return 1
        if not os.path.exists(os.path.join(d, 'patch.orig.diff')):
            shutil.copy(os.path.join(d, 'patch.diff'), os.path.join(d, 'patch.orig.diff'))
        with open(os.path.join(d, 'patch.diff'), 'w') as fh:
            fh.write(diff)
        same = open(os.path.join(d, 'patch.orig.diff')).read().count('\n@@') == diff.count('\n@@')
        print('rebased', os.path.basename(d), 'hunks', diff.count('\n@@'), 'same hunk count' if same else 'HUNK COUNT DIFFERS')
        return 0
    finally:
        shutil.rmtree(t, ignore_errors=True)


if __name__ == '__main__':
    sys.exit(main())
