#!/usr/bin/env python3
"""Mechanical behaviour-preserving rewrites of ALL Python sources of the package (used by `sa.selftest`, variants MECH-*):
  flipcmp   a < b  ->  b > a          flipeq   a == b -> b == a        augassign  x += k -> x = x + k
  ifelse    if c: A else: B -> if not c: B else: A                     commute    a + b -> b + a, a * b -> b * a (numeric-looking operands)
  rename    every plain local of every function gets the suffix _q
usage: tools_mech_twin.py <kind> <target tree>   (writes <target>/src, a rewritten copy of $VERIF_REPO or /repo)"""
import ast, os, sys, shutil, builtins

kind, tgt = sys.argv[1], sys.argv[2]
shutil.rmtree(tgt, ignore_errors=True)
os.makedirs(tgt)
shutil.copytree(os.path.join(os.environ.get('VERIF_REPO', '/repo'), 'src'), os.path.join(tgt, 'src'), ignore=shutil.ignore_patterns('*.so', '__pycache__', 'build'))

FLIP = {ast.Lt: ast.Gt, ast.Gt: ast.Lt, ast.LtE: ast.GtE, ast.GtE: ast.LtE}


class FlipCmp(ast.NodeTransformer):
    def visit_Compare(self, n):
        self.generic_visit(n)
        if len(n.ops) == 1 and type(n.ops[0]) in FLIP:
            return ast.Compare(left=n.comparators[0], ops=[FLIP[type(n.ops[0])]()], comparators=[n.left])
        return n


class Aug(ast.NodeTransformer):
    def visit_AugAssign(self, n):
        self.generic_visit(n)
        if isinstance(n.target, ast.Name):
            return ast.Assign(targets=[ast.Name(id=n.target.id, ctx=ast.Store())], value=ast.BinOp(left=ast.Name(id=n.target.id, ctx=ast.Load()), op=n.op, right=n.value), lineno=n.lineno)
        return n


class IfElse(ast.NodeTransformer):
    """if c: A else: B  ->  if not c: B else: A   (only plain if/else without elif)"""
    def visit_If(self, n):
        self.generic_visit(n)
        if n.orelse and not (len(n.orelse) == 1 and isinstance(n.orelse[0], ast.If)):
            return ast.If(test=ast.UnaryOp(op=ast.Not(), operand=n.test), body=n.orelse, orelse=n.body)
        return n


class Rename(ast.NodeTransformer):
    """rename the plain locals of every function (not parameters, not names also used in nested functions / global / nonlocal)"""
    def visit_FunctionDef(self, f):
        nested = [x for x in ast.walk(f) if x is not f and isinstance(x, (ast.FunctionDef, ast.Lambda, ast.ClassDef, ast.ListComp, ast.DictComp, ast.SetComp, ast.GeneratorExp))]
        if any(isinstance(x, (ast.Global, ast.Nonlocal)) for x in ast.walk(f)) or any(isinstance(x, ast.Call) and isinstance(x.func, ast.Name) and x.func.id in ('locals', 'eval', 'exec', 'vars') for x in ast.walk(f)):
            return f
        params = {a.arg for a in f.args.posonlyargs + f.args.args + f.args.kwonlyargs} | ({f.args.vararg.arg} if f.args.vararg else set()) | ({f.args.kwarg.arg} if f.args.kwarg else set())
        inner_names = {x.id for n in nested for x in ast.walk(n) if isinstance(x, ast.Name)} | {a.arg for n in nested if isinstance(n, (ast.FunctionDef, ast.Lambda)) for a in n.args.args}
        stored = set()
        for x in ast.walk(f):
            if isinstance(x, ast.Name) and isinstance(x.ctx, ast.Store):
                stored.add(x.id)
        # names imported / bound by with / except / for are Store names too; exclude function's nested def names
        defs = {x.name for x in ast.walk(f) if x is not f and isinstance(x, (ast.FunctionDef, ast.ClassDef))}
        imported = {(a.asname or a.name).split('.')[0] for x in ast.walk(f) if isinstance(x, (ast.Import, ast.ImportFrom)) for a in x.names}
        exc = {x.name for x in ast.walk(f) if isinstance(x, ast.ExceptHandler) and x.name}
        ren = {v for v in stored if v not in params and v not in inner_names and v not in defs and v not in imported and v not in exc and not hasattr(builtins, v) and v != '_'}
        for x in ast.walk(f):
            if isinstance(x, ast.Name) and x.id in ren:
                x.id = x.id + '_q'
        return f


class FlipEq(ast.NodeTransformer):
    def visit_Compare(self, n):
        self.generic_visit(n)
        if len(n.ops) == 1 and isinstance(n.ops[0], (ast.Eq, ast.NotEq)):
            return ast.Compare(left=n.comparators[0], ops=n.ops, comparators=[n.left])
        return n


def _numeric(x):
    return isinstance(x, (ast.Name, ast.Attribute, ast.Subscript)) or (isinstance(x, ast.Constant) and isinstance(x.value, (int, float)) and not isinstance(x.value, bool)) \
        or (isinstance(x, ast.BinOp) and isinstance(x.op, (ast.Add, ast.Sub, ast.Mult)) and _numeric(x.left) and _numeric(x.right)) \
        or (isinstance(x, ast.Call) and isinstance(x.func, ast.Name) and x.func.id in ('len', 'int', 'max', 'min', 'abs'))


class Commute(ast.NodeTransformer):
    """a + b -> b + a, a * b -> b * a for operands that look numeric"""
    def visit_BinOp(self, n):
        self.generic_visit(n)
        if isinstance(n.op, (ast.Add, ast.Mult)) and _numeric(n.left) and _numeric(n.right):
            return ast.BinOp(left=n.right, op=n.op, right=n.left)
        return n


T = {'flipeq': FlipEq, 'commute': Commute, 'flipcmp': FlipCmp, 'augassign': Aug, 'rename': Rename, 'ifelse': IfElse}[kind]
n = 0
for root, _d, files in os.walk(os.path.join(tgt, 'src', 'dtaidistance')):
    for fn in files:
        if not fn.endswith('.py'):
            continue
        p = os.path.join(root, fn)
        src = open(p).read()
        try:
            tree = ast.parse(src)
        except SyntaxError:
            continue
        doc = {}
        tree = T().visit(tree)
        ast.fix_missing_locations(tree)
        open(p, 'w').write(ast.unparse(tree) + '\n')
        n += 1
print('rewrote', n, 'files with', kind)
