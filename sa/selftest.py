"""Self-test of the checkers: mutants of the real source that must be reported, and behaviour-preserving twins that must
stay silent.  Run by the developer (not a registered check):  /venv/bin/python -m sa.selftest [-j 16] [ids...]

Every variant is a scratch copy of /repo/src under a fresh temporary directory (removed afterwards)."""
import concurrent.futures
import os
import shutil
import subprocess
import sys
import tempfile

REPO = os.environ.get('VERIF_REPO_BASE', '/repo')
VERIF = os.path.dirname(os.path.dirname(os.path.abspath(__file__)))
C = 'src/DTAIDistanceC/DTAIDistanceC/'
P = 'src/dtaidistance/'

# (id, file, anchor (text after which to search) or None, old, new, [(property, rule substring expected in a VIOLATION line)], note)
MUTANTS = [
    ('M1', P + 'dtw.py', 'def distance(s1, s2, only_ub', 'j_end = min(c, i + max(0, c - r) + s.window)', 'j_end = min(c, i + max(0, c - r) + s.window - 1)', [('C01', 'R-BAND')]),
    ('M2', C + 'dd_dtw.c', 'seq_t dtw_distance(seq_t *s1', 'minj = i + ldiff_window;', 'minj = i + ldiff_window + 1;', [('C02', 'R-BAND'), ('C10', 'R-BAND')]),
    ('M3', C + 'dd_dtw.c', 'seq_t lb_keogh(seq_t *s1', 'idx_t imax_diff = window;', 'idx_t imax_diff = window - 1;', [('C09', 'R-BAND')]),
    ('M4', P + 'dtw.py', 'def distance(s1, s2, only_ub', 'dtw[i0 * length + j + 1 - skipp] + s.adj_penalty,', 'dtw[i0 * length + j + 1 - skipp],', [('C01', 'R-REC'), ('C10', 'R-REC')]),
    ('M5', C + 'dd_dtw.c', 'seq_t dtw_distance_ndim(seq_t *s1', 'curidx = i0 * length + j - skipp;', 'curidx = i0 * length + j + 1 - skipp;', [('C02', 'R-REC')]),
    ('M6', C + 'dd_dtw.c', '// C. Rows: overlap_left_ri <= ri < MAX', 'wps[ri_widthp + wpsi + 1] + p.penalty);', 'wps[ri_widthp + wpsi - 1] + p.penalty);', [('C04', 'R-REC')]),
    ('M7', P + 'dp.py', None, 'from_above_score = d_indel + scores[i0, j1] + penalty', 'from_above_score = d_indel + scores[i0, j0] + penalty', [('C17', 'R-REC')]),
    ('M8', P + 'dtw.py', 'def warping_paths(s1, s2', 'if dtw[i1, j + 1] > s.adj_max_dist:', 'if dtw[i1, j + 1] >= s.adj_max_dist:', [('C03', 'R-PRUNE')]),
    ('M9', C + 'dd_dtw.c', 'seq_t dtw_distance_euclidean(seq_t *s1', 'sc = j + 1;', 'sc = j;', [('C03', 'R-PRUNE')]),
    ('M10', P + 'dtw.py', 'def distance(s1, s2, only_ub', '    d = result_fn(d)\n    return d', '    return d', [('C01', 'R-DOM')]),
    ('M11', C + 'dd_dtw.c', 'seq_t dtw_distance(seq_t *s1', 'max_step = pow(max_step, 2);', 'max_step = max_step;', [('C02', 'R-DOM')]),
    ('M12', P + 'subsequence/subsequencealignment.py', None, 'penalty=self.settings.adj_penalty)', 'penalty=self.settings.penalty)', [('C13', 'R-DOM')]),
    ('M13', C + 'dd_dtw.c', 'seq_t dtw_distance_ndim_euclidean(seq_t *s1', 'ub_euclidean_ndim_euclidean(', 'ub_euclidean_ndim(', [('C03', 'R-VAR')]),
    ('M14', P + 'dtw_ndim.py', 'def distance(s1, s2, window', 'penalty=penalty, psi=psi,', 'penalty=penalty,', [('C11', 'R-FWD')]),
    ('M15', P + 'dtw.py', 'def lb_keogh(s1, s2', 'innerdistance.inner_dist_fns(s.inner_dist, use_ndim=s.use_ndim)', 'innerdistance.inner_dist_fns(s.inner_dist)', [('C11', 'R-FWD')]),
    ('M17', P + 'dtw_cc.pyx', 'def warping_paths(seq_t[:, :] dtw, seq_t[:] s1', 'True, keep_int_repr, psi_neg, &settings._settings)', 'True, psi_neg, keep_int_repr, &settings._settings)', [('C04', 'R-SIG')]),
    ('M18', P + 'dtw.py', 'def distance_fast(s1, s2', '    s2 = util_numpy.verify_np_array(s2)\n', '', [('C20', 'R-SAN')]),
    ('M19', P + 'dtw_barycenter.py', None, 'c_copy = c.copy()  # The C code reuses this array', 'c_copy = c  # The C code reuses this array', [('C12', 'R-EFF')]),
    ('M20', P + 'ed.py', 'def distance(s1, s2', '    n = min(len(s1), len(s2))\n', '    n = min(len(s1), len(s2))\n    s1[0] = s1[0]\n', [('C20', 'R-EFF')]),
    ('M21', C + 'dd_ed.c', 'seq_t euclidean_distance(seq_t *s1', '    seq_t ub = 0;\n', '    seq_t ub = 0;\n    s1[0] = s1[0];\n', [('C20', 'R-EFF')]),
    ('M22', P + 'clustering/hierarchical.py', 'def fit(self, series):', 'dists[r, i2] = np.inf', 'dists[r, i2] = 0', [('C15', 'R-EFF')]),
    ('M23', C + 'dd_dtw.c', 'seq_t dtw_distance(seq_t *s1', 'seq_t * dtw = (seq_t *)malloc(sizeof(seq_t) * length * 2);', 'static seq_t dtwbuf[4096]; seq_t * dtw = dtwbuf;', [('C07', 'R-EFF')]),
    ('M24', C + 'dd_dtw_openmp.c', 'idx_t dtw_distances_ptrs_parallel(', 'private(r_i, c_i, r, c)', 'private(r_i, r, c)', [('C07', 'R-OMP')]),
    ('M25', C + 'dd_dtw_openmp.c', 'idx_t dtw_distances_matrix_parallel(', 'output[rls[r_i] + c_i]', 'output[rls[r_i] + c]', [('C07', 'R-OMP')]),
    ('M26', C + 'dd_dtw_openmp.c', None, 'rs += block->ce - cb;', 'rs += block->ce - block->cb;', [('C07', 'R-OMP')]),
    ('M27', P + 'dtw.py', 'def _distance_matrix_idxs', 'it_c = range(max(r + 1, block[1][0]), min(nb_series, block[1][1]))', 'it_c = range(max(r, block[1][0]), min(nb_series, block[1][1]))', [('C06', 'R-ITER')]),
    ('M28', C + 'dd_dtw.c', 'idx_t dtw_distances_length(', 'delta = block->ce - ir - 1;', 'delta = block->ce - ir;', [('C06', 'R-ITER')]),
    ('M29', P + 'dtw.py', 'def distance_matrix(s, block', 'dists = p.map(fn, [(s[r], s[c], dist_opts) for r, c in zip(*idxs)])', 'dists = list(p.imap_unordered(fn, [(s[r], s[c], dist_opts) for r, c in zip(*idxs)]))', [('C07', 'R-ITER')]),
    ('M30', P + 'dtw.py', 'def warping_paths(s1, s2', '    for i in range(psi_2b + 1):\n        dtw[0, i] = 0', '    for i in range(psi_2b + 1):\n        dtw[i, 0] = 0', [('C04', 'R-PSI')]),
    ('M31', P + 'dtw_cc.pyx', None, 'self._settings.psi_1e = kwargs["psi"][1]\n                        self._settings.psi_2b = kwargs["psi"][2]', 'self._settings.psi_1e = kwargs["psi"][2]\n                        self._settings.psi_2b = kwargs["psi"][1]', [('C02', 'R-TAB')]),
    ('M32', C + 'dd_ed.c', 'seq_t euclidean_distance_ndim_euclidean(', 'for (int di=0; di<ndim; di++) {\n            d += SEDIST(s1[idx + di], s2[idx + di]);', 'for (int d=0; d<ndim; d++) {\n            d += SEDIST(s1[idx + d], s2[idx + d]);', [('C09', 'R-SHD')]),
    ('M33', C + 'dd_dtw.c', 'seq_t lb_keogh(seq_t *s1', 'li = INFINITY;', 'li = 0;', [('C09', 'R-SHD')]),
    ('M34', P + 'similarity.py', 'def distance_to_similarity', "    elif method == 'gaussian':", "    if method == 'gaussian':", [('C19', 'R-DSP')]),
    ('M35', P + 'similarity.py', 'def distance_to_similarity', 'S = np.exp(-D / r)', 'S = np.exp(D / r)', [('C19', 'R-MON')]),
    ('M36', P + 'dtw.py', 'def warping_paths_fast(s1, s2', '        d = dtw_cc.warping_paths(dtw, s1, s2, psi_neg, keep_int_repr, **settings.c_kwargs())\n    return d, dtw', '        d = dtw_cc.warping_paths(dtw, s1, s2, psi_neg, keep_int_repr, **settings.c_kwargs())\n    return d', [('C04', 'R-RET')]),
    ('M38', C + 'dd_dtw.c', 'seq_t dtw_warping_paths_ndim(seq_t *wps,', 'if (d > p.max_step) { wps[ri_width + wpsi] = INFINITY; wpsi++; continue;}', 'if (d > p.max_step) { wps[ri_width + wpsi] = INFINITY; continue;}', [('C04', 'R-PATH')]),
    ('M39', C + 'dd_dtw.c', 'void dtw_dba_matrix(', '            }\n            r_idx += nb_cols*ndim;\n        }\n    } else {', '                r_idx += nb_cols*ndim;\n            }\n        }\n    } else {', [('C12', 'R-PATH')]),
    ('M40', P + 'subsequence/subsequencesearch.py', 'def align(self, k=None):', '        self.k = k\n', '', [('C14', 'R-PATH')]),
    ('M41', P + 'alignment.py', None, 'ops = [(-1,-1), (-1,-0), (-0,-1)]', 'ops = [(-1,-1), (-0,-1), (-1,-0)]', [('C17', 'R-TAB')]),
    ('M42', P + 'dtw_barycenter.py', None, "bitorder='little'", "bitorder='big'", [('C12', 'R-TAB')]),
    ('M43', P + 'dtw.py', 'def c_kwargs(self):', "'max_step': max_step,", "'max_step': max_dist,", [('C02', 'R-TAB')]),
    ('M44', P + 'dtw_cc.pyx', 'def warping_path(seq_t[:] s1', 'cdef Py_ssize_t *i1 = <Py_ssize_t *> PyMem_Malloc((len(s1) + len(s2)) * sizeof(Py_ssize_t))', 'cdef Py_ssize_t *i1 = <Py_ssize_t *> PyMem_Malloc((len(s1) + 1) * sizeof(Py_ssize_t))', [('C08', 'R-ALLOC')]),
    ('M45', C + 'dd_dtw.c', 'seq_t dtw_warping_path_ndim(seq_t *from_s', 'dtw_settings_wps_length(from_l, to_l, settings)', 'dtw_settings_wps_length(to_l, from_l, settings)', [('C08', 'R-ALLOC')]),
    ('M47', P + 'clustering/kmeans.py', 'def fit(self, series, use_parallel', 'if not mask[ki, :].any():', 'if mask[ki, :].any() is False:', [('C16', 'R-ID')]),
    ('M48', P + 'dtw.py', None, '    array_min = min\n    array_max = max\n', '    array_max = max\n', [('C20', 'R-OPT')]),
    ('M50', C + 'dd_dtw.c', 'bool dtw_wps_negativize_value(', 'if (wps[idx] > 0 && wps[idx] != INFINITY) {', 'if (wps[idx] >= 0 && wps[idx] != INFINITY) {', [('C18', 'R-DUAL')]),
    # additional mutants written while building the rules
    ('N1', C + 'dd_dtw.c', 'seq_t dtw_distance_ndim_euclidean(seq_t *s1', 'if (dtw[curidx] > max_dist) {', 'if (dtw[curidx] >= max_dist) {', [('C03', 'R-PRUNE')]),
    ('N2', P + 'clustering/kmeans.py', 'def fit(self, series, use_parallel', '            performed_it += 1\n', '            performed_it += 2\n', [('C16', 'R-PATH')]),
    ('N3', P + 'subsequence/subsequencesearch.py', 'def align(self, k=None):', 'if lb > max_dist:', 'if lb >= max_dist:', [('C14', 'R-PRUNE')]),
    ('N4', P + 'dtw.py', 'def best_path(paths, row', '        elif c == 1:\n            i = i - 1\n        elif c == 2:\n            j = j - 1', '        elif c == 1:\n            j = j - 1\n        elif c == 2:\n            i = i - 1', [('C05', 'R-REC')]),
    ('N5', P + 'dtw.py', 'def split_psi(self):', 'psi_1b, psi_1e, psi_2b, psi_2e = self.psi', 'psi_1b, psi_2b, psi_1e, psi_2e = self.psi', [('C01', 'R-PSI')]),
    ('N6', C + 'dd_dtw.c', 'seq_t dtw_warping_paths_ndim(seq_t *wps,', '    wpsi_start = 2;\n', '    wpsi_start = 1;\n', [('C04', 'R-')]),
    ('N7', P + 'dtw_cc.pyx', 'def distance_matrix(cur, block=None', 'block_ce = block[1][1]', 'block_ce = block[1][0]', [('C06', 'R-ITER')]),
    ('N8', P + 'clustering/hierarchical.py', 'def fit(self, series):', 'for c in range(i2 + 1, len(series)):', 'for c in range(i2 + 2, len(series)):', [('C15', 'R-PATH')]),
    ('N9', P + 'dtw.py', 'def distances_array_to_matrix', '        dists_matrix.T[idxs] = dists\n', '', [('C06', 'R-ITER'), ('C10', 'R-ITER')]),
    ('N10', C + 'dd_dtw.c', 'seq_t dtw_distance_ndim(seq_t *s1', 'tempv = dtw[curidx] + penalty;\n            if (tempv < minv) {\n                minv = tempv;\n            }\n            curidx = i1 * length + j - skip;', 'tempv = dtw[curidx];\n            if (tempv < minv) {\n                minv = tempv;\n            }\n            curidx = i1 * length + j - skip;', [('C02', 'R-REC'), ('C10', 'R-REC')]),
    ('N11', P + 'subsequence/localconcurrences.py', 'def kbest_matches(self', 'wp[xx, yy] = -abs(wp[xx, yy])  # ma.masked\n                        yy = y + 1', 'wp[xx, yy] = -wp[xx, yy]  # ma.masked\n                        yy = y + 1', [('C18', 'R-DUAL')]),
    ('N12', P + 'subsequence/localconcurrences.py', 'def _reset_wp_mask', '            wp.data[used] = -wp.data[used]\n', '', [('C18', 'R-DUAL')]),
    ('N13', P + 'alignment.py', 'def make_substitution_fn', '    _unwrap.gap = gap\n', '', [('C17', 'R-TAB')]),
    ('N14', P + 'dp.py', 'def dp(', 'last_under_max_dist == -1 and c > 0:', 'last_under_max_dist == -1:', [('C17', 'R-PRUNE')]),
    ('N16', C + 'dd_dtw.c', 'idx_t dtw_settings_wps_width(', '    DTWWps p = dtw_wps_parts(l1, l2, settings);\n    return p.width;', '    DTWWps p = dtw_wps_parts(l1, l2, settings);\n#ifdef NDEBUG\n    p.width = p.width - 1;\n#endif\n    return p.width;', [('C08', 'R-CFG'), ('C02', 'R-CFG')]),
    ('N17', C + 'dd_dtw.c', 'idx_t dtw_best_path_prob(', 'probs[2] = prev - wps[ri_widthp + wpsi + 1]; // Right', 'probs[2] = prev - wps[ri_widthp + wpsi]; // Right', [('C05', 'R-MAP'), ('C12', 'R-MAP')]),
    ('N15', P + 'similarity.py', 'def squash', 'Xz = 1 - np.exp(x0 / r)', 'Xz = 1 - np.exp(-x0 / r)', [('C19', 'R-DUAL')]),
    # F55 / F56 re-introduced
    ('N18', C + 'dd_dtw.c', 'seq_t dtw_warping_paths_affinity_ndim(', 'for (; ci<MIN(ri, l2); ci++) {', 'for (; ci<ri; ci++) {', [('C08', 'R-MAP'), ('C18', 'R-MAP')]),
    ('N19', P + 'clustering/kmeans.py', 'def kmedoids_centers', "if self.dists_options.get('use_c', False):\n            fn_dm", "if self.dists_options.use_c:\n            fn_dm", [('C16', 'R-SIG')]),
    ('N22', P + 'dtw.py', 'def _distance_with_params_ndim', "    kwargs = dict(t[2])\n    kwargs['use_ndim'] = True\n    return distance(t[0], t[1], **kwargs)", "    return distance(t[0], t[1], use_ndim=True, **t[2])", [('C07', 'R-ITER')]),
    # the 0-means-off encoding, decided symbolically
    ('N20', C + 'dd_dtw.c', 'seq_t dtw_distance_ndim(seq_t *s1', 'if (max_step == 0) {\n        max_step = INFINITY;', 'if (max_step < 0) {\n        max_step = INFINITY;', [('C10', 'R-TAB'), ('C16', 'R-TAB')]),
    # euclidean loop summary: the surplus of series 1 compared with the first instead of the last element of series 2
    ('N21', C + 'dd_ed.c', 'seq_t euclidean_distance(', 'ub += SEDIST(s1[i], s2[n-1]);', 'ub += SEDIST(s1[i], s2[0]);', [('C09', 'R-PATH')]),
]

# behaviour-preserving twins: (id, file, anchor, old, new, [properties that must stay at exit 0])


TWINS = [
    ('T1', C + 'dd_dtw.c', 'seq_t dtw_distance(seq_t *s1', 'maxj = (i - dl_window) * (i > dl_window);', 'maxj = i;\n        if (maxj > dl_window) {\n            maxj -= dl_window;\n        } else {\n            maxj = 0;\n        }', ['C02', 'C03', 'C08', 'C10']),
    ('T2', C + 'dd_dtw.c', 'seq_t dtw_distance(seq_t *s1', 'idx_t length = MIN(l2+1, ldiff + 2*window + 1);', 'idx_t length = ldiff + 2*window + 1;\n    if (l2 + 1 < length) { length = l2 + 1; }', ['C02', 'C08']),
    ('T3', C + 'dd_dtw.c', 'seq_t dtw_distance(seq_t *s1', '        max_step = pow(max_step, 2);\n    }\n    penalty = pow(penalty, 2);', '        max_step = pow(max_step, 2);\n    }\n    penalty = penalty * penalty;', ['C02', 'C03']),
    ('T4', P + 'dtw.py', 'def distance(s1, s2, only_ub', 'j_start = max(0, i - max(0, r - c) - s.window + 1)\n        j_end', 'j_start = i - max(0, r - c) - s.window + 1\n        j_start = j_start if j_start > 0 else 0\n        j_end', ['C01', 'C10']),
    ('T5', P + 'dtw.py', 'def _distance_matrix_idxs', 'it_c = range(max(r + 1, block[1][0]), min(nb_series, block[1][1]))', 'it_c = range(max(block[1][0], 1 + r), min(block[1][1], nb_series))', ['C06']),
    ('T6', P + 'similarity.py', 'def distance_to_similarity', 'S = np.exp(-D / r)', 'S = np.exp(-(D / r))', ['C19']),
    ('T7', C + 'dd_dtw_openmp.c', 'idx_t dtw_distances_ptrs_parallel(', 'private(r_i, c_i, r, c)', 'private(c_i, r_i, c, r)', ['C07']),
    ('T9', P + 'util.py', 'class SeriesContainer', 'self.detected_ndim = len(self.series[0, 0])', 'self.detected_ndim = self.series.shape[2]', ['C11']),
    ('T10', P + 'dtw.py', 'def distance(s1, s2', 'for ii in range(i1*length, i1*length+length):', 'for ii in range(length*i1, length*i1 + length):', ['C01', 'C10']),
    ('T11', P + 'similarity.py', 'def squash', 'Xz = 1 / (1 + np.power(base, -(0 - x0) / r))', 'Xz = 1 / (1 + np.power(base, x0 / r))', ['C19']),
    ('T12', P + 'dp.py', 'def dp(', 'last_under_max_dist == -1 and c > 0:', 'last_under_max_dist == -1 and c >= 1:', ['C17']),
    ('T13', P + 'subsequence/localconcurrences.py', 'def kbest_matches(self', 'wp[xx, yy] = -abs(wp[xx, yy])  # ma.masked\n                        yy = y + 1', 'wp[xx, yy] = -np.abs(wp[xx, yy])\n                        yy = y + 1', ['C18']),
    ('T14', P + 'dtw_cc.pyx', 'def best_path_compact(', '        for i in range(path_length):\n            path.append((i1[i], i2[i]))', '        for k in range(path_length):\n            path.append((i1[k], i2[k]))', ['C05']),
    ('T15', P + 'subsequence/subsequencesearch.py', 'class SSMatches', 'elif self.k is None or self.k > self.ss.k:', 'elif self.k is None or self.ss.k < self.k:', ['C14']),
    ('T16', P + 'clustering/kmeans.py', 'def _distance_ndim_with_params', '    series, avgs, dists_options = t\n    min_i, min_d = -1, float(\'inf\')\n    for i, avg in enumerate(avgs):\n        d = dtw_ndim.distance(series, avg, **dists_options)', '    series, avgs, opts = t\n    min_i, min_d = -1, float(\'inf\')\n    for i, avg in enumerate(avgs):\n        d = dtw_ndim.distance(series, avg, **opts)', ['C16']),
    ('T17', P + 'util.py', 'def c_data_compat', '                        serie = np.asarray(serie, order="C")\n                        self.series[i] = serie', '                        self.series[i] = np.asarray(serie, order="C")', ['C20', 'C02']),
    ('T18', P + 'dtw.py', 'def _distance_matrix_idxs', 'idxs = (np.array(idxsl_r), np.array(idxsl_c))', 'idxs = (np.asarray(idxsl_r), np.asarray(idxsl_c))', ['C06']),
    ('T19', P + 'dtw.py', 'def set_max_dist', 'self.adj_max_dist = ival_fn(ub_euclidean(s1, s2, inner_dist=self.inner_dist, use_ndim=self.use_ndim))', 'ub = ub_euclidean(s1, s2, inner_dist=self.inner_dist, use_ndim=self.use_ndim)\n            self.adj_max_dist = ival_fn(ub)', ['C03', 'C01', 'C02', 'C09']),
    ('T20', P + 'dtw.py', 'def _distance_c_with_params(t)', 'return dtw_cc.distance(t[0], t[1], **t[2])', 'd = dtw_cc.distance(t[0], t[1], **t[2])\n    return d', ['C07']),
    ('T21', P + 'alignment.py', 'def needleman_wunsch', "gap = getattr(substitution, 'gap', 1)", "gap = getattr(substitution, 'gap', 1)  # gap cost of the substitution function", ['C17']),
    ('T22', C + 'dd_dtw.c', 'DTWWps dtw_wps_parts', '        if (settings->inner_dist == 0) {\n            parts.max_dist = pow(parts.max_dist, 2);\n        }', '        if (settings->inner_dist != 1) {\n            parts.max_dist = pow(parts.max_dist, 2);\n        }', ['C03', 'C04']),
    ('T23', P + 'similarity.py', 'def distance_to_similarity', 'r = np.min(D) + np.max(D)', 'r = np.max(D) + np.min(D)', ['C19']),
    ('T24', P + 'subsequence/subsequencealignment.py', 'def _best_matches', '(maxlength is not None and e-b+1 > maxlength)):', '(maxlength is not None and e-b >= maxlength)):', ['C13']),
    ('T25', P + 'dtw.py', 'def warping_paths_fast', '    s2 = util_numpy.verify_np_array(s2)\n    r = len(s1)\n    c = len(s2)\n    _check_library(raise_exception=True)\n    settings = DTWSettings.for_dtw(s1, s2, **kwargs)\n    if compact:\n', '    r = len(s1)\n    c = len(s2)\n    _check_library(raise_exception=True)\n    settings = DTWSettings.for_dtw(s1, s2, **kwargs)\n    if compact:\n        s2 = util_numpy.verify_np_array(s2)\n    else:\n        s2 = util_numpy.verify_np_array(s2)\n    if compact:\n', ['C20', 'C13']),
    ('T26', C + 'dd_ed.c', 'seq_t euclidean_distance_ndim(', '            ub += d;\n        }\n    }\n    ub = sqrt(ub);', '            ub = ub + d;\n        }\n    }\n    ub = sqrt(ub);', ['C09', 'C11', 'C02']),
    ('T8', P + 'clustering/hierarchical.py', 'def fit(self, series):', "        logger.debug('Merging patterns')\n", "        logger.debug('Merging the patterns')\n\n", ['C15']),
]


def _apply(root, file, anchor, old, new):
    path = os.path.join(root, file)
    with open(path) as f:
        s = f.read()
    i = 0
    if anchor:
        i = s.find(anchor)
        if i < 0:
            return 'anchor not found: %r' % anchor
    j = s.find(old, i)
    if j < 0:
        return 'text not found: %r' % old[:60]
    s = s[:j] + new + s[j + len(old):]
    with open(path, 'w') as f:
        f.write(s)
    return None


def _run_variant(item, kind):
    vid, file, anchor, old, new, expect = item
    tmp = tempfile.mkdtemp(prefix='sa_selftest_')
    try:
        shutil.copytree(os.path.join(REPO, 'src'), os.path.join(tmp, 'src'), ignore=shutil.ignore_patterns('*.so', '__pycache__', 'build'))
        err = _apply(tmp, file, anchor, old, new)
        if err:
            return vid, False, 'SETUP: ' + err
        env = dict(os.environ, VERIF_REPO=tmp, VERIF_NO_EVIDENCE='1', VERIF_CACHE=os.path.join(tmp, '.cache'))
        msgs = []
        ok = True
        for ex in expect:
            prop, rule = (ex, None) if kind == 'twin' else ex
            p = subprocess.run(['/venv/bin/python', '-m', 'sa.check', prop],
                               cwd=VERIF, env=env, stdout=subprocess.PIPE, stderr=subprocess.STDOUT, text=True)
            out = p.stdout
            if kind == 'mutant':
                lines = [l for l in out.splitlines() if rule in l and file.split('/')[-1] in l and not l.startswith('KNOWN')]
                hit = p.returncode == 1 and any(l.startswith('  ') for l in lines)
                if not hit:
                    ok = False
                    msgs.append('%s: expected %s violation, rc=%s %s' % (prop, rule, p.returncode, [l for l in out.splitlines() if 'ERROR' in l or l.startswith('  ')][:3]))
                else:
                    msgs.append('%s: %s' % (prop, [l.strip()[:160] for l in lines if l.startswith('  ')][0]))
            else:
                if p.returncode != 0:
                    ok = False
                    msgs.append('%s: twin raised rc=%s %s' % (prop, p.returncode, [l for l in out.splitlines() if l.startswith('  ') or 'ERROR' in l][:3]))
        return vid, ok, '; '.join(msgs)
    finally:
        shutil.rmtree(tmp, ignore_errors=True)


# Seeded changes the check of their own property does not report (DESIGN.md 11.1d): what is expected instead, so that a change of that status is noticed.
#   name -> (check to run, expected exit code, reason)
SEEDED_LIMITS = {
    'C16-m8': ('C11', 1, 'a defect of the n-D distance kernel: reported by C02 / C10 / C11; the k-means check has no kernel rules'),
    'C07-m8': ('C07', 0, 'LIMIT: the work list is built by a helper with a cached row series; the obligation is undecided, nothing is reported'),
    # round 5 (second-tier places)
    'C08-m10': ('C08', 0, 'LIMIT: no rule bounds the positions dtw_wps_negativize touches (the dual comparison has no verdict once one copy is restructured)'),
    'C18-m10': ('C18', 0, 'LIMIT: dtw_wps_loc with region D as a closed form is not comparable region by region; undecided'),
    # round 6 (two cooperating sites / call histories / unusual inputs)
    'C04-m11': ('C04', 0, 'LIMIT: no rule states that dtw_expand_wps_slice blanks the slice before copying the band (the guard `p.width < l2 + 1` skips it for banded full-width rows)'),
    'C08-m11': ('C08', 0, 'LIMIT: no rule bounds an index taken from a psi field into the DBA average buffer (psi_1b == t reads c[t])'),
    'C19-m11': ('C19', 0, 'LIMIT: the quantile calibration grid covers the scalar form of cover_quantile only; the (quantile, value) pair handed through a new helper is not evaluated'),
    'C07-m9': ('C07', 2, 'LIMIT: the pair plan written as comprehensions is not recognised; the check stops with an ANALYSIS-ERROR (no verdict)'),
    'C19-m9': ('C19', 2, 'LIMIT: two methods merged into one arm of the dispatch are not recognised; the check stops with an ANALYSIS-ERROR (no verdict)'),
}


def _run_seeded(name):
    """A seeded change kept under /verif/seeded/<prop>-<mK>/patch.diff must be reported by the check of the property it breaks."""
    d = os.path.join(VERIF, 'seeded', name)
    prop = name.split('-')[0]
    want_rc = 1
    if name in SEEDED_LIMITS:
        prop, want_rc, _why = SEEDED_LIMITS[name]
    tmp = tempfile.mkdtemp(prefix='sa_selftest_')
    try:
        shutil.copytree(os.path.join(REPO, 'src'), os.path.join(tmp, 'src'), ignore=shutil.ignore_patterns('*.so', '__pycache__', 'build'))
        subprocess.run(['git', 'init', '-q', '.'], cwd=tmp, stdout=subprocess.DEVNULL, stderr=subprocess.DEVNULL)
        p = subprocess.run(['git', 'apply', '--unsafe-paths', '-p1', '--directory=.', os.path.join(d, 'patch.diff')], cwd=tmp, stdout=subprocess.PIPE, stderr=subprocess.STDOUT, text=True)
        if p.returncode != 0:
            return name, False, 'SETUP: patch does not apply to the current tree: ' + p.stdout[:200]
        env = dict(os.environ, VERIF_REPO=tmp, VERIF_NO_EVIDENCE='1', VERIF_CACHE=os.path.join(tmp, '.cache'))
        p = subprocess.run(['/venv/bin/python', '-m', 'sa.check', prop], cwd=VERIF, env=env, stdout=subprocess.PIPE, stderr=subprocess.STDOUT, text=True)
        lines = [l.strip()[:200] for l in p.stdout.splitlines() if l.startswith('  ')]
        if want_rc != 1:
            ok = p.returncode == want_rc
            return name, ok, ('%s: rc=%s as recorded -- %s' % (prop, p.returncode, SEEDED_LIMITS[name][2])) if ok else \
                '%s: recorded limit no longer holds: rc=%s (recorded %s); update SEEDED_LIMITS and DESIGN.md 11.1d' % (prop, p.returncode, want_rc)
        ok = p.returncode == 1 and bool(lines)
        return name, ok, ('%s: %s' % (prop, lines[0])) if ok else '%s: expected a violation, rc=%s %s' % (prop, p.returncode, [l for l in p.stdout.splitlines() if 'ERROR' in l][:2])
    finally:
        shutil.rmtree(tmp, ignore_errors=True)


def _run_stored_twin(name):
    """A behaviour-preserving refactoring kept under /verif/twins/<prop>-<rK>/patch.diff (same results on a randomised demo, same test outcome):
    every one of the 20 checks must stay at exit 0 with no stale finding."""
    d = os.path.join(VERIF, 'twins', name)
    tmp = tempfile.mkdtemp(prefix='sa_selftest_')
    try:
        shutil.copytree(os.path.join(REPO, 'src'), os.path.join(tmp, 'src'), ignore=shutil.ignore_patterns('*.so', '__pycache__', 'build'))
        subprocess.run(['git', 'init', '-q', '.'], cwd=tmp, stdout=subprocess.DEVNULL, stderr=subprocess.DEVNULL)
        p = subprocess.run(['git', 'apply', '--unsafe-paths', '-p1', '--directory=.', os.path.join(d, 'patch.diff')], cwd=tmp, stdout=subprocess.PIPE, stderr=subprocess.STDOUT, text=True)
        if p.returncode != 0:
            return name, False, 'SETUP: patch does not apply to the current tree: ' + p.stdout[:200]
        env = dict(os.environ, VERIF_REPO=tmp, VERIF_NO_EVIDENCE='1', VERIF_CACHE=os.path.join(tmp, '.cache'))
        bad = []
        for pr_ in ['C%02d' % i for i in range(1, 21)]:
            q = subprocess.run(['/venv/bin/python', '-m', 'sa.check', pr_], cwd=VERIF, env=env, stdout=subprocess.PIPE, stderr=subprocess.STDOUT, text=True)
            if q.returncode != 0 or 'STALE-FINDING' in q.stdout:
                bad.append('%s rc=%s %s' % (pr_, q.returncode, [l.strip()[:160] for l in q.stdout.splitlines() if l.startswith('  ') or 'ERROR' in l or 'STALE' in l][:1]))
        return name, not bad, '; '.join(bad)
    finally:
        shutil.rmtree(tmp, ignore_errors=True)


MECH_KINDS = ['flipcmp', 'flipeq', 'augassign', 'ifelse', 'commute', 'rename', 'crename']     # crename: every local of every C function renamed (tools_mech_c.py)


def _run_mech(kind):
    """Whole-tree mechanical rewrite of every Python file (tools_mech_twin.py; each keeps the repository's test results): all twenty checks must stay at
    exit 0 with no stale finding."""
    tmp = tempfile.mkdtemp(prefix='sa_selftest_')
    try:
        tree = os.path.join(tmp, 't')
        cmd = ['/venv/bin/python', os.path.join(VERIF, 'tools_mech_c.py'), tree] if kind == 'crename' else ['/venv/bin/python', os.path.join(VERIF, 'tools_mech_twin.py'), kind, tree]
        p = subprocess.run(cmd, env=dict(os.environ, VERIF_REPO=REPO),
                           stdout=subprocess.PIPE, stderr=subprocess.STDOUT, text=True)
        if p.returncode != 0:
            return 'MECH-' + kind, False, 'SETUP: ' + p.stdout[-200:]
        env = dict(os.environ, VERIF_REPO=tree, VERIF_NO_EVIDENCE='1', VERIF_CACHE=os.path.join(tmp, '.cache'))
        bad = []
        for pr_ in ['C%02d' % i for i in range(1, 21)]:
            q = subprocess.run(['/venv/bin/python', '-m', 'sa.check', pr_], cwd=VERIF, env=env, stdout=subprocess.PIPE, stderr=subprocess.STDOUT, text=True)
            if q.returncode != 0 or 'STALE-FINDING' in q.stdout:
                bad.append('%s rc=%s %s' % (pr_, q.returncode, [l.strip()[:160] for l in q.stdout.splitlines() if l.startswith('  ') or 'ERROR' in l or 'STALE' in l][:1]))
        return 'MECH-' + kind, not bad, '; '.join(bad)
    finally:
        shutil.rmtree(tmp, ignore_errors=True)


def _run_shift(_=None):
    """Whole-tree twin: two comment lines are prepended to every source file (all line numbers move); every check must stay at exit 0 with the
    same known findings (identity never uses positions)."""
    tmp = tempfile.mkdtemp(prefix='sa_selftest_')
    try:
        shutil.copytree(os.path.join(REPO, 'src'), os.path.join(tmp, 'src'), ignore=shutil.ignore_patterns('*.so', '__pycache__', 'build'))
        for root, _d, files in os.walk(os.path.join(tmp, 'src')):
            for fn in files:
                pre = '# shifted\n# shifted again\n\n' if fn.endswith(('.py', '.pyx', '.pxd')) else ('// shifted\n// shifted again\n\n' if fn.endswith(('.c', '.h')) and 'jinja' not in root else None)
                if pre:
                    path = os.path.join(root, fn)
                    with open(path) as f:
                        txt = f.read()
                    with open(path, 'w') as f:
                        f.write(pre + txt)
        env = dict(os.environ, VERIF_REPO=tmp, VERIF_NO_EVIDENCE='1', VERIF_CACHE=os.path.join(tmp, '.cache'))
        bad = []
        procs = {p: subprocess.Popen(['/venv/bin/python', '-m', 'sa.check', p], cwd=VERIF, env=env, stdout=subprocess.PIPE, stderr=subprocess.STDOUT, text=True)
                 for p in ['C%02d' % i for i in range(1, 21)]}
        for p, pr in procs.items():
            out, _e = pr.communicate()
            if pr.returncode != 0 or 'STALE-FINDING' in out:
                bad.append('%s rc=%s' % (p, pr.returncode))
        return 'TSHIFT', not bad, '; '.join(bad)
    finally:
        shutil.rmtree(tmp, ignore_errors=True)


def main(argv):
    jobs = 16
    ids = [a for a in argv if not a.startswith('-')]
    seeded_only = '--seeded' in argv or (('--twins' in argv or '--mech' in argv) and '--all' not in argv)
    work = [] if seeded_only else [(m, 'mutant') for m in MUTANTS if not ids or m[0] in ids] + [(t, 'twin') for t in TWINS if not ids or t[0] in ids]
    sdir = os.path.join(VERIF, 'seeded')
    seeded = sorted(n for n in os.listdir(sdir) if os.path.isdir(os.path.join(sdir, n)) and (not ids or n in ids)) if os.path.isdir(sdir) and ('--seeded' in argv or '--all' in argv) else []
    res = []
    with concurrent.futures.ThreadPoolExecutor(max_workers=jobs) as ex:
        futs = [ex.submit(_run_variant, item, kind) for item, kind in work] + [ex.submit(_run_seeded, n) for n in seeded]
        tdir = os.path.join(VERIF, 'twins')
        if os.path.isdir(tdir) and ('--all' in argv or '--twins' in argv):
            futs += [ex.submit(_run_stored_twin, n) for n in sorted(os.listdir(tdir)) if os.path.isdir(os.path.join(tdir, n)) and (not ids or n in ids)]
        if '--all' in argv or 'TSHIFT' in ids:
            futs.append(ex.submit(_run_shift))
        if '--all' in argv or '--mech' in argv:
            futs += [ex.submit(_run_mech, k) for k in MECH_KINDS if not ids or ('MECH-' + k) in ids]
        for fu in futs:
            res.append(fu.result())
    bad = 0
    for vid, ok, msg in res:
        print('%-4s %s %s' % (vid, 'ok  ' if ok else 'FAIL', msg[:400]))
        bad += 0 if ok else 1
    print('%d variants, %d failures' % (len(res), bad))
    return 1 if bad else 0


if __name__ == '__main__':
    sys.exit(main(sys.argv[1:]))
