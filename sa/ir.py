"""Common mini-IR shared by the C, Cython and Python front ends.

Expressions are nested tuples (hashable, comparable):
  ('num', v)                 int / float literal (float('inf') for INFINITY / inf / np.inf)
  ('var', name)
  ('bin', op, a, b)          + - * / // % ** < <= > >= == != and or & | ^ << >> is isnot in notin
  ('un', op, a)              neg not inv addr deref
  ('call', fexpr, (args...), ((kw, expr)...))   fexpr is an expr (('var', 'min'), ('attr', ('var','np'),'full'), ...)
  ('idx', base, index)       index may be ('tuple', (...)) or ('slice', lo, hi, step)
  ('attr', base, name)       settings->x, s.x, p.x
  ('cond', c, a, b)
  ('str', s) ('none',) ('bool', b) ('tuple', (..)) ('list', (..)) ('dict', ((k,v)..)) ('slice', lo, hi, step)
  ('star', e) ('dstar', e)   *args / **kwargs at call sites (dstar appears in kw list with key None)
  ('lambda', params, body) ('comp', kind, elt, gens) ('other', text)
Statements are `S` objects with a `.k` kind and fields.
"""


class S:
    __slots__ = ('k', 'line', 'd')

    def __init__(self, k, line=None, **d):
        self.k = k
        self.line = line
        self.d = d

    def __getattr__(self, n):
        if n in ('d', 'k', 'line') or n.startswith('__'):
            raise AttributeError(n)           # slots not yet set (unpickling) / special methods
        try:
            return self.d[n]
        except KeyError:
            raise AttributeError(n)

    def __getstate__(self):
        return (self.k, self.line, self.d)

    def __setstate__(self, st):
        self.k, self.line, self.d = st

    def __repr__(self):
        return 'S(%s@%s %s)' % (self.k, self.line, {k: v for k, v in self.d.items() if k not in ('body', 'then', 'els')})


# Statement kinds and their fields:
#  assign  target, value            (augmented assignments are expanded: target = target op value; aug=True)
#  decl    name, init, ctype        (C / cdef local declarations)
#  if      cond, then, els
#  for     var, lo, hi, step, body  (counted loop: C `for (v=lo; v<hi; v+=step)`, Python `for v in range(...)`;
#                                   inclusive=True when the C guard is `<=`)
#  foreach target, iter, body       (Python for over a non-range iterable)
#  while   cond, body
#  loop    init, cond, inc, body    (non-canonical C for)
#  break / continue
#  return  value
#  expr    value
#  assert  cond
#  raise   value
#  omp     private, shared, body(for stmt list)
#  with    items, body
#  try     body, handlers[(type, name, body)], orelse, final
#  def / class (nested definitions) name, node
#  pass, global, delete, yield is an expr statement ('yield', e)


def mk_cmp(op, a, b):
    """Comparisons are kept in one orientation: `a > b` is `b < a`, `a >= b` is `b <= a` -- so a comparison written the other way round is the same IR."""
    if op == '>':
        return ('bin', '<', b, a)
    if op == '>=':
        return ('bin', '<=', b, a)
    return ('bin', op, a, b)


_POS = {'!=': '==', 'isnot': 'is', 'notin': 'in'}


def canon_cond(c):
    """Negations are pushed through and/or (De Morgan, evaluation order kept) and double negations removed; comparisons under a `not` stay as they are
    (`not (a < b)` is not `a >= b` for NaN)."""
    if not isinstance(c, tuple):
        return c
    if c[0] == 'un' and c[1] == 'not':
        x = c[2]
        if x[0] == 'un' and x[1] == 'not':
            return canon_cond(x[2])
        if x[0] == 'bin' and x[1] in ('and', 'or'):
            return ('bin', 'or' if x[1] == 'and' else 'and', canon_cond(('un', 'not', x[2])), canon_cond(('un', 'not', x[3])))
        if x[0] == 'bin' and x[1] in _POS:
            return ('bin', _POS[x[1]], x[2], x[3])
        if x[0] == 'bin' and x[1] in ('==', 'is', 'in'):
            return ('bin', {'==': '!=', 'is': 'isnot', 'in': 'notin'}[x[1]], x[2], x[3])
        return ('un', 'not', canon_cond(x))
    if c[0] == 'bin' and c[1] in ('and', 'or'):
        return ('bin', c[1], canon_cond(c[2]), canon_cond(c[3]))
    return c


def _negative(c):
    """(positive form, True) when c is a negated / negative test (`not x`, `a != b`, `a is not b`, `a not in b`), else (c, False)"""
    if c[0] == 'un' and c[1] == 'not':
        return c[2], True
    if c[0] == 'bin' and c[1] in _POS:
        return ('bin', _POS[c[1]], c[2], c[3]), True
    return c, False


def mk_if(line, cond, then, els):
    """One shape for two-armed conditionals: the test is positive (`if not c: A else: B` is `if c: B else: A`; likewise for !=, is not, not in)."""
    cond = canon_cond(cond)
    if els:
        pos, neg = _negative(cond)
        if neg:
            cond, then, els = pos, els, then
    return S('if', line, cond=cond, then=then, els=els)


def mk_cond(c, a, b):
    c = canon_cond(c)
    pos, neg = _negative(c)
    if neg:
        return ('cond', pos, b, a)
    return ('cond', c, a, b)


_FLIP = {'<': '>', '<=': '>=', '>': '<', '>=': '<='}


def orient(c, left):
    """View of an ordering comparison with a chosen left side: c is `x OP y` (any orientation); `left` is an expression or a predicate on expressions.
    -> (op, a, b) meaning `a op b` with a matching `left`, or None when c is not an ordering comparison or neither side matches."""
    if not (isinstance(c, tuple) and c[0] == 'bin' and c[1] in _FLIP):
        return None
    pred = left if callable(left) else (lambda e: e == left)
    if pred(c[2]):
        return (c[1], c[2], c[3])
    if pred(c[3]):
        return (_FLIP[c[1]], c[3], c[2])
    return None


def aug_rhs(s):
    """For an assignment `t = t op e` (written `t op= e` or spelled out; operands of + and * in any order) -> e; None otherwise."""
    if s.k != 'assign' or s.value[0] != 'bin':
        return None
    v = s.value
    if v[2] == s.target:
        return v[3]
    if v[1] in ('+', '*') and v[3] == s.target:
        return v[2]
    return None


def walk_stmts(stmts):
    """Yield every statement, depth first, in source order."""
    for s in stmts:
        yield s
        for sub in sub_blocks(s):
            yield from walk_stmts(sub)


def sub_blocks(s):
    k = s.k
    if k == 'if':
        return [s.then, s.els]
    if k in ('for', 'foreach', 'while', 'loop', 'with'):
        r = [s.body]
        if k == 'loop':
            r = [s.init, s.body, s.inc]
        if 'orelse' in s.d and s.d['orelse']:
            r.append(s.d['orelse'])
        return r
    if k == 'omp':
        return [s.body]
    if k == 'try':
        r = [s.body]
        for h in s.handlers:
            r.append(h[2])
        r.append(s.orelse)
        r.append(s.final)
        return r
    return []


def walk_expr(e):
    """Yield every sub-expression (pre-order)."""
    if not isinstance(e, tuple):
        return
    yield e
    k = e[0]
    if k in ('num', 'var', 'str', 'none', 'bool', 'other'):
        return
    if k == 'call':
        yield from walk_expr(e[1])
        for a in e[2]:
            yield from walk_expr(a)
        for kw, v in e[3]:
            yield from walk_expr(v)
        return
    if k in ('tuple', 'list', 'set'):
        for a in e[1]:
            yield from walk_expr(a)
        return
    if k == 'dict':
        for kk, v in e[1]:
            if kk is not None:
                yield from walk_expr(kk)
            yield from walk_expr(v)
        return
    if k in ('min', 'max'):
        for a in e[1]:
            yield from walk_expr(a)
        return
    if k == 'lambda':
        yield from walk_expr(e[2])
        return
    if k == 'comp':
        yield from walk_expr(e[2])
        for (t, it, conds) in e[3]:
            yield from walk_expr(t)
            yield from walk_expr(it)
            for c in conds:
                yield from walk_expr(c)
        return
    for a in e[1:]:
        if isinstance(a, tuple):
            yield from walk_expr(a)


def stmt_exprs(s):
    """Top-level expressions of a single statement (not of nested blocks)."""
    k = s.k
    if k == 'assign':
        return [s.target, s.value]
    if k == 'decl':
        return [s.init] if s.init is not None else []
    if k in ('if', 'while', 'assert'):
        return [s.cond] + ([s.d['msg']] if s.d.get('msg') is not None else [])
    if k == 'for':
        return [e for e in (s.lo, s.hi, s.step) if e is not None]
    if k == 'foreach':
        return [s.target, s.iter]
    if k == 'loop':
        return [s.cond] if s.cond is not None else []
    if k in ('return', 'expr', 'raise'):
        return [s.value] if s.value is not None else []
    if k == 'with':
        r = []
        for ce, tv in s.items:
            r.append(ce)
            if tv is not None:
                r.append(tv)
        return r
    return []


def all_exprs(stmts):
    for s in walk_stmts(stmts):
        for e in stmt_exprs(s):
            yield s, e


def fmt(e):
    """Readable rendering of an expression (for reports only)."""
    if not isinstance(e, tuple):
        return repr(e)
    k = e[0]
    if k == 'num':
        return repr(e[1]) if not (isinstance(e[1], float) and e[1] == float('inf')) else 'inf'
    if k == 'var':
        return e[1]
    if k == 'bin':
        return '(%s %s %s)' % (fmt(e[2]), e[1], fmt(e[3]))
    if k == 'un':
        return '%s(%s)' % ({'neg': '-', 'not': 'not ', 'inv': '~', 'addr': '&', 'deref': '*'}.get(e[1], e[1]), fmt(e[2]))
    if k == 'call':
        args = [fmt(a) for a in e[2]] + [('%s=%s' % (kw, fmt(v)) if kw else '**' + fmt(v)) for kw, v in e[3]]
        return '%s(%s)' % (fmt(e[1]), ', '.join(args))
    if k == 'idx':
        return '%s[%s]' % (fmt(e[1]), fmt(e[2]))
    if k == 'attr':
        return '%s.%s' % (fmt(e[1]), e[2])
    if k == 'cond':
        return '(%s ? %s : %s)' % (fmt(e[1]), fmt(e[2]), fmt(e[3]))
    if k == 'str':
        return repr(e[1])
    if k == 'none':
        return 'None'
    if k == 'bool':
        return str(e[1])
    if k in ('tuple', 'list', 'set'):
        return ('(%s)' if k == 'tuple' else '[%s]') % ', '.join(fmt(a) for a in e[1])
    if k == 'dict':
        return '{%s}' % ', '.join(('%s: %s' % (fmt(a), fmt(b)) if a is not None else '**' + fmt(b)) for a, b in e[1])
    if k == 'slice':
        return '%s:%s:%s' % tuple('' if x is None else fmt(x) for x in e[1:4])
    if k in ('min', 'max'):
        return '%s(%s)' % (k, ', '.join(fmt(a) for a in e[1]))
    if k == 'star':
        return '*' + fmt(e[1])
    if k == 'dstar':
        return '**' + fmt(e[1])
    if k == 'other':
        return '<%s>' % (e[1],)
    if k == 'comp':
        gens = ' '.join('for %s in %s%s' % (fmt(t), fmt(it), ''.join(' if ' + fmt(c) for c in conds)) for t, it, conds in e[3])
        return '[%s %s]' % (fmt(e[2]), gens)
    if k == 'lambda':
        return 'lambda %s: %s' % (', '.join(e[1]), fmt(e[2]))
    return str(e)


def callee_name(e):
    """Dotted name of a call's callee or None."""
    if e[0] != 'call':
        return None
    return dotted(e[1])


def dotted(e):
    if e[0] == 'var':
        return e[1]
    if e[0] == 'attr':
        b = dotted(e[1])
        return None if b is None else b + '.' + e[2]
    return None
