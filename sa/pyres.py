"""Resolution of Python call targets inside the package (resolved call graph for the Python layer)."""
from .ir import dotted
from .pyfront import resolve_import, PY_MODULES


def resolve_call(m, mod, func, call):
    """Resolve call expr to (module, PyFunc, bound) or None.  bound=True when the first parameter (self) is implicit."""
    d = dotted(call[1])
    if d is None:
        return None
    parts = d.split('.')
    cls = func.cls if func is not None else None
    # self.method(...)
    if parts[0] == 'self' and len(parts) == 2 and cls:
        f = mod.funcs.get('%s.%s' % (cls, parts[1]))
        if f:
            return mod, f, True
        return None
    if parts[0] in ('cls',) and len(parts) == 2 and cls:
        f = mod.funcs.get('%s.%s' % (cls, parts[1]))
        if f:
            return mod, f, _is_bound(f)
        return None
    # local function / class in same module
    if len(parts) == 1:
        return _lookup(m, mod, parts[0])
    if len(parts) == 2:
        # Class.method in same module
        if parts[0] in mod.classes:
            f = mod.funcs.get(d)
            if f:
                return mod, f, _is_bound(f) and False
        r = resolve_import(m.repo, mod, parts[0])
        if r and r[0] == 'pymod' and r[1] in PY_MODULES:
            tm = m.py(r[1])
            return _lookup(m, tm, parts[1])
        if r and r[0] == 'attr' and r[1] in PY_MODULES:
            tm = m.py(r[1])
            if r[2] in tm.classes:
                f = tm.funcs.get('%s.%s' % (r[2], parts[1]))
                if f:
                    return tm, f, False
    if len(parts) == 3:
        r = resolve_import(m.repo, mod, parts[0])
        if r and r[0] == 'pymod' and r[1] in PY_MODULES:
            tm = m.py(r[1])
            f = tm.funcs.get('%s.%s' % (parts[1], parts[2]))
            if f:
                return tm, f, False
    return None


def _is_bound(f):
    for d in f.decorators:
        if d == ('var', 'staticmethod'):
            return False
    return True


def _lookup(m, mod, name, depth=0):
    if name in mod.funcs and mod.funcs[name].cls is None:
        return mod, mod.funcs[name], False
    if name in mod.classes:
        f = mod.funcs.get(name + '.__init__')
        if f:
            return mod, f, True
        return None
    if depth > 3:
        return None
    r = resolve_import(m.repo, mod, name)
    if r and r[0] == 'attr' and r[1] in PY_MODULES:
        return _lookup(m, m.py(r[1]), r[2], depth + 1)
    return None


def bind_args(target, bound, call):
    """Map callee parameter name -> argument expr for the explicitly supplied arguments.
    Returns (mapping, has_star, dstar_exprs)."""
    params = list(target.args)
    if bound and params:
        params = params[1:]
    mapping = {}
    has_star = False
    pos = 0
    for a in call[2]:
        if a[0] == 'star':
            has_star = True
            continue
        if pos < len(params):
            mapping[params[pos]] = a
        pos += 1
    dstars = []
    for k, v in call[3]:
        if k is None:
            dstars.append(v)
        else:
            mapping[k] = v
    return mapping, has_star, dstars
