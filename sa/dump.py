from .ir import fmt, sub_blocks
def dump(stmts, ind=0, out=print):
    for s in stmts:
        p = ' ' * ind + '%4s ' % (s.line if s.line else '')
        k = s.k
        if k == 'assign': out(p + '%s = %s' % (fmt(s.target), fmt(s.value)))
        elif k == 'decl': out(p + 'decl %s : %s = %s' % (s.name, s.ctype, fmt(s.init) if s.init is not None else '-'))
        elif k == 'if':
            out(p + 'if %s' % fmt(s.cond)); dump(s.then, ind + 2, out)
            if s.els: out(p + 'else'); dump(s.els, ind + 2, out)
        elif k == 'for':
            out(p + 'for %s in [%s, %s%s) step %s' % (s.var, fmt(s.lo) if s.lo is not None else '.', fmt(s.hi), ']' if s.d.get('inclusive') else '', fmt(s.step) if s.step is not None else '1')); dump(s.body, ind + 2, out)
        elif k == 'foreach': out(p + 'foreach %s in %s' % (fmt(s.target), fmt(s.iter))); dump(s.body, ind + 2, out)
        elif k == 'while': out(p + 'while %s' % fmt(s.cond)); dump(s.body, ind + 2, out)
        elif k == 'loop':
            out(p + 'loop cond=%s' % (fmt(s.cond) if s.cond is not None else '-')); out(p + ' init:'); dump(s.init, ind + 4, out); out(p + ' inc:'); dump(s.inc, ind + 4, out); dump(s.body, ind + 2, out)
        elif k in ('return', 'expr', 'raise'): out(p + '%s %s' % (k, fmt(s.value) if s.value is not None else ''))
        elif k == 'assert': out(p + 'assert %s' % fmt(s.cond))
        elif k == 'omp': out(p + 'omp %s captured=%s' % (s.clauses, s.captured)); dump(s.body, ind + 2, out)
        elif k == 'try':
            out(p + 'try'); dump(s.body, ind + 2, out)
            for h in s.handlers: out(p + 'except %s' % (h[0],)); dump(h[2], ind + 2, out)
            if s.orelse: out(p + 'else'); dump(s.orelse, ind + 2, out)
            if s.final: out(p + 'finally'); dump(s.final, ind + 2, out)
        elif k == 'with': out(p + 'with %s' % ', '.join(fmt(a) for a, b in s.items)); dump(s.body, ind + 2, out)
        else: out(p + k + ' ' + str({a: b for a, b in s.d.items() if a not in ('body', 'node')}))
