"""Plumbing shared by all property checks: obligations, findings, known-findings matching, evidence, exit codes."""
import json
import os
import re
import sys
import time
import traceback

VERIF = os.path.dirname(os.path.dirname(os.path.abspath(__file__)))
REPO = os.environ.get('VERIF_REPO', '/repo')
KNOWN = os.path.join(VERIF, 'known_findings.json')


class AnalysisError(Exception):
    pass


# make cfront's AnalysisError the same class
from . import cfront as _cf  # noqa: E402
AnalysisError = _cf.AnalysisError  # noqa: E305


def norm(s):
    """Normalise a construct key: collapse whitespace."""
    return re.sub(r'\s+', ' ', str(s)).strip()


class Ctx:
    """One run of one property check."""

    def __init__(self, prop, tier, repo=None):
        self.prop = prop
        self.tier = tier
        self.repo = repo or REPO
        self.t0 = time.time()
        self.obligations = []     # dicts: rule, instance, status, detail
        self.violations = []      # dicts
        self.notes = []           # free-text lines (UNPROVEN, DRIFT, assumptions)
        self.samples = []
        self.analysed = {}        # counters: units, functions, call sites ...
        self.floors = {}          # rule -> (floor, why)
        self.assumptions = []
        self.only = None          # replay filter: (rule, construct_key)
        self._scope = None        # predicate(rule, text) restricting which obligations are recorded

    def scoped(self, pred):
        ctx = self

        class _S:
            def __enter__(self_):
                self_.old = ctx._scope
                ctx._scope = pred

            def __exit__(self_, *a):
                ctx._scope = self_.old
        return _S()

    def _in_scope(self, rule, text):
        return self._scope is None or self._scope(rule, text)

    # ------------------------------------------------------------------ bookkeeping
    def count(self, key, n=1):
        self.analysed[key] = self.analysed.get(key, 0) + n

    def floor(self, rule, n, why=''):
        self.floors[rule] = (n, why)

    def note(self, text):
        self.notes.append(text)

    def assume(self, text):
        if text not in self.assumptions:
            self.assumptions.append(text)

    def sample(self, obj):
        if len(self.samples) < 12:
            self.samples.append(obj)

    def held(self, rule, instance, detail=''):
        if not self._in_scope(rule, norm(instance)):
            return
        self.obligations.append({'rule': rule, 'instance': norm(instance), 'status': 'held', 'detail': detail})

    def undecided(self, rule, instance, detail=''):
        """An obligation the analysis could not decide: never a violation (logged)."""
        if not self._in_scope(rule, norm(instance)):
            return
        self.obligations.append({'rule': rule, 'instance': norm(instance), 'status': 'undecided', 'detail': detail})
        self.notes.append('UNDECIDED %s %s: %s' % (rule, norm(instance), detail))

    def violation(self, rule, file, function, construct, what, line=None, facts=None):
        """Record a violated obligation.  Identity = (rule, basename(file), function, construct)."""
        v = {'property': self.prop, 'rule': rule, 'file': os.path.relpath(file, self.repo) if file and os.path.isabs(file) else file,
             'function': function, 'construct_key': norm(construct), 'what_fails': what, 'line': line, 'facts': facts}
        inst = '%s:%s:%s' % (v['file'], function, v['construct_key'])
        if not self._in_scope(rule, inst):
            return
        for o in self.violations:
            if (o['rule'], o['file'], o['function'], o['construct_key']) == (rule, v['file'], function, v['construct_key']):
                o.setdefault('more_sites', []).append(line)
                if facts and facts.get('failset') and o.get('facts') is not None and o['facts'].get('failset'):
                    o['facts']['failset'] += ' ' + facts['failset']
                return
        self.violations.append(v)
        self.obligations.append({'rule': rule, 'instance': inst, 'status': 'violated', 'detail': what})

    def check(self, ok, rule, file, function, construct, what, line=None, facts=None, detail=''):
        """Convenience: obligation that holds iff ok."""
        if ok:
            self.held(rule, '%s:%s:%s' % (os.path.basename(file) if file else '', function, norm(construct)), detail)
        else:
            self.violation(rule, file, function, construct, what, line, facts)
        return ok


def load_known():
    if not os.path.exists(KNOWN):
        return {'findings': [], 'fixed': []}
    with open(KNOWN) as f:
        return json.load(f)


def _match(v, k):
    if k.get('rule') != v['rule']:
        return False
    if v['property'] not in k.get('properties', [k.get('property')]):
        return False
    if os.path.basename(k.get('file', '')) != os.path.basename(v['file'] or ''):
        return False
    if k.get('function') != v['function']:
        return False
    return norm(k.get('construct_key', '')) == v['construct_key']


def _same_failset(v, k):
    """A finding recorded with the fingerprint of its failing inputs is only recognised while exactly those inputs fail."""
    fs = (v.get('facts') or {}).get('failset')
    return not k.get('failset') or fs is None or fs == k['failset']


def finish(ctx, explanation, trusted=()):
    """Print the report, write evidence, return the exit code."""
    known = load_known()
    kfs = known.get('findings', [])
    new = []
    matched = []
    seen_known = set()
    for v in ctx.violations:
        if ctx.only and not (v['rule'] == ctx.only[0] and v['construct_key'] == ctx.only[1]):
            continue
        hit = None
        for i, k in enumerate(kfs):
            if _match(v, k):
                if not _same_failset(v, k):
                    v['what_fails'] += '  [this construct is a recorded finding (%s), but the set of failing inputs changed: recorded %s, now %s]' \
                        % (k.get('id', '?'), k['failset'], v['facts']['failset'])
                    seen_known.add(i)
                    break
                hit = (i, k)
                break
        if hit:
            matched.append((v, hit[1]))
            seen_known.add(hit[0])
        else:
            new.append(v)
    # mark known obligations
    for v, k in matched:
        for o in ctx.obligations:
            if o['status'] == 'violated' and o['instance'] == '%s:%s:%s' % (v['file'], v['function'], v['construct_key']) and o['rule'] == v['rule']:
                o['status'] = 'known-finding'
    # floors
    errors = []
    per_rule = {}
    for o in ctx.obligations:
        per_rule[o['rule']] = per_rule.get(o['rule'], 0) + 1
    for rule, (n, why) in ctx.floors.items():
        if per_rule.get(rule, 0) < n:
            errors.append('rule %s analysed %d instances, below the hand-confirmed floor %d (%s)' % (rule, per_rule.get(rule, 0), n, why))
    wall = time.time() - ctx.t0
    out = []
    out.append('== %s tier=%s repo=%s' % (ctx.prop, ctx.tier, ctx.repo))
    out.append('analysed: ' + ', '.join('%s=%s' % kv for kv in sorted(ctx.analysed.items())))
    for rule in sorted(per_rule):
        st = {}
        for o in ctx.obligations:
            if o['rule'] == rule:
                st[o['status']] = st.get(o['status'], 0) + 1
        fl = ctx.floors.get(rule)
        out.append('rule %-10s instances=%-4d %s%s' % (rule, per_rule[rule], ' '.join('%s=%d' % kv for kv in sorted(st.items())),
                                                       ' floor=%d' % fl[0] if fl else ''))
    for n in ctx.notes:
        out.append('NOTE ' + n)
    seen_k = set()
    for v, k in matched:
        kid = k.get('id', '') + '|' + v['construct_key'] + '|' + str(v['function'])
        if kid in seen_k:
            continue
        seen_k.add(kid)
        out.append('KNOWN-FINDING: property=%s [%s %s] %s:%s: %s' % (ctx.prop, k.get('id', '?'), v['rule'], v['file'], v['function'], k.get('what_fails', v['what_fails'])))
    # stale entries for this property
    for i, k in enumerate(kfs):
        if ctx.prop in k.get('properties', [k.get('property')]) and i not in seen_known and not ctx.only:
            out.append('STALE-FINDING: property=%s [%s] no longer derived: %s' % (ctx.prop, k.get('id', '?'), k.get('what_fails', '')))
    no_ev = bool(os.environ.get('VERIF_NO_EVIDENCE'))
    vdir = os.path.join(VERIF, 'evidence', 'violations') if not no_ev else os.path.join(os.environ.get('VERIF_REPO', '/tmp'), 'violations')
    code = 0
    if new:
        os.makedirs(vdir, exist_ok=True)
        for i, v in enumerate(new):
            key = re.sub(r'[^A-Za-z0-9_.-]+', '_', '%s_%s_%s_%s' % (ctx.prop, v['rule'], v['function'], v['construct_key']))[:150]
            path = os.path.join(vdir, key + '.json')
            with open(path, 'w') as f:
                json.dump(v, f, indent=1, default=str)
            out.append('  %s:%s %s in %s: %s  [construct: %s]' % (v['file'], v['line'], v['rule'], v['function'], v['what_fails'], v['construct_key']))
            out.append('VIOLATION property=%s replay=%s' % (ctx.prop, path))
        code = 1
    if errors and not new:
        # (with a violation reported the run already fails: a rule that stopped at the violating construct analysed fewer instances than on the clean tree)
        for e in errors:
            out.append('ANALYSIS-ERROR %s' % e)
        code = 2
    print('\n'.join(out))
    # evidence
    n_ob = len(ctx.obligations)
    n_ok = sum(1 for o in ctx.obligations if o['status'] == 'held')
    distinct = len({(o['rule'], o['instance']) for o in ctx.obligations})
    seed = 0
    try:
        seed = int(os.environ.get('VERIF_SEED', '0'))
    except ValueError:
        seed = 0
    ev = {
        'property_id': ctx.prop,
        'tier': ctx.tier,
        'seed': seed,
        'level': 'other',
        'coverage': {
            'explanation': explanation,
            'obligations': n_ob,
            'discharged': n_ok,
            'known_findings_rederived': len(matched),
            'undecided': sum(1 for o in ctx.obligations if o['status'] == 'undecided'),
            'evaluations': max(n_ob, 1),
            'distinct_nontrivial': distinct,
            'rule': 'one obligation per (rule, construct) instance extracted from the current source; distinct = distinct (rule, instance) pairs',
            'samples': ctx.samples[:12] or [o for o in ctx.obligations[:5]],
            'analysed': ctx.analysed,
            'per_rule': per_rule,
            'floors': {k: v[0] for k, v in ctx.floors.items()},
            'notes': ctx.notes[:60],
            'checker_cmd': '/venv/bin/python -m sa.check %s --tier %s' % (ctx.prop, ctx.tier),
            'trusted_base': list(trusted) or ['clang-14 parser', 'Cython 3 parser', 'CPython ast', 'sa/* analyses'],
            'exhaustive': True,
        },
        'assumptions': ctx.assumptions,
        'wall_s': round(wall, 3),
        'violations': len(new),
    }
    if not ctx.only and not no_ev:
        os.makedirs(os.path.join(VERIF, 'evidence'), exist_ok=True)
        with open(os.path.join(VERIF, 'evidence', ctx.prop + '.json'), 'w') as f:
            json.dump(ev, f, indent=1, default=str)
    return code


def run(prop, tier, fn, explanation, replay=None):
    """Run a property check function fn(ctx) with the failure discipline of DESIGN 1.3."""
    ctx = Ctx(prop, tier)
    if replay:
        with open(replay) as f:
            v = json.load(f)
        ctx.only = (v['rule'], v['construct_key'])
    try:
        fn(ctx)
        return finish(ctx, explanation)
    except AnalysisError as e:
        # violations established before the analysis lost its footing are still reported (the later rules could not run)
        if ctx.violations and not ctx.only:
            ctx.floors = {}
            ctx.notes.append('analysis stopped early: %s' % e)
            if finish(ctx, explanation) == 1:
                return 1
        print('ANALYSIS-ERROR property=%s %s' % (prop, e))
        return 2
    except Exception:
        print('ANALYSIS-ERROR property=%s internal error' % prop)
        traceback.print_exc(file=sys.stdout)
        return 2
