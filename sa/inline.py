"""Expansion of helper calls in the mini-IR.

The rules of this checker are anchored in the functions that exist in the pinned tree (sa/baseline_funcs.json lists them).  A later change
may move part of an anchored function into a new helper (extract-function refactoring): the behaviour is the same, but a rule that reads the
anchored function would no longer see the statements it decides on.  The front ends therefore expand, inside every function body, the calls
to functions of the same module / translation unit that are *not* in the baseline list -- so the rules read the same statements whether or
not they were extracted.  Functions of the baseline are never expanded (the rules analyse them in their own right), and a helper that cannot
be expanded faithfully (returns inside loops, recursion, star-arguments) is left as the call it is.
"""
import json
import os
from .ir import S, walk_stmts, walk_expr, stmt_exprs, sub_blocks, dotted

_BASE = None


def baseline():
    global _BASE
    if _BASE is None:
        with open(os.path.join(os.path.dirname(os.path.abspath(__file__)), 'baseline_funcs.json')) as f:
            _BASE = {k: set(v) for k, v in json.load(f).items()}
    return _BASE


class NotInlinable(Exception):
    pass


_SIMPLE = ('var', 'num', 'str', 'none', 'bool')


def map_expr(e, fn):
    """Bottom-up rewrite of an expression: fn is applied to every rebuilt node."""
    if not isinstance(e, tuple):
        return e
    k = e[0]
    if k in ('num', 'var', 'str', 'none', 'bool', 'other'):
        return fn(e)
    if k == 'call':
        r = ('call', map_expr(e[1], fn), tuple(map_expr(a, fn) for a in e[2]), tuple((kw, map_expr(v, fn)) for kw, v in e[3]))
    elif k in ('tuple', 'list', 'set', 'min', 'max'):
        r = (k, tuple(map_expr(a, fn) for a in e[1]))
    elif k == 'dict':
        r = ('dict', tuple((map_expr(a, fn) if a is not None else None, map_expr(b, fn)) for a, b in e[1]))
    elif k == 'lambda':
        r = ('lambda', e[1], map_expr(e[2], fn)) + tuple(e[3:])
    elif k == 'comp':
        r = ('comp', e[1], map_expr(e[2], fn), tuple((map_expr(t, fn), map_expr(it, fn), tuple(map_expr(c, fn) for c in conds)) for t, it, conds in e[3])) + tuple(e[4:])
    else:
        r = (k,) + tuple(map_expr(a, fn) if isinstance(a, tuple) else a for a in e[1:])
    return fn(r)


def subst_vars(e, env):
    from .symexec import fold_bool

    def f(x):
        if x[0] == 'var' and x[1] in env:
            return env[x[1]]
        if x[0] == 'un' and x[1] == 'deref' and x[2][0] == 'un' and x[2][1] == 'addr':
            return x[2][2]
        if x[0] == 'idx' and x[1][0] == 'un' and x[1][1] == 'addr' and x[1][2][0] == 'idx':
            inner = x[1][2]               # (&A[e])[k]  ==  A[e + k]
            return ('idx', inner[1], ('bin', '+', inner[2], x[2]))
        if x[0] == 'idx' and x[1][0] == 'un' and x[1][1] == 'addr' and x[1][2][0] == 'var' and x[2] == ('num', 0):
            return x[1][2]                # (&v)[0] == v
        if x[0] == 'cond':
            c = fold_bool(x[1]) if x[1][0] in ('bool', 'num', 'none', 'un') else x[1]
            if c[0] == 'bool':
                return x[2] if c[1] else x[3]
        return x
    return map_expr(e, f)


def _fold_ifs(stmts):
    """Drop the dead branch of `if <constant>` (arises when a literal argument replaces a flag parameter)."""
    from .symexec import fold_bool
    out = []
    for s in stmts:
        if s.k == 'if':
            c = fold_bool(s.cond) if s.cond[0] in ('bool', 'num', 'none', 'un') else s.cond
            if c[0] == 'bool':
                out.extend(_fold_ifs(s.then if c[1] else s.els))
                continue
            out.append(S('if', s.line, cond=s.cond, then=_fold_ifs(s.then), els=_fold_ifs(s.els)))
        else:
            out.append(s)
    return out


def map_stmt(s, fe):
    """Copy of statement s (nested blocks included) with fe applied to every expression."""
    d = {}
    for k, v in s.d.items():
        if k in ('body', 'then', 'els', 'orelse', 'final', 'init', 'inc') and isinstance(v, list):
            d[k] = [map_stmt(t, fe) for t in v]
        elif k == 'handlers':
            d[k] = [(fe(h[0]) if isinstance(h[0], tuple) else h[0], h[1], [map_stmt(t, fe) for t in h[2]]) for h in v]
        elif k == 'items':
            d[k] = [(fe(a), fe(b) if b is not None else None) for a, b in v]
        elif k in ('target', 'value', 'cond', 'lo', 'hi', 'step', 'iter', 'msg') and isinstance(v, tuple):
            d[k] = fe(v)
        elif k == 'targets' and isinstance(v, list):
            d[k] = [fe(t) if isinstance(t, tuple) else t for t in v]
        elif k == 'init' and isinstance(v, tuple):
            d[k] = fe(v)
        else:
            d[k] = v
    return S(s.k, s.line, **d)


def _assigned(stmts):
    out = set()
    for s in walk_stmts(stmts):
        if s.k == 'assign':
            t = s.target
            if t[0] == 'var':
                out.add(t[1])
            elif t[0] == 'tuple':
                for x in walk_expr(t):
                    if x[0] == 'var':
                        out.add(x[1])
        elif s.k == 'decl':
            out.add(s.name)
        elif s.k == 'for':
            out.add(s.var)
        elif s.k == 'foreach':
            for x in walk_expr(s.target):
                if x[0] == 'var':
                    out.add(x[1])
        elif s.k == 'with':
            for ce, tv in s.items:
                if tv is not None and tv[0] == 'var':
                    out.add(tv[1])
    return out


def _structure_returns(block, retvar, line):
    """Rewrite `return [v]` statements of a helper body as assignments to retvar, nesting the statements that follow a returning branch into
    the other branch.  Returns (new block, always_returns)."""
    out = []
    for i, s in enumerate(block):
        if s.k == 'return':
            if s.value is not None and retvar is not None:
                out.append(S('assign', s.line, target=('var', retvar), value=s.value, aug=None))
            return out, True
        if s.k == 'if':
            th, rt = _structure_returns(s.then, retvar, line)
            el, re_ = _structure_returns(s.els, retvar, line)
            if rt or re_:
                rest, rr = _structure_returns(block[i + 1:], retvar, line)
                if rt and re_:
                    out.append(S('if', s.line, cond=s.cond, then=th, els=el))
                    return out, True
                if rt:
                    out.append(S('if', s.line, cond=s.cond, then=th, els=el + rest))
                else:
                    out.append(S('if', s.line, cond=s.cond, then=th + rest, els=el))
                return out, rr
            out.append(S('if', s.line, cond=s.cond, then=th, els=el))
            continue
        if s.k == 'with' and any(t.k == 'return' for t in walk_stmts(s.body)):
            wb, wr = _structure_returns(s.body, retvar, line)
            if not wr:
                raise NotInlinable('return on some paths of a with block')
            d = dict(s.d)
            d['body'] = wb
            out.append(S('with', s.line, **d))
            return out, True
        if s.k in ('for', 'foreach', 'while', 'loop', 'try', 'with', 'omp'):
            if any(t.k == 'return' for b in sub_blocks(s) for t in walk_stmts(b)):
                raise NotInlinable('return inside %s' % s.k)
        out.append(s)
    return out, False


def _bind(params, defaults, call, self_arg=None):
    """parameter name -> argument expression"""
    if any(a[0] in ('star', 'dstar') for a in call[2]):
        raise NotInlinable('star arguments')
    # `**options` handed through to a helper that collects `**kw` (a parameter spelled '**kw' in `params`): kw is that dictionary (the helper must not
    # modify it -- the resolver checks that); explicit keywords that would land in the collected dictionary are not supported
    kwp = [p_[2:] for p_ in params if p_.startswith('**')]
    ps = [p_ for p_ in params if not p_.startswith('**')]
    dst = [v for k, v in call[3] if k is None]
    call = (call[0], call[1], call[2], tuple((k, v) for k, v in call[3] if k is not None))
    env = {}
    if dst:
        if len(dst) != 1 or not kwp or dst[0][0] != 'var':
            raise NotInlinable('star arguments')
        env[kwp[0]] = dst[0]
    elif kwp:
        env[kwp[0]] = ('dict', ())
    if self_arg is not None and ps:
        env[ps[0]] = self_arg
        ps = ps[1:]
    if len(call[2]) > len(ps):
        raise NotInlinable('too many arguments')
    for p, a in zip(ps, call[2]):
        env[p] = a
    for k, v in call[3]:
        if k not in ps or k in env:
            raise NotInlinable('keyword %s' % k)
        env[k] = v
    for p in ps:
        if p not in env:
            if p in defaults:
                env[p] = defaults[p]
            else:
                raise NotInlinable('missing argument %s' % p)
    return env


def _absorb_copies(out, tag):
    """Trailing copies `y = x@tag` of a helper local into a variable of the caller (results handed back through pointer parameters): when y does not occur
    in the expanded statements otherwise, the helper local *is* y -- rename it and drop the copy."""
    suffix = '@' + tag
    changed = True
    while changed and out:
        changed = False
        last = out[-1]
        # look at the maximal run of trailing plain copies
        k = len(out)
        while k > 0 and out[k - 1].k == 'assign' and out[k - 1].d.get('aug') is None and out[k - 1].target[0] == 'var' \
                and out[k - 1].value[0] == 'var' and out[k - 1].value[1].endswith(suffix):
            k -= 1
        copies = out[k:]
        body = out[:k]
        if not copies:
            break
        mentioned = {x[1] for t in walk_stmts(body) for e in stmt_exprs(t) for x in walk_expr(e) if x[0] == 'var'} | \
            {t.name for t in walk_stmts(body) if t.k == 'decl'} | {t.var for t in walk_stmts(body) if t.k == 'for'}
        ren = {}
        keep = []
        for c_ in copies:
            y, x = c_.target[1], c_.value[1]
            if y not in mentioned and x not in ren and y not in [v[1] for v in ren.values()] and not y.endswith(suffix):
                ren[x] = ('var', y)
            else:
                keep.append(c_)
        if ren:
            body = _rename(body, ren)
            for t in walk_stmts(body):
                if t.k == 'decl' and t.name in ren:
                    t.d['name'] = ren[t.name][1]
                if t.k == 'for' and t.var in ren:
                    t.d['var'] = ren[t.var][1]
            out = body + keep
    return out


def _forward_result(body, use, rv):
    """Tidy the expansion of `target = helper(...)`: when the helper ends in a single `return V`, write `target = V` instead of going through the result
    variable; a tuple result assigned to a tuple target becomes one assignment per component, and a helper local that only carries a component to its
    target is renamed to that target.  The statements mean the same; the rules then see the names of the calling function."""
    if not body or rv is None:
        return body + [use]
    last = body[-1]
    n_ret = sum(1 for t in walk_stmts(body) if t.k == 'assign' and t.target == rv)
    if not (last.k == 'assign' and last.target == rv and n_ret == 1):
        # several returns: when the result goes to a plain variable that the helper body does not mention, let the branches assign that variable directly
        if use.k == 'assign' and use.target[0] == 'var' and use.d.get('aug') is None and use.value == rv:
            mentioned = {x[1] for t in walk_stmts(body) for e in stmt_exprs(t) for x in walk_expr(e) if x[0] == 'var'}
            reads = [1 for t in walk_stmts(body) for k_, e in enumerate(stmt_exprs(t)) for x in walk_expr(e) if x == rv and not (t.k == 'assign' and k_ == 0 and e == rv)]
            if use.target[1] not in mentioned and not reads:
                return _rename(body, {rv[1]: use.target})
        return body + [use]
    body = body[:-1]
    V = last.value
    if use.k != 'assign':
        d = dict(use.d)
        d['value' if use.k != 'decl' else 'init'] = V
        return body + [S(use.k, use.line, **d)]
    tgt = use.target
    if tgt[0] == 'tuple' and V[0] == 'tuple' and len(tgt[1]) == len(V[1]) and all(t[0] == 'var' for t in tgt[1]):
        pairs = list(zip(tgt[1], V[1]))
    elif tgt[0] == 'var':
        pairs = [(tgt, V)]
    else:
        return body + [S('assign', use.line, target=tgt, value=V, aug=None)]
    mentioned = {x[1] for t in walk_stmts(body) for e in stmt_exprs(t) for x in walk_expr(e) if x[0] == 'var'}
    out_tail = []
    ren = {}
    for t, v in pairs:
        local = v[0] == 'var' and '@' in v[1] and sum(1 for u in walk_stmts(body) if u.k == 'assign' and u.target == v) >= 1
        others = [v2 for t2, v2 in pairs if t2 != t]
        if local and t[1] not in mentioned and v not in others and t[1] not in ren.values() and len(pairs) == len({p_[0] for p_ in pairs}):
            ren[v[1]] = t
        else:
            out_tail.append(S('assign', use.line, target=t, value=v, aug=None))
    if len(out_tail) > 1 and len(pairs) > 1:
        # several components still copied: keep the simultaneous tuple assignment (the targets may occur in the values)
        return body + [S('assign', use.line, target=tgt, value=V, aug=None)] if not ren else _rename(body, ren) + [S('assign', use.line, target=('tuple', tuple(t for t, v in pairs if v[0] != 'var' or v[1] not in ren)),
                                                                                                    value=('tuple', tuple(subst_vars(v, ren) for t, v in pairs if v[0] != 'var' or v[1] not in ren)), aug=None)]
    return _rename(body, ren) + [map_stmt(t_, lambda e: subst_vars(e, ren)) for t_ in out_tail]


def _rename(body, ren):
    if not ren:
        return body
    return [map_stmt(t, lambda e: subst_vars(e, ren)) for t in body]


class Expander:
    """resolve(call expr) -> (key, params, defaults, body, self_arg, ptypes) or None"""

    def __init__(self, resolve, lang):
        self.resolve = resolve
        self.lang = lang
        self.n = 0
        self.expanded = []

    def instantiate(self, call, info, want_value, line, stack):
        key, params, defaults, body, self_arg, ptypes = info
        if key in stack:
            raise NotInlinable('recursive')
        self.n += 1
        tag = '%s__%d' % (key.split('.')[-1], self.n)
        env = _bind(params, defaults, call, self_arg)
        written = _assigned(body)
        pre = []
        sub = {}
        for p, a in env.items():
            addr = a[0] == 'un' and a[1] == 'addr' and (a[2][0] == 'var' or (a[2][0] == 'idx' and a[2][1][0] == 'var'))
            if (a[0] in _SIMPLE or addr) and p not in written:
                sub[p] = a
            else:
                nm = '%s@%s' % (p, tag)
                if self.lang == 'c':
                    pre.append(S('decl', line, name=nm, init=a, ctype=(ptypes or {}).get(p, '')))
                else:
                    pre.append(S('assign', line, target=('var', nm), value=a, aug=None))
                sub[p] = ('var', nm)
        for v in written:
            if v not in sub:
                sub[v] = ('var', '%s@%s' % (v, tag))
        retvar = 'ret@%s' % tag if want_value else None
        new, _ = _structure_returns(body, retvar, line)

        def fe(e):
            return subst_vars(e, sub)

        def ren(s):
            t = map_stmt(s, fe)
            return t
        out = []
        for s in new:
            t = ren(s)
            out.append(t)
        # declared / loop names are identifiers, not expressions
        for t in walk_stmts(out):
            if t.k == 'decl' and t.name in sub and sub[t.name][0] == 'var':
                t.d['name'] = sub[t.name][1]
            if t.k == 'for' and t.var in sub and sub[t.var][0] == 'var':
                t.d['var'] = sub[t.var][1]
        out = self.block(_fold_ifs(out), stack + (key,))
        out = _absorb_copies(out, tag)
        self.expanded.append(key)
        return pre + out, (('var', retvar) if retvar else None)

    def block(self, stmts, stack=()):
        out = []
        for s in stmts:
            out.extend(self.stmt(s, stack))
        return out

    def _direct(self, e):
        if isinstance(e, tuple) and e[0] == 'call':
            return self.resolve(e)
        return None

    def stmt(self, s, stack):
        if len(stack) > 3:
            return [s]
        try:
            if s.k == 'expr':
                info = self._direct(s.value)
                if info is not None:
                    body, _ = self.instantiate(s.value, info, False, s.line, stack)
                    return body
            if s.k in ('assign', 'return', 'decl'):
                v = s.value if s.k != 'decl' else s.init
                info = self._direct(v)
                tiny = info is not None and sum(1 for t in walk_stmts(info[3]) if t.k in ('assign', 'decl')) <= 1 and not any(t.k == 'if' for t in walk_stmts(info[3]))
                if info is not None and info[0] not in stack and tiny:
                    ev_ = self._as_expression(v, info)           # a helper that is one expression: substitute it
                    if ev_ is not None:
                        d = dict(s.d)
                        d['value' if s.k != 'decl' else 'init'] = ev_
                        self.expanded.append(info[0])
                        return [S(s.k, s.line, **d)]
                if info is not None:
                    body, rv = self.instantiate(v, info, True, s.line, stack)
                    d = dict(s.d)
                    d['value' if s.k != 'decl' else 'init'] = rv
                    return _forward_result(body, S(s.k, s.line, **d), rv)
        except NotInlinable:
            pass
        # a PURE helper with statements of its own (a loop, an accumulator) called inside a larger expression (`acc = acc + helper(..)`): its statements are
        # hoisted in front of the statement and the call is replaced by its result.  Pure = it assigns plain locals only and calls nothing but library
        # mathematics, so moving its evaluation in front of the other operands of the expression changes nothing.
        try:
            if s.k in ('assign', 'return', 'decl') and len(stack) <= 2:
                v = s.value if s.k != 'decl' else s.init
                if isinstance(v, tuple) and v[0] != 'call':
                    hoisted = []
                    todo = [x for x in walk_expr(v) if x[0] == 'call' and self.resolve(x) is not None]
                    # not under a conditional / short-circuit operand (evaluation would become unconditional)
                    guarded = {y for x in walk_expr(v) if x[0] == 'cond' or (x[0] == 'bin' and x[1] in ('and', 'or')) for y in walk_expr(x) if y[0] == 'call'}
                    for c in todo:
                        info = self.resolve(c)
                        if c in guarded or info[0] in stack or self._as_expression(c, info) is not None or not _pure_helper(info[3]):
                            continue
                        body, rv = self.instantiate(c, info, True, s.line, stack)
                        hoisted.append((c, body, rv))
                    if hoisted:
                        out = []
                        nv = v
                        for c, body, rv in hoisted:
                            out.extend(body)
                            nv = map_expr(nv, lambda x, c=c, rv=rv: rv if x == c else x)
                        d = dict(s.d)
                        d['value' if s.k != 'decl' else 'init'] = nv
                        return out + [S(s.k, s.line, **d)]
        except NotInlinable:
            pass
        # helper calls in expression position: only helpers that reduce to one expression
        d = {}
        changed = False
        for k, v in s.d.items():
            if k in ('body', 'then', 'els', 'orelse', 'final') and isinstance(v, list):
                d[k] = self.block(v, stack)
                changed = True
            elif k in ('init', 'inc') and isinstance(v, list):
                d[k] = v
            elif k == 'handlers':
                d[k] = [(h[0], h[1], self.block(h[2], stack)) for h in v]
                changed = True
            elif k in ('target', 'value', 'cond', 'lo', 'hi', 'step', 'iter', 'init') and isinstance(v, tuple):
                nv = self.expr(v, stack)
                changed = changed or nv is not v
                d[k] = nv
            else:
                d[k] = v
        return [S(s.k, s.line, **d)] if changed else [s]

    def expr(self, e, stack):
        hit = [False]

        def f(x):
            if x[0] == 'call':
                info = self.resolve(x)
                if info is not None and info[0] not in stack:
                    v = self._as_expression(x, info)
                    if v is not None:
                        hit[0] = True
                        self.expanded.append(info[0])
                        return v
            return x
        r = map_expr(e, f)
        return r if hit[0] else e

    def _as_expression(self, call, info):
        """The helper's result as one expression (straight-line assignments and if/else returns only), or None."""
        from .symexec import Exec, Env
        key, params, defaults, body, self_arg, ptypes = info
        try:
            env0 = _bind(params, defaults, call, self_arg)
        except NotInlinable:
            return None
        if any(s.k not in ('assign', 'decl', 'if', 'return', 'assert') for s in walk_stmts(body)):
            return None
        ex = Exec()
        r = ex.run(body, Env(env0))
        if r is not None:
            return None           # a path falls off the end
        if any(ev[0] not in ('return',) for ev in ex.events):
            return None
        rets = [(p, v) for p, v, s in ex.returns]
        if not rets or any(v is None for _, v in rets):
            return None
        # paths are prefixes of a decision tree in execution order: fold from the last
        return _bool_tree(_tree(rets))


_MATH = {'sqrt', 'pow', 'fabs', 'abs', 'exp', 'log', 'min', 'max', 'fmin', 'fmax', 'floor', 'ceil', 'len', 'float', 'int', 'math.sqrt', 'math.pow', 'math.exp', 'math.log',
         'np.sqrt', 'np.abs', 'np.exp', 'np.log'}


def _pure_helper(body):
    """assigns plain local variables only (no stores through subscripts, fields or pointers), calls library mathematics only"""
    for t in walk_stmts(body):
        if t.k == 'assign' and t.target[0] != 'var':
            return False
        if t.k not in ('assign', 'decl', 'if', 'for', 'return', 'assert', 'pass'):
            return False
        for e in stmt_exprs(t):
            for x in walk_expr(e):
                if x[0] == 'call' and (dotted(x[1]) or '') not in _MATH:
                    return False
    return True


def _bool_tree(e):
    """cond(c, True, X) = c or X ; cond(c, False, X) = not c and X ; cond(c, X, True) = not c or X ; cond(c, X, False) = c and X"""
    if e is None or e[0] != 'cond':
        return e
    from .ir import canon_cond
    c, a, b = e[1], _bool_tree(e[2]), _bool_tree(e[3])
    T, F = ('bool', True), ('bool', False)
    neg = canon_cond(('un', 'not', c))
    if a == T and b == F:
        return c
    if a == F and b == T:
        return neg
    if a == T:
        return ('bin', 'or', c, b)
    if a == F:
        return ('bin', 'and', neg, b)
    if b == T:
        return ('bin', 'or', neg, a)
    if b == F:
        return ('bin', 'and', c, a)
    return ('cond', c, a, b)


def _tree(rets):
    """[(path, value)] of an exhaustive decision list -> nested conditional expression."""
    def build(items, depth):
        if len(items) == 1:
            return items[0][1]
        c = None
        for p, v in items:
            if len(p) > depth:
                c = p[depth]
                break
        if c is None:
            return items[0][1]
        from .ir import canon_cond
        neg = (('un', 'not', c), canon_cond(('un', 'not', c)))
        yes = [(p, v) for p, v in items if len(p) > depth and p[depth] == c]
        no = [(p, v) for p, v in items if len(p) > depth and p[depth] in neg]
        if len(yes) + len(no) != len(items) or not yes or not no:
            raise NotInlinable('paths')
        return ('cond', c, build(yes, depth + 1), build(no, depth + 1))
    try:
        return build(rets, 0)
    except NotInlinable:
        return None
