"""Canonical operand order for commutative integer/float arithmetic in the mini-IR.

`j + n*i`, `i*n + j` and `n*i + j` are one expression for every rule of this checker (the IR is analysed, never evaluated): chains of `+`/`-` are
flattened into signed terms and chains of `*` into factors, the operands are sorted by a key that does not depend on how the source spelled them
(non-constants before constants, then by their rendering), and the chain is rebuilt left-associatively with the subtracted terms last.  A
behaviour-preserving swap of operands therefore yields the same IR; a rule never has to enumerate operand orders.  String / list concatenation is
left alone (a string literal or a list display among the operands keeps the chain as written).
"""
from .ir import S
from .inline import map_expr, map_stmt


def _key(e):
    return (1 if e[0] == 'num' else 0, repr(e))


def _terms(e, sign, out):
    if e[0] == 'bin' and e[1] == '+':
        _terms(e[2], sign, out)
        _terms(e[3], sign, out)
    elif e[0] == 'bin' and e[1] == '-':
        _terms(e[2], sign, out)
        _terms(e[3], -sign, out)
    else:
        out.append((sign, e))


def _factors(e, out):
    if e[0] == 'bin' and e[1] == '*':
        _factors(e[2], out)
        _factors(e[3], out)
    else:
        out.append(e)


def _textual(e):
    return e[0] in ('str', 'list', 'tuple', 'dict', 'set', 'comp')


def canon_expr(e):
    def f(x):
        if x[0] != 'bin':
            return x
        if x[1] in ('+', '-'):
            ts = []
            _terms(x, 1, ts)
            if any(_textual(t) for _s, t in ts):
                return x
            pos = sorted([t for s_, t in ts if s_ > 0], key=_key)
            neg = sorted([t for s_, t in ts if s_ < 0], key=_key)
            if not pos:
                return x            # -a - b : keep as written
            r = pos[0]
            for t in pos[1:]:
                r = ('bin', '+', r, t)
            for t in neg:
                r = ('bin', '-', r, t)
            return r
        if x[1] in ('==', '!='):
            a, b = sorted([x[2], x[3]], key=lambda e: (1 if e[0] in ('num', 'str', 'none', 'bool') else 0, repr(e)))          # `0 == n` is `n == 0`
            return ('bin', x[1], a, b)
        if x[1] == '*':
            fs = []
            _factors(x, fs)
            if any(_textual(t) for t in fs):
                return x
            fs.sort(key=_key)
            r = fs[0]
            for t in fs[1:]:
                r = ('bin', '*', r, t)
            return r
        return x
    return map_expr(e, f)


def canon_body(stmts):
    out = [map_stmt(s, canon_expr) for s in stmts]
    # `t = t op e` is the augmented assignment `t op= e`, however it is spelled
    from .ir import walk_stmts, aug_rhs
    for s in walk_stmts(out):
        if s.k == 'assign' and s.value[0] == 'bin' and s.value[1] in ('+', '-', '*', '/') and aug_rhs(s) is not None:
            s.d['aug'] = s.value[1]
    return out


def same(a, b):
    """Equality of two expressions up to the order of commutative operands."""
    return canon_expr(a) == canon_expr(b)


def addends(e):
    """The positive terms of a +/- chain (list of expressions) and the subtracted ones."""
    ts = []
    _terms(e, 1, ts)
    return [t for s_, t in ts if s_ > 0], [t for s_, t in ts if s_ < 0]


def split_cond_assigns(stmts):
    """`t = c ? a : b` is `if c: t = a else: t = b`, and `return c ? a : b` is `if c: return a else: return b` -- one shape for both spellings
    (nested conditional expressions become nested ifs).  Applied through all nested blocks."""
    from .ir import mk_if
    out = []
    for s in stmts:
        d = dict(s.d)
        for attr in ('then', 'els', 'body', 'orelse', 'final'):
            if isinstance(d.get(attr), list):
                d[attr] = split_cond_assigns(d[attr])
        if 'handlers' in d:
            d['handlers'] = [(h[0], h[1], split_cond_assigns(h[2])) for h in d['handlers']]
        s = S(s.k, s.line, **d)
        v = s.value if s.k in ('assign', 'return') else None
        if v is not None and v[0] == 'cond' and (s.k == 'return' or (s.d.get('aug') is None and s.target[0] in ('var', 'idx', 'attr'))):
            def arm(val):
                d2 = dict(s.d)
                d2['value'] = val
                return split_cond_assigns([S(s.k, s.line, **d2)])
            out.append(mk_if(s.line, v[1], arm(v[2]), arm(v[3])))
        else:
            out.append(s)
    return out



def poly_norm(e):
    """Polynomial normal form of an integer index expression: products distributed over sums, like monomials combined (`rb*n + n*(r - rb)` is `n*r`),
    rebuilt in the canonical operand order.  Anything that is not +, -, * or a number is an opaque atom."""
    def mul(p, q):
        out = {}
        for ma, ca in p.items():
            for mb, cb in q.items():
                m = tuple(sorted(ma + mb, key=repr))
                out[m] = out.get(m, 0) + ca * cb
        return out

    def go(x):
        if x[0] == 'num' and isinstance(x[1], int) and not isinstance(x[1], bool):
            return {(): x[1]}
        if x[0] == 'bin' and x[1] in ('+', '-'):
            a, b = go(x[2]), go(x[3])
            out = dict(a)
            for m, c in b.items():
                out[m] = out.get(m, 0) + (c if x[1] == '+' else -c)
            return out
        if x[0] == 'bin' and x[1] == '*':
            return mul(go(x[2]), go(x[3]))
        if x[0] == 'un' and x[1] == 'neg':
            return {m: -c for m, c in go(x[2]).items()}
        return {(x,): 1}
    poly = {m: c for m, c in go(e).items() if c != 0}
    if not poly:
        return ('num', 0)
    pos, neg = [], []
    for m, c in sorted(poly.items(), key=lambda kv: (len(kv[0]) == 0, repr(kv[0]))):
        t = None
        for a in m:
            t = a if t is None else ('bin', '*', t, a)
        k = abs(c)
        if t is None:
            t = ('num', k)
        elif k != 1:
            t = ('bin', '*', t, ('num', k))
        (pos if c > 0 else neg).append(t)
    if not pos:
        r = ('un', 'neg', neg[0])
        neg = neg[1:]
    else:
        r = pos[0]
        for t in pos[1:]:
            r = ('bin', '+', r, t)
    for t in neg:
        r = ('bin', '-', r, t)
    return canon_expr(r)
