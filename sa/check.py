"""CLI: /venv/bin/python -m sa.check <property id> [--tier quick|thorough] [--replay file]"""
import argparse
import os
import sys


def main(argv=None):
    ap = argparse.ArgumentParser()
    ap.add_argument('prop')
    ap.add_argument('--tier', default=os.environ.get('VERIF_TIER') or 'quick', choices=['quick', 'thorough'])
    ap.add_argument('--replay', default=None)
    a = ap.parse_args(argv)
    from . import props
    from .common import run
    if a.prop not in props.PROPS:
        print('ANALYSIS-ERROR unknown property %s' % a.prop)
        return 2
    fn, explanation = props.PROPS[a.prop]
    return run(a.prop, a.tier, fn, explanation, replay=a.replay)


if __name__ == '__main__':
    sys.exit(main())
