"""Symbolic execution helpers over the mini-IR (straight-line propagation with if-merging)."""
from .ir import S, walk_stmts, walk_expr, stmt_exprs, fmt, canon_cond


def subst_expr(e, env):
    """Replace variables by their symbolic values (deep)."""
    if e is None or not isinstance(e, tuple):
        return e
    k = e[0]
    if k == 'var':
        if e[1] in ARRAYS:
            v = env.get(e[1])
            if v is not None and v[0] == 'call' and len(v[2]) == 1 and not v[3] and _innermost_var(v[2][0]) == e[1]:
                return v
            return e
        return env.get(e[1], e)
    if k in ('num', 'str', 'none', 'bool', 'other'):
        return e
    if k == 'call':
        return ('call', subst_expr(e[1], env), tuple(subst_expr(a, env) for a in e[2]),
                tuple((kw, subst_expr(v, env)) for kw, v in e[3]))
    if k in ('tuple', 'list', 'set', 'min', 'max'):
        return (k, tuple(subst_expr(a, env) for a in e[1]))
    if k == 'dict':
        return ('dict', tuple((subst_expr(a, env) if a is not None else None, subst_expr(b, env)) for a, b in e[1]))
    if k == 'attr':
        if e[1][0] == 'var' and e[1][1] in STRUCTS:
            key = e[1][1] + '.' + e[2]
            if key in env:
                return env[key]
            return e
        return ('attr', subst_expr(e[1], env), e[2])
    if k == 'idx':
        # never replace the array being subscripted by its allocation expression
        base = e[1] if e[1][0] == 'var' else subst_expr(e[1], env)
        if e[1][0] == 'var':
            v = env.get(e[1][1])
            # `A = f(A)` (whole-array conversion such as result_fn(dtw)) stays visible on later element reads
            if v is not None and v[0] == 'call' and len(v[2]) == 1 and _innermost_var(v[2][0]) == e[1][1] and not v[3]:
                base = v
        return ('idx', base, subst_expr(e[2], env))
    if k in ('lambda', 'comp'):
        return e
    if k == 'un' and e[1] == 'neg':
        a = subst_expr(e[2], env)
        if a[0] == 'num':
            return ('num', -a[1])
        return ('un', 'neg', a)
    return (k,) + tuple(subst_expr(a, env) if isinstance(a, tuple) else a for a in e[1:])


STRUCTS = set()     # names of struct-valued locals: `p.f = v` updates env['p.f'], reads of p.f see it
ARRAYS = set()      # names of array-valued locals of the function under analysis: never replaced by their allocation


def subscripted_names(stmts):
    out = set()
    for s in walk_stmts(stmts):
        for e in stmt_exprs(s):
            for x in walk_expr(e):
                if x[0] == 'idx' and x[1][0] == 'var':
                    out.add(x[1][1])
    return out


def _innermost_var(e):
    while e[0] == 'call' and len(e[2]) == 1:
        e = e[2][0]
    return e[1] if e[0] == 'var' else None


def assigned_vars(stmts):
    """Scalar variable names assigned anywhere inside stmts (loop variables included)."""
    out = set()
    for s in walk_stmts(stmts):
        if s.k == 'assign':
            t = s.target
            if t[0] == 'var':
                out.add(t[1])
            elif t[0] == 'tuple':
                for x in t[1]:
                    if x[0] == 'var':
                        out.add(x[1])
        elif s.k == 'decl':
            out.add(s.name)
        elif s.k == 'for':
            out.add(s.var)
        elif s.k == 'foreach':
            for x in walk_expr(s.target):
                if x[0] == 'var':
                    out.add(x[1])
    return out


def written_arrays(stmts):
    out = set()
    for s in walk_stmts(stmts):
        if s.k == 'assign' and s.target[0] == 'idx':
            b = s.target[1]
            while b[0] == 'idx':
                b = b[1]
            if b[0] == 'var':
                out.add(b[1])
    return out


class Env(dict):
    def copy(self):
        return Env(self)


class Exec:
    """Symbolic executor with if-merging.

    events: list of tuples, in execution order:
      ('store', path, target expr (substituted), value expr (substituted), stmt)
      ('return', path, value, stmt) / ('raise', path, value, stmt) / ('break', path, stmt) / ('continue', path, stmt)
      ('expr', path, expr, stmt)            expression statements (calls)
      ('loop', path, stmt, env snapshot)    loops (not entered unless on_loop handles them)
    A path is a tuple of condition expressions (substituted) that hold at the event."""

    def __init__(self, on_loop=None, havoc_tag='?'):
        self.on_loop = on_loop
        self.tag = havoc_tag
        self.events = []
        self.path = []

    @property
    def returns(self):
        return [(e[1], e[2], e[3]) for e in self.events if e[0] in ('return', 'raise')]

    def run(self, stmts, env):
        """Execute; returns env, or None when every path through stmts left (return/raise/break/continue)."""
        n0 = len(self.path)
        try:
            return self._run(stmts, env)
        finally:
            del self.path[n0:]

    def _run(self, stmts, env):
        for idx, s in enumerate(stmts):
            k = s.k
            if k == 'assign' and s.target[0] == 'var':
                env[s.target[1]] = subst_expr(s.value, env)
            elif k == 'assign' and s.target[0] == 'tuple' and s.value[0] == 'tuple' and len(s.value[1]) == len(s.target[1]) \
                    and all(t[0] == 'var' for t in s.target[1]):
                vals = [subst_expr(v, env) for v in s.value[1]]
                for t, v in zip(s.target[1], vals):
                    env[t[1]] = v
            elif k == 'assign' and s.target[0] == 'tuple' and all(t[0] == 'var' for t in s.target[1]):
                v = subst_expr(s.value, env)
                for i, t in enumerate(s.target[1]):
                    env[t[1]] = ('idx', v, ('num', i))
            elif k == 'assign' and s.target[0] == 'attr' and s.target[1][0] == 'var' and s.target[1][1] in STRUCTS:
                env[s.target[1][1] + '.' + s.target[2]] = subst_expr(s.value, env)
            elif k == 'assign':
                self.events.append(('store', tuple(self.path), norm_minmax(subst_expr(s.target, env)), norm_minmax(subst_expr(s.value, env)), s))
            elif k == 'decl':
                if s.init is not None:
                    env[s.name] = subst_expr(s.init, env)
                else:
                    env.pop(s.name, None)
            elif k == 'return':
                self.events.append(('return', tuple(self.path), subst_expr(s.value, env) if s.value is not None else None, s))
                return None
            elif k == 'raise':
                self.events.append(('raise', tuple(self.path), subst_expr(s.value, env) if s.value is not None else None, s))
                return None
            elif k in ('break', 'continue'):
                self.events.append((k, tuple(self.path), s))
                return None
            elif k == 'expr':
                self.events.append(('expr', tuple(self.path), subst_expr(s.value, env), s))
            elif k == 'if':
                c = fold_bool(norm_minmax(subst_expr(s.cond, env)))
                if c[0] == 'bool':
                    r = self.run(s.then if c[1] else s.els, env)
                    if r is None:
                        return None
                    continue
                e1 = env.copy()
                e2 = env.copy()
                self.path.append(c)
                r1 = self.run(s.then, e1)
                self.path.pop()
                self.path.append(canon_cond(('un', 'not', c)))
                r2 = self.run(s.els, e2)
                self.path.pop()
                if r1 is None and r2 is None:
                    return None
                if r1 is None:
                    env.clear()
                    env.update(e2)
                    self.path.append(canon_cond(('un', 'not', c)))   # the rest of this block executes under not c
                    continue
                if r2 is None:
                    env.clear()
                    env.update(e1)
                    self.path.append(c)
                    continue
                for v in set(e1) | set(e2):
                    a, b = e1.get(v), e2.get(v)
                    if a == b:
                        if a is not None:
                            env[v] = a
                        continue
                    if a is None:
                        a = ('var', v)
                    if b is None:
                        b = ('var', v)
                    env[v] = ('cond', c, a, b)
            elif k in ('assert', 'global', 'nonlocal', 'import', 'def', 'class', 'delete'):
                continue
            elif k in ('for', 'foreach', 'while', 'loop', 'omp'):
                self.events.append(('loop', tuple(self.path), s, env.copy()))
                r = self.on_loop(s, env, self) if self.on_loop is not None else None
                if r == 'handled':
                    continue
                for v in assigned_vars([s]):
                    env[v] = ('var', '%s@%s' % (v, self.tag))
            elif k in ('with',):
                r = self.run(s.body, env)
                if r is None:
                    return None
            elif k == 'try':
                r = self.run(s.body, env)
                for v in assigned_vars([s]):
                    env[v] = ('var', '%s@%s' % (v, self.tag))
            else:
                for v in assigned_vars([s]):
                    env[v] = ('var', '%s@%s' % (v, self.tag))
        return env


def find_loops(stmts, pred, path=()):
    """Yield (loop stmt, path of enclosing statements) for every loop satisfying pred."""
    for s in stmts:
        if s.k in ('for', 'foreach', 'while', 'loop') and pred(s):
            yield s, path
        from .ir import sub_blocks
        for b in sub_blocks(s):
            yield from find_loops(b, pred, path + (s,))


def contains_store_to(stmts, arr):
    for s in walk_stmts(stmts):
        if s.k == 'assign' and s.target[0] == 'idx':
            b = s.target[1]
            while b[0] == 'idx':
                b = b[1]
            if b == ('var', arr):
                return True
    return False


def reads_of(e, arr):
    """All ('idx', ('var', arr), index) sub-expressions."""
    return [x for x in walk_expr(e) if x[0] == 'idx' and x[1] == ('var', arr)]


NONNULL = set()     # atoms known not to be None (set by the caller for a specialised run)


def fold_bool(c):
    """Constant-fold a condition where possible -> ('bool', b) or the condition."""
    if c[0] == 'un' and c[1] == 'not':
        x = fold_bool(c[2])
        if x[0] == 'bool':
            return ('bool', not x[1])
        if x[0] == 'num':
            return ('bool', not x[1])
        if x[0] == 'none':
            return ('bool', True)
        return ('un', 'not', x)
    if c[0] == 'bin' and c[1] in ('is', 'isnot') and c[3] == ('none',):
        l = c[2]
        if l == ('none',):
            return ('bool', c[1] == 'is')
        if l[0] in ('num', 'str', 'bool', 'tuple', 'list') or (l[0] == 'var' and l[1] in NONNULL):
            return ('bool', c[1] != 'is')
    if c[0] == 'bin' and c[1] in ('and', 'or'):
        a, b = fold_bool(c[2]), fold_bool(c[3])
        ta = _truth(a)
        tb = _truth(b)
        if c[1] == 'and':
            if ta is False or tb is False:
                return ('bool', False)
            if ta is True:
                return b
            if tb is True:
                return a
        else:
            if ta is True or tb is True:
                return ('bool', True)
            if ta is False:
                return b
            if tb is False:
                return a
        return ('bin', c[1], a, b)
    if c[0] == 'num':
        return ('bool', bool(c[1]))
    if c[0] == 'none':
        return ('bool', False)
    return c


def _truth(c):
    if c[0] == 'bool':
        return c[1]
    return None


def norm_minmax(e):
    """Rewrite running-min / running-max conditionals on floats: cond(a < b, a, b) -> min(a, b) etc. (structural);
    conditionals with a constant condition are folded."""
    if not isinstance(e, tuple):
        return e
    k = e[0]
    if k == 'cond':
        c, a, b = fold_bool(norm_minmax(e[1])), norm_minmax(e[2]), norm_minmax(e[3])
        if c[0] == 'bool':
            return a if c[1] else b
        while c[0] == 'un' and c[1] == 'not':
            c, a, b = c[2], b, a          # (not c) ? a : b  ==  c ? b : a
        if c[0] == 'bin' and c[1] in ('<', '<=', '>', '>='):
            x, y = c[2], c[3]
            if c[1] in ('<', '<='):
                if (x, y) == (a, b):
                    return _mk('min', a, b)
                if (x, y) == (b, a):
                    return _mk('max', a, b)
            else:
                if (x, y) == (a, b):
                    return _mk('max', a, b)
                if (x, y) == (b, a):
                    return _mk('min', a, b)
        return ('cond', c, a, b)
    if k == 'call':
        from .ir import dotted
        d = dotted(e[1])
        args = tuple(norm_minmax(a) for a in e[2])
        if d in ('min', 'max', 'fmin', 'fmax') and len(args) >= 2 and not e[3]:
            r = args[0]
            for a in args[1:]:
                r = _mk('min' if d in ('min', 'fmin') else 'max', r, a)
            return r
        return ('call', e[1], args, tuple((kw, norm_minmax(v)) for kw, v in e[3]))
    if k in ('num', 'var', 'str', 'none', 'bool', 'other', 'lambda', 'comp'):
        return e
    if k in ('tuple', 'list', 'set', 'min', 'max'):
        return (k, tuple(norm_minmax(a) for a in e[1]))
    if k == 'dict':
        return e
    return (k,) + tuple(norm_minmax(a) if isinstance(a, tuple) else a for a in e[1:])


def _mk(kind, a, b):
    args = []
    for x in (a, b):
        if x[0] == kind:
            args.extend(x[1])
        else:
            args.append(x)
    ded = []
    for x in args:
        if x not in ded:
            ded.append(x)
    return (kind, tuple(sorted(ded, key=repr)))


def peval_fields(e, zero):
    """Partially evaluate IR expression e with the settings fields in `zero` ((object name, field) -> number) fixed."""
    if not isinstance(e, tuple):
        return e
    k = e[0]
    if k == 'attr' and e[1][0] == 'var' and (e[1][1], e[2]) in zero:
        return ('num', zero[(e[1][1], e[2])])
    if k == 'cond':
        c = fold_bool(peval_fields(e[1], zero))
        if c[0] == 'bool':
            return peval_fields(e[2] if c[1] else e[3], zero)
        return ('cond', c, peval_fields(e[2], zero), peval_fields(e[3], zero))
    if k == 'bin':
        a, b = peval_fields(e[2], zero), peval_fields(e[3], zero)
        if a[0] in ('num', 'bool') and b[0] in ('num', 'bool') and e[1] in ('==', '!=', '<', '<=', '>', '>='):
            import operator
            return ('bool', {'==': operator.eq, '!=': operator.ne, '<': operator.lt, '<=': operator.le, '>': operator.gt, '>=': operator.ge}[e[1]](a[1], b[1]))
        return fold_bool(('bin', e[1], a, b)) if e[1] in ('and', 'or') else ('bin', e[1], a, b)
    if k == 'un':
        x = peval_fields(e[2], zero)
        return fold_bool(('un', e[1], x)) if e[1] == 'not' else ('un', e[1], x)
    if k in ('num', 'var', 'str', 'none', 'bool', 'other', 'lambda', 'comp', 'dict'):
        return e
    if k == 'call':
        return ('call', peval_fields(e[1], zero), tuple(peval_fields(a, zero) for a in e[2]), tuple((kw, peval_fields(v, zero)) for kw, v in e[3]))
    if k in ('tuple', 'list', 'set', 'min', 'max'):
        return (k, tuple(peval_fields(a, zero) for a in e[1]))
    return (k,) + tuple(peval_fields(a, zero) if isinstance(a, tuple) else a for a in e[1:])


def deep_events(stmts, env=None, loops=()):
    """Symbolic pass that also descends into loops: every loop body is executed once with its loop variable symbolic (named after itself) and the
    variables it assigns unknown at entry (`v@in`).  Returns [(event, loops)] where event is an Exec event and loops the tuple of enclosing loop
    statements (innermost last), in execution order."""
    out = []

    def on_loop(lp, e, ex):
        e2 = e.copy()
        for v in assigned_vars(lp.body):
            e2[v] = ('var', v + '@in')
        if lp.k == 'for':
            e2[lp.var] = ('var', lp.var)
        elif lp.k == 'foreach':
            for x in walk_expr(lp.target):
                if x[0] == 'var':
                    e2[x[1]] = x
            it = subst_expr(lp.iter, e)
            # `for i, v in enumerate(X)`: v is X[i] (as the iteration starts)
            if it[0] == 'call' and it[1] == ('var', 'enumerate') and len(it[2]) == 1 and lp.target[0] == 'tuple' and len(lp.target[1]) == 2 \
                    and lp.target[1][0][0] == 'var' and lp.target[1][1][0] == 'var':
                e2[lp.target[1][1][1]] = ('idx', it[2][0], lp.target[1][0])
        body = lp.body
        sub_ = deep_events(body, e2, loops + (lp,))
        pre = tuple(ex.path)
        for ev, lps in sub_:
            out.append(((ev[0], pre + tuple(ev[1])) + tuple(ev[2:]), lps))
        return None
    ex = Exec(on_loop=on_loop)
    n0 = 0

    class _Tap(list):
        def append(self, item):        # keep execution order between own events and those of nested loops
            list.append(self, item)
            if item[0] != 'loop':
                out.append((item, loops))
    ex.events = _Tap()
    ex.run(stmts, (env or Env()).copy())
    return out
