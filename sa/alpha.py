"""Recovery of the baseline's local-variable names (alpha-renaming back).

The rules of this checker anchor some of their facts in the names the pinned tree gives to locals (`ec_next`, `min_value`, `wpsi`, ...).  A later
change may rename locals without changing behaviour.  Before the rules look at a function, its statements are aligned with the statements of the
same function in the baseline IR (sa/baseline_ir.pkl.gz, written by tools_baseline_funcs.py from the pinned tree): statements whose shape is equal
once every local variable is blanked are paired (longest common subsequence, recursively through nested blocks), the variables at corresponding
positions vote for a correspondence, and the winning one-to-one correspondences are applied as a consistent renaming of the *current* function.
A renaming of locals never changes what a function computes, so the rules decide the same program; the baseline only supplies spellings.  Statements
that were really changed do not align and do not vote; locals that cannot be matched keep their names.
"""
import gzip
import os
import pickle
from difflib import SequenceMatcher
from .ir import S, walk_stmts, walk_expr, stmt_exprs, sub_blocks
from .inline import map_expr, map_stmt, subst_vars
from .symexec import assigned_vars

_BASE = None
BLANK = ('var', '§')


def baseline_ir():
    global _BASE
    if _BASE is None:
        p = os.path.join(os.path.dirname(os.path.abspath(__file__)), 'baseline_ir.pkl.gz')
        if os.path.exists(p):
            with gzip.open(p, 'rb') as f:
                _BASE = pickle.load(f)
        else:
            _BASE = {}
    return _BASE


def local_names(body, params):
    out = set(assigned_vars(body))
    for s in walk_stmts(body):
        if s.k == 'decl':
            out.add(s.name)
        if s.k == 'with':
            for ce, tv in s.items:
                if tv is not None and tv[0] == 'var':
                    out.add(tv[1])
    return {v for v in out if v not in params}


def _blank(e, loc):
    return map_expr(e, lambda x: BLANK if x and x[0] == 'var' and x[1] in loc else x)


def _ckey(e, loc):
    return (1 if e[0] == 'num' else 0, repr(_blank(e, loc)))


def _flatten(e, loc):
    """('sum', [(sign, term)]) / ('prod', [factor]) with operands sorted by their blanked rendering; None for other nodes"""
    if e[0] == 'bin' and e[1] in ('+', '-'):
        ts = []

        def t(x, sg):
            if x[0] == 'bin' and x[1] == '+':
                t(x[2], sg)
                t(x[3], sg)
            elif x[0] == 'bin' and x[1] == '-':
                t(x[2], sg)
                t(x[3], -sg)
            else:
                ts.append((sg, x))
        t(e, 1)
        ts.sort(key=lambda st: (-st[0], _ckey(st[1], loc)))
        return 'sum', ts
    if e[0] == 'bin' and e[1] == '*':
        fs = []

        def f(x):
            if x[0] == 'bin' and x[1] == '*':
                f(x[2])
                f(x[3])
            else:
                fs.append(x)
        f(e)
        fs.sort(key=lambda x: _ckey(x, loc))
        return 'prod', [(1, x) for x in fs]
    return None


def shape_expr(e, loc):
    """name-independent rendering: locals blanked, commutative chains sorted"""
    if not isinstance(e, tuple):
        return repr(e)
    if not e:
        return '()'
    if isinstance(e[0], tuple) or e[0] is None:
        # a tuple of sub-expressions / (keyword, value) pairs
        return '<%s>' % ' '.join(shape_expr(x, loc) if isinstance(x, tuple) else repr(x) for x in e)
    fl = _flatten(e, loc)
    if fl is not None:
        return '%s[%s]' % (fl[0], ','.join('%+d%s' % (sg, shape_expr(x, loc)) for sg, x in fl[1]))
    if e[0] == 'var':
        return '§' if e[1] in loc else 'v:' + e[1]
    if e[0] in ('num', 'str', 'none', 'bool', 'other'):
        return repr(e)
    return '(%s)' % ' '.join(shape_expr(x, loc) if isinstance(x, tuple) else repr(x) for x in e)


def shape_stmt(s, loc):
    hdr = [s.k]
    if s.k == 'decl':
        hdr.append('§' if s.name in loc else s.name)
        hdr.append(s.d.get('ctype', ''))
    if s.k == 'for':
        hdr.append('§' if s.var in loc else s.var)
        hdr.append(str(s.d.get('inclusive')))
    for e in stmt_exprs(s):
        hdr.append(shape_expr(e, loc))
    if s.k == 'assign':
        hdr.append(str(s.d.get('aug')))
    return '|'.join(hdr)


def _vote_expr(a, b, la, lb, votes):
    if not isinstance(a, tuple) or not isinstance(b, tuple):
        return
    fa, fb = _flatten(a, la), _flatten(b, lb)
    if fa is not None or fb is not None:
        if fa is None or fb is None or fa[0] != fb[0] or len(fa[1]) != len(fb[1]):
            return
        ka = [(sg, _ckey(x, la)) for sg, x in fa[1]]
        kb = [(sg, _ckey(x, lb)) for sg, x in fb[1]]
        if ka != kb:
            return
        for i, ((sg, x), (_sg2, y)) in enumerate(zip(fa[1], fb[1])):
            if ka.count(ka[i]) == 1:            # an operand whose blanked form is unique in the chain: unambiguous position
                _vote_expr(x, y, la, lb, votes)
        return
    if a[0] != b[0] or len(a) != len(b):
        return
    k = a[0]
    if k == 'var':
        if a[1] in la and b[1] in lb:
            votes[(a[1], b[1])] = votes.get((a[1], b[1]), 0) + 1
        return
    if k in ('num', 'str', 'none', 'bool', 'other'):
        return
    if k == 'call':
        _vote_expr(a[1], b[1], la, lb, votes)
        if len(a[2]) == len(b[2]):
            for x, y in zip(a[2], b[2]):
                _vote_expr(x, y, la, lb, votes)
        if len(a[3]) == len(b[3]):
            for (ka_, x), (kb_, y) in zip(a[3], b[3]):
                if ka_ == kb_:
                    _vote_expr(x, y, la, lb, votes)
        return
    if k in ('tuple', 'list', 'set', 'min', 'max'):
        if len(a[1]) == len(b[1]):
            for x, y in zip(a[1], b[1]):
                _vote_expr(x, y, la, lb, votes)
        return
    if k == 'dict':
        if len(a[1]) == len(b[1]):
            for (x1, x2), (y1, y2) in zip(a[1], b[1]):
                if x1 is not None and y1 is not None:
                    _vote_expr(x1, y1, la, lb, votes)
                _vote_expr(x2, y2, la, lb, votes)
        return
    if k in ('lambda', 'comp'):
        return
    for x, y in zip(a[1:], b[1:]):
        if isinstance(x, tuple) and isinstance(y, tuple):
            _vote_expr(x, y, la, lb, votes)


def _vote_stmt(s, t, la, lb, votes):
    if s.k == 'decl' and s.name in la and t.name in lb:
        # a declaration (with a constant initialiser or none) says little about the role of the variable: it only breaks ties
        w = 0.25 if (s.init is None or s.init[0] in ('num', 'none', 'bool', 'str')) else 1
        votes[(s.name, t.name)] = votes.get((s.name, t.name), 0) + w
        if w < 1:
            return
    if s.k == 'for' and s.var in la and t.var in lb:
        votes[(s.var, t.var)] = votes.get((s.var, t.var), 0) + 1
    for x, y in zip(stmt_exprs(s), stmt_exprs(t)):
        _vote_expr(x, y, la, lb, votes)


def _pairs(A, B, la, lb):
    """[(statement of A, statement of B, headers equal?)]: equal shapes first (longest common subsequence); inside the stretches that differ, compound
    statements of the same kind are paired in order of appearance so that their blocks can still be compared (a loop whose bound is now a local, an `if`
    whose test was rewritten)."""
    sa = [shape_stmt(s, la) for s in A]
    sb = [shape_stmt(s, lb) for s in B]
    out = []
    for tag, i1, i2, j1, j2 in SequenceMatcher(None, sa, sb, autojunk=False).get_opcodes():
        if tag == 'equal':
            for k in range(i2 - i1):
                out.append((A[i1 + k], B[j1 + k], True))
        elif tag == 'replace':
            ca = [s for s in A[i1:i2] if sub_blocks(s)]
            cb = [s for s in B[j1:j2] if sub_blocks(s)]
            for kind in ('for', 'foreach', 'while', 'loop', 'if', 'with', 'try', 'omp'):
                xa = [s for s in ca if s.k == kind]
                xb = [s for s in cb if s.k == kind]
                if xa and len(xa) == len(xb):
                    out.extend((s, t, False) for s, t in zip(xa, xb))
    return out


def _align(A, B, la, lb, votes):
    for s, t, same in _pairs(A, B, la, lb):
        if same:
            _vote_stmt(s, t, la, lb, votes)
        elif s.k == 'for' and s.var in la and t.var in lb:
            votes[(s.var, t.var)] = votes.get((s.var, t.var), 0) + 1
        for ba, bb in zip(sub_blocks(s), sub_blocks(t)):
            _align(ba, bb, la, lb, votes)


def correspondence(cur_body, base_body, cur_params, base_params):
    la, lb = local_names(cur_body, cur_params), local_names(base_body, base_params)
    votes = {}
    _align(cur_body, base_body, la, lb, votes)
    # one-to-one, best votes first; a pair is taken only when it beats every competitor of both its members
    ranked = sorted(votes.items(), key=lambda kv: (-kv[1], kv[0]))
    best_a, best_b = {}, {}
    for (a, b), n in ranked:
        best_a.setdefault(a, []).append((n, b))
        best_b.setdefault(b, []).append((n, a))
    mapping = {}
    for (a, b), n in ranked:
        if a in mapping or b in mapping.values():
            continue
        rivals = [m for m, b2 in best_a[a] if b2 != b] + [m for m, a2 in best_b[b] if a2 != a]
        if rivals and max(rivals) >= n:
            continue
        if a != b and n < 1:
            continue                 # a renaming needs at least one use in corresponding positions
        mapping[a] = b
    return mapping, la


_PREP = {}


def _base(key, qual):
    """(params, body) of the baseline function, in the same pre-normal form as the current bodies (conditional assignments as ifs)"""
    k = (key, qual)
    if k not in _PREP:
        b = baseline_ir().get(key, {}).get(qual)
        if b is not None:
            from .canon import split_cond_assigns
            b = (b[0], split_cond_assigns(b[1]))
        _PREP[k] = b
    return _PREP[k]


def surviving_new_locals(key, qual, params, body):
    """Locals of the current function that the baseline function does not have and that the normal form could not remove (names recovered, pure locals
    absorbed, inductions closed): the mark of a restructuring the shape-bound recognisers were not written for."""
    base = _base(key, qual)
    if base is None:
        return set()
    bparams, bbody = base
    known = local_names(bbody, set(bparams)) | set(bparams)
    cur = local_names(body, set(params))
    # (temporaries of an expanded helper carry an `@`; locals the baseline has and the current body lost are listed with a leading `-`)
    return {v for v in cur if v not in known} | {'-' + v for v in local_names(bbody, set(bparams)) if v not in cur}


def recover(key, qual, params, body):
    """body of the current function with its locals renamed to the baseline's names where the correspondence is clear"""
    base = _base(key, qual)
    if base is None or not body:
        return body
    bparams, bbody = base
    try:
        mapping, la = correspondence(body, bbody, set(params), set(bparams))
    except RecursionError:
        return body
    LAST_RENAMING.clear()
    ren = {a: b for a, b in mapping.items() if a != b}
    if not ren:
        return body
    # a new name may not collide with a local that keeps its name
    keep = {v for v in la if v not in ren}
    ren = {a: b for a, b in ren.items() if b not in keep and b not in params}
    if not ren:
        return body
    sub = {a: ('var', b) for a, b in ren.items()}
    out = [map_stmt(s, lambda e: subst_vars(e, sub)) for s in body]
    for t in walk_stmts(out):
        if t.k == 'decl' and t.name in ren:
            t.d['name'] = ren[t.name]
        if t.k == 'for' and t.var in ren:
            t.d['var'] = ren[t.var]
        if t.k == 'omp' and isinstance(t.d.get('clauses'), dict):
            # the variable lists of OpenMP clauses name the same locals
            t.d['clauses'] = {k_: [[ren.get(x, x) for x in lst] if isinstance(lst, (list, tuple)) else lst for lst in v_] for k_, v_ in t.d['clauses'].items()}
    LAST_RENAMING.clear()
    LAST_RENAMING.update(ren)
    return out


LAST_RENAMING = {}


# ------------------------------------------------------------------------------------------------------------------------------------
# locals that the baseline function does not have ("introduce local" refactorings): a pure single-assignment local whose operands are
# unchanged between its definition and its uses is replaced by its definition -- the statements the rules read are those of the baseline shape.
def _free_vars(e):
    return {x[1] for x in walk_expr(e) if x[0] == 'var'}


def _array_bases(e):
    out = set()
    for x in walk_expr(e):
        if x[0] == 'idx':
            b = x[1]
            while b[0] in ('idx', 'attr'):
                b = b[1]
            if b[0] == 'var':
                out.add(b[1])
        if x[0] == 'attr':
            b = x
            while b[0] in ('idx', 'attr'):
                b = b[1]
            if b[0] == 'var':
                out.add(b[1])
    return out


def _writes(stmts):
    """(variables assigned, bases of element / attribute stores, any call statement?) in the statements (deep)"""
    av, ab = set(), set()
    for t in walk_stmts(stmts):
        if t.k == 'assign':
            tg = t.target
            if tg[0] == 'var':
                av.add(tg[1])
            elif tg[0] == 'tuple':
                for x in walk_expr(tg):
                    if x[0] == 'var':
                        av.add(x[1])
            else:
                b = tg
                while b[0] in ('idx', 'attr') or (b[0] == 'un' and b[1] == 'deref'):
                    b = b[1] if b[0] != 'un' else b[2]
                if b[0] == 'var':
                    ab.add(b[1])
        elif t.k == 'decl':
            av.add(t.name)
        elif t.k == 'for':
            av.add(t.var)
        elif t.k == 'foreach':
            for x in walk_expr(t.target):
                if x[0] == 'var':
                    av.add(x[1])
    return av, ab


def _uses(stmts, v):
    """read occurrences of v (a plain assignment target is not a read)"""
    n = 0
    for t in walk_stmts(stmts):
        for k_, e in enumerate(stmt_exprs(t)):
            if t.k == 'assign' and k_ == 0 and e == ('var', v):
                continue
            for x in walk_expr(e):
                if x == ('var', v):
                    n += 1
    return n


def _hdr(s):
    """the statement without its nested blocks (what is evaluated when the statement is reached)"""
    return S(s.k, s.line, **{k_: ([] if k_ in ('then', 'els', 'body', 'orelse', 'final', 'handlers', 'init', 'inc') and isinstance(v_, list) else v_) for k_, v_ in s.d.items()})


def _disturbed(stmts, v, fv, arrs):
    """True when, on some path through stmts, an operand of the definition of v (a variable in fv, an array in arrs) is written before a read of v."""
    def touches(t):
        av, ab = _writes([t])
        return bool((av & fv) or (ab & arrs) or (ab & fv))

    def scan(ss, dirty):
        bad = False
        for t in ss:
            h = _hdr(t)
            if _uses([h], v) and dirty:
                bad = True
            if t.k == 'if':
                d1, b1 = scan(t.then, dirty)
                d2, b2 = scan(t.els, dirty)
                dirty, bad = (d1 or d2), (bad or b1 or b2)
            elif t.k in ('for', 'foreach', 'while', 'loop'):
                if t.k in ('for',) and t.var in fv:
                    dirty = True
                d1, b1 = scan(t.body, dirty)
                bad = bad or b1
                if (d1 or touches(h)) and not dirty:
                    _d2, b2 = scan(t.body, True)          # later iterations start after the writes of the first
                    bad = bad or b2 or bool(_uses([h], v))
                dirty = dirty or d1 or touches(h)
            elif sub_blocks(t):
                for blk in sub_blocks(t):
                    d1, b1 = scan(blk, dirty)
                    dirty, bad = (dirty or d1), (bad or b1)
            else:
                if touches(t):
                    dirty = True
        return dirty, bad
    return scan(stmts, False)[1]


def _score(A, B, la, lb):
    """number of statements of A that align with statements of B (recursively)"""
    n = 0
    for s, t, same in _pairs(A, B, la, lb):
        n += 1 if same else 0
        for ba, bb in zip(sub_blocks(s), sub_blocks(t)):
            n += _score(ba, bb, la, lb)
    return n


def _holds_everywhere(body, v, R):
    """Forward analysis of the fact `v == R` (True / False) through the structured statements: a definition `v = R` establishes it, a write to an
    operand of R destroys it, branches meet with `and`, loops are iterated to a fixpoint, break / continue carry their state to the loop exit / back edge.
    -> True iff the fact holds at every read of v."""
    fv, arrs = _free_vars(R), _array_bases(R)
    bad = [False]

    def writes_operand(h):
        av, ab = _writes([h])
        return bool((av & fv) or (ab & arrs) or (ab & fv))

    def flow(stmts, st, brk, cont):
        """st: fact on entry; brk / cont: lists collecting the fact at break / continue; returns the fact on fall-through (None = no fall-through)"""
        for t in stmts:
            if st is None:
                return None
            h = _hdr(t)
            is_def = (t.k == 'assign' and t.target == ('var', v) and t.d.get('aug') is None) or (t.k == 'decl' and t.name == v and t.init is not None)
            if _uses([h], v) and not st:
                bad[0] = True
            if t.k == 'if':
                a = flow(t.then, st, brk, cont)
                b = flow(t.els, st, brk, cont)
                st = b if a is None else (a if b is None else (a and b))
            elif t.k in ('for', 'foreach', 'while', 'loop'):
                hw = writes_operand(h) or (t.k == 'for' and t.var in fv)
                entry = st and not hw
                exits = [entry if t.k != 'loop' else st]       # zero iterations
                cur = entry
                for _round in range(3):
                    b2, c2 = [], []
                    out = flow(t.body, cur, b2, c2)
                    back = [x for x in ([out] + c2) if x is not None]
                    nxt = entry and all(back) and not hw if back else entry
                    exits = [entry] + b2 + back
                    if nxt == cur:
                        break
                    cur = nxt
                    if _uses([h], v) and not cur:
                        bad[0] = True
                st = all(x for x in exits if x is not None)
            elif t.k in ('with', 'try', 'omp'):
                for blk in sub_blocks(t):
                    r = flow(blk, st, brk, cont)
                    st = st if r is None else (st and r if t.k == 'try' else r)
            elif t.k == 'break':
                brk.append(st)
                return None
            elif t.k == 'continue':
                cont.append(st)
                return None
            elif t.k in ('return', 'raise'):
                return None
            else:
                if is_def:
                    val = t.value if t.k == 'assign' else t.init
                    if val != R:
                        bad[0] = True
                    st = True
                elif (t.k == 'decl' and t.name == v):
                    st = False
                elif writes_operand(t):
                    st = False
        return st
    flow(body, False, [], [])
    return not bad[0]


def close_inductions(body, new):
    """A NEW local p that is initialised before a counted loop and advanced by a loop-invariant step as the last statement of every iteration
    (`p = E0; for v in [lo, hi): ...p...; p += step` -- the strength-reduced form of an index / a walking row pointer) has the closed form
    E0 + step*(v - lo) inside the body: substitute it, drop the advance and the initialisation.  For a pointer `&A[e0]` the closed form is
    `&A[e0 + step*(v - lo)]`.  Refused when p is read after the loop, assigned anywhere else, when an iteration can skip the advance (`continue`), or when
    an operand of E0 / step is written in the loop."""
    from .canon import poly_norm
    from .ir import aug_rhs

    def level_continue(stmts):
        for t in stmts:
            if t.k == 'continue':
                return True
            if t.k in ('for', 'foreach', 'while', 'loop'):
                continue
            if any(level_continue(b) for b in sub_blocks(t)):
                return True
        return False

    def attempt(B):
        for k, lp in enumerate(B):
            for blk in sub_blocks(lp):
                r = attempt(blk)
                if r is not None:
                    d = dict(lp.d)
                    for attr in ('then', 'els', 'body', 'orelse', 'final'):
                        if d.get(attr) is blk:
                            d[attr] = r
                    return B[:k] + [S(lp.k, lp.line, **d)] + B[k + 1:]
            if lp.k != 'for' or lp.lo is None or lp.step not in (None, ('num', 1)) or lp.d.get('inclusive') or not lp.body:
                continue
            last = lp.body[-1]
            if not (last.k == 'assign' and last.target[0] == 'var' and last.target[1] in new and last.d.get('aug') == '+'):
                continue
            p = last.target[1]
            step = aug_rhs(last)
            rest = lp.body[:-1]
            if step is None or p in assigned_vars(rest) or level_continue(rest) or _uses([S('expr', 0, value=step)], p):
                continue
            # the initialisation: nearest preceding plain assignment to p in the same block; nothing in between mentions p
            init = None
            for j in range(k - 1, -1, -1):
                t = B[j]
                if (t.k == 'assign' and t.target == ('var', p) and t.d.get('aug') is None) or (t.k == 'decl' and t.name == p and t.init is not None):
                    init = j
                    break
                if _uses([t], p) or p in assigned_vars([t]):
                    break
            if init is None:
                continue
            E0 = B[init].value if B[init].k == 'assign' else B[init].init
            if _uses(B[k + 1:], p) and not any((t.k == 'assign' and t.target == ('var', p) and t.d.get('aug') is None) for t in B[k + 1:k + 2]):
                continue
            fv = _free_vars(E0) | _free_vars(step) | _free_vars(lp.lo)
            written = assigned_vars(lp.body) | assigned_vars(B[init + 1:k])
            stored = _writes(lp.body)[1] | _writes(B[init + 1:k])[1]
            if (fv - {p}) & (written | {lp.var}) or (_array_bases(step) & stored) or (E0[0] != 'un' and (_array_bases(E0) & stored)):
                continue
            off = ('bin', '*', step, ('bin', '-', ('var', lp.var), lp.lo))
            if E0[0] == 'un' and E0[1] == 'addr' and E0[2][0] == 'idx':
                if _array_bases(E0[2][2]) & stored:
                    continue
                closed = ('un', 'addr', ('idx', E0[2][1], poly_norm(('bin', '+', E0[2][2], off))))
            elif E0[0] == 'un':
                continue
            else:
                closed = poly_norm(('bin', '+', E0, off))
            sub = {p: closed}
            nb = [map_stmt(t, lambda e: subst_vars(e, sub)) for t in rest]
            d = dict(lp.d)
            d['body'] = nb
            out = B[:init] + B[init + 1:k] + [S('for', lp.line, **d)] + B[k + 1:]
            return out
        return None
    for _ in range(8):
        r = attempt(body)
        if r is None:
            break
        body = r
    # declarations of variables that no longer occur
    gone = [t.name for t in walk_stmts(body) if t.k == 'decl' and t.init is None and t.name in new and not _uses(body, t.name) and t.name not in assigned_vars(body)]
    if gone:
        def strip(B):
            out = []
            for t in B:
                if t.k == 'decl' and t.name in gone and t.init is None:
                    continue
                d = dict(t.d)
                for attr in ('then', 'els', 'body', 'orelse', 'final'):
                    if isinstance(d.get(attr), list):
                        d[attr] = strip(d[attr])
                out.append(S(t.k, t.line, **d))
            return out
        body = strip(body)
    return body


def absorb_new_locals(key, qual, params, body, max_rounds=16):
    """Greedy: among the new locals that can be absorbed, absorb the one after which the function aligns best with its baseline (and not worse than
    before), recover names again, repeat.  (`envelope = s2[a:b]; upper = max(envelope)`: absorbing `envelope` makes `upper = max(s2[a:b])` align with the
    baseline's `ui = max(s2[a:b])`, so `upper` is recognised as `ui` instead of being absorbed itself.)"""
    base = _base(key, qual)
    if base is None or not body:
        return body
    bparams, bbody = base
    lb = local_names(bbody, set(bparams))
    known = lb | set(bparams)
    pset = set(params)
    new0 = {v for v in local_names(body, pset) if v not in known and '@' not in v}
    if new0:
        body = close_inductions(body, new0)
    for _ in range(max_rounds):
        new = {v for v in local_names(body, pset) if v not in known and '@' not in v}
        if not new:
            break
        cur = _score(body, bbody, local_names(body, pset), lb)
        best = None
        for v in sorted(new):
            cand = _absorb_one(body, new, pset, only=v)
            if cand is None:
                continue
            cand = recover(key, qual, params, cand)
            sc = _score(cand, bbody, local_names(cand, pset), lb)
            if best is None or sc > best[0]:
                best = (sc, cand)
        if best is None or best[0] < cur:
            break
        body = best[1]
    return body


def _absorb_one(body, new, params, only=None):
    """Find one new local v all of whose uses are dominated by a definition `v = R` in the same block (one definition per branch is fine) with the
    operands of R undisturbed up to the last use; substitute the definitions and drop them.  None when there is no such local."""
    # all definition sites per variable: (block, index, R) for plain top-level-of-block assignments; any other kind of binding disqualifies
    sites = {}
    bad = set()

    def scan(B):
        for i, s in enumerate(B):
            if s.k == 'assign':
                if s.target[0] == 'var':
                    if s.d.get('aug') is None:
                        sites.setdefault(s.target[1], []).append((B, i, s.value))
                    else:
                        bad.add(s.target[1])
                else:
                    for x in walk_expr(s.target):
                        if x[0] == 'var' and s.target[0] == 'tuple':
                            bad.add(x[1])
            elif s.k == 'decl':
                if s.init is not None:
                    sites.setdefault(s.name, []).append((B, i, s.init))
            elif s.k == 'for':
                bad.add(s.var)
            elif s.k == 'foreach':
                for x in walk_expr(s.target):
                    if x[0] == 'var':
                        bad.add(x[1])
            elif s.k == 'with':
                for ce, tv in s.items:
                    if tv is not None and tv[0] == 'var':
                        bad.add(tv[1])
            for blk in sub_blocks(s):
                scan(blk)
    scan(body)
    # a local that is written through (v[k] = .., v.attr = ..) or is the receiver of a method call (v.append(..)) is an object with identity, not a value
    mutated = set()
    for t in walk_stmts(body):
        if t.k == 'assign' and t.target[0] in ('idx', 'attr'):
            b = t.target
            while b[0] in ('idx', 'attr'):
                b = b[1]
            if b[0] == 'var':
                mutated.add(b[1])
        for e in stmt_exprs(t):
            for x in walk_expr(e):
                if x[0] == 'call' and x[1][0] == 'attr' and x[1][1][0] == 'var':
                    mutated.add(x[1][1][1])
                if x[0] == 'call':
                    for k_, a_ in x[3]:
                        if k_ == 'out' and a_[0] == 'var':
                            mutated.add(a_[1])
    for v in sorted(new):
        if only is not None and v != only:
            continue
        # ... except a C pointer into an array (`p = &A[e]`): p[k] IS A[e + k], stores through p are stores into A
        alias = v in sites and all(R[0] == 'un' and R[1] == 'addr' and R[2][0] == 'idx' for _B, _i, R in sites[v])
        if v in bad or v not in sites or (v in mutated and not alias):
            continue
        total = _uses(body, v)
        if total == 0:
            continue
        ok = True
        covered = 0
        for B, i, R in sites[v]:
            if any(x == ('var', v) for x in walk_expr(R)) or any(x[0] in ('lambda', 'comp') for x in walk_expr(R)):
                ok = False
                break
            rest = B[i + 1:]
            # a definition that is overwritten before it is read (`T v = 0; ...; v = R`) is dead: it covers nothing and is dropped
            first = next((t for t in rest if _uses([t], v) or any((u.k == 'assign' and u.target == ('var', v)) or (u.k == 'decl' and u.name == v) for u in walk_stmts([t]))), None)
            if first is not None and first.k == 'assign' and first.target == ('var', v) and first.d.get('aug') is None and not _uses([first], v):
                continue
            # no other definition of v inside the rest of the block (this definition reaches every use there)
            if any((t.k == 'assign' and t.target == ('var', v)) or (t.k == 'decl' and t.name == v) for t in walk_stmts(rest)):
                ok = False
                break
            n = _uses(rest, v)
            covered += n
            if alias:
                # the element stores into the addressed array are what the pointer is for; only its index operands (and the array variable itself) matter
                base_ = R[2][1]
                while base_[0] in ('idx', 'attr'):
                    base_ = base_[1]
                bn = base_[1] if base_[0] == 'var' else None
                if n and (bn is None or bn in _writes(rest)[0] or _disturbed(rest, v, _free_vars(R) - {bn}, _array_bases(R[2][2]))):
                    ok = False
                    break
            elif n and _disturbed(rest, v, _free_vars(R), _array_bases(R)):
                ok = False
                break
        if not ok or covered != total:
            # second criterion: every definition assigns the same expression R and `v == R` holds at every read of v (forward validity analysis
            # over branches, loops, breaks): then every read of v can be replaced by R and the definitions dropped
            rs = {repr(R) for _B, _i, R in sites[v]}
            R0 = sites[v][0][2]
            if len(rs) == 1 and not any(x == ('var', v) for x in walk_expr(R0)) and not any(x[0] in ('lambda', 'comp', 'call') for x in walk_expr(R0)) \
                    and _holds_everywhere(body, v, R0):
                sub = {v: R0}

                def strip(B):
                    out = []
                    for t in B:
                        if (t.k == 'assign' and t.target == ('var', v) and t.d.get('aug') is None) or (t.k == 'decl' and t.name == v):
                            continue
                        d = dict(t.d)
                        for attr in ('then', 'els', 'body', 'orelse', 'final'):
                            if isinstance(d.get(attr), list):
                                d[attr] = strip(d[attr])
                        out.append(map_stmt(S(t.k, t.line, **d), lambda e: subst_vars(e, sub)))
                    return out
                return strip(body)
            continue
        # apply: in every defining block, substitute in the rest and drop the definition
        def rewrite(B):
            out = []
            cur = None
            for i, s in enumerate(B):
                hit = [R for (B2, i2, R) in sites[v] if B2 is B and i2 == i]
                if hit:
                    cur = hit[0]
                    continue
                d = dict(s.d)
                for attr in ('then', 'els', 'body', 'orelse', 'final'):
                    if isinstance(d.get(attr), list):
                        d[attr] = rewrite(d[attr])
                t = S(s.k, s.line, **d)
                if cur is not None:
                    sub = {v: cur}
                    t = map_stmt(t, lambda e: subst_vars(e, sub))
                out.append(t)
            return out
        return rewrite(body)
    return None
