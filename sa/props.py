"""Per-property rule sets (DESIGN section 5)."""
from .model import model
from .rules import sig, fwd, misc, kern, kern2d, iterspace, cshape

ALL_PY = ['dtaidistance.dtw', 'dtaidistance.dtw_ndim', 'dtaidistance.ed', 'dtaidistance.dtw_barycenter',
          'dtaidistance.subsequence.subsequencealignment', 'dtaidistance.subsequence.subsequencesearch',
          'dtaidistance.subsequence.localconcurrences', 'dtaidistance.clustering.kmeans',
          'dtaidistance.clustering.hierarchical', 'dtaidistance.clustering.medoids', 'dtaidistance.util']


def _tmp(ctx):
    m = model(ctx.repo)
    cshape.rule_shadow(ctx, m)
    cshape.rule_scan_init(ctx, m)
    cshape.rule_variant_callees(ctx, m)
    cshape.rule_c_no_input_stores(ctx, m)
    cshape.rule_c_reentrant(ctx, m)
    cshape.rule_alloc_c(ctx, m)
    cshape.rule_alloc_pyx(ctx, m)
    cshape.rule_ndim_stride(ctx, m, ['euclidean_distance_ndim', 'euclidean_distance_ndim_euclidean', 'dtw_distance_ndim', 'dtw_distance_ndim_euclidean',
                                     'dtw_warping_paths_ndim', 'dtw_warping_paths_ndim_euclidean', 'dtw_warping_paths_affinity_ndim'])
    cshape.rule_dba_c(ctx, m)


PROPS = {'T00': (_tmp, 'scratch')}
