"""Per-property rule sets (DESIGN section 5).  Each property function receives a Ctx and applies the rules that decide
its structural clauses; floors are the instance counts confirmed on the pinned tree."""
from .model import model
from .rules import sig, fwd, misc, kern, kern2d, iterspace, cshape, pyshape, tables

CORE_PY = ['dtaidistance.dtw', 'dtaidistance.dtw_ndim', 'dtaidistance.ed', 'dtaidistance.dtw_barycenter']
SUBSEQ = ['dtaidistance.subsequence.subsequencealignment', 'dtaidistance.subsequence.subsequencesearch',
          'dtaidistance.subsequence.localconcurrences']
CLUST = ['dtaidistance.clustering.kmeans', 'dtaidistance.clustering.hierarchical', 'dtaidistance.clustering.medoids']
ALL_PY = CORE_PY + SUBSEQ + CLUST + ['dtaidistance.util']
EXTRA_PY = ['dtaidistance.dp', 'dtaidistance.alignment', 'dtaidistance.similarity', 'dtaidistance.innerdistance']
NUMPY_OPT = ['dtaidistance.dtw', 'dtaidistance.innerdistance', 'dtaidistance.ed', 'dtaidistance.dtw_barycenter'] + SUBSEQ


def has(*subs):
    """Scope predicate on the instance text.  A held obligation names its module (`dtw_ndim:distance_matrix_fast -> ..`), a violated one its file
    (`src/dtaidistance/dtw_ndim.py:distance_matrix_fast:..`): the text is matched in both spellings."""
    import re

    def pred(rule, text):
        alt = re.sub(r'(?:[\w./-]*/)?([\w-]+)\.(?:pyx|py|c|h):', r'\1:', text)
        return any(s in text or s in alt for s in subs)
    return pred


def _kernels(ctx, m):
    ks = getattr(ctx, '_kernels', None)
    if ks is None:
        ks = kern.load_kernels(m)
        for F in ks:
            # recurrence facts feed the other kernel rules
            pass
        ctx._kernels = ks
    return ks


def _py_distance_rules(ctx, m, F, rules):
    if 'band' in rules:
        kern.rule_band(ctx, F)
    kern_rec_needed = {'rec', 'psi', 'clamp', 'dom'} & set(rules)
    if kern_rec_needed:
        if 'rec' in rules:
            kern.rule_recurrence(ctx, F)
        elif 'reset' in rules:
            # only the reset of the row buffer: a cell the column loop leaves unwritten (early abandoning) must read as infinity afterwards
            with ctx.scoped(lambda r, t: 'row reset' in t):
                kern.rule_recurrence(ctx, F)
        else:
            with ctx.scoped(lambda r, t: False):
                kern.rule_recurrence(ctx, F)
    if 'prune' in rules:
        kern.rule_prune(ctx, F)
    if 'psi' in rules:
        kern.rule_psi(ctx, F)
    if 'clamp' in rules:
        if 'psi' not in rules:
            with ctx.scoped(lambda r, t: False):
                kern.rule_psi(ctx, F)
        kern.rule_clamp(ctx, F)
        if F.lang == 'c':
            kern.rule_store_in_row(ctx, F)
    if 'dom' in rules:
        if 'prune' not in rules:
            with ctx.scoped(lambda r, t: False):
                kern.rule_prune(ctx, F)
        if F.lang == 'c':
            kern.rule_dom_c(ctx, F)
        else:
            kern.rule_dom_py(ctx, m, F)


def _wp(ctx, m, kir, rules):
    F = kern2d.load(m, 'dtaidistance.dtw', 'warping_paths', consts={'keep_int_repr': ('bool', kir)})
    if 'rec' in rules:
        kern.rule_length_diff_exit(ctx, F.name, F.file, F.prologue.events, F.amap, F.outer_line)
    if 'band' in rules:
        kern.rule_band(ctx, F)
    if 'rec' in rules:
        kern2d.rule_rec_dtw2d(ctx, F)
    else:
        with ctx.scoped(lambda r, t: False):
            kern2d.rule_rec_dtw2d(ctx, F)
    if 'prune' in rules:
        kern.rule_prune(ctx, F)
    else:
        with ctx.scoped(lambda r, t: False):
            kern.rule_prune(ctx, F)
    if 'psi' in rules:
        kern2d.rule_psi2d(ctx, F)
    if 'dom' in rules:
        kern2d.rule_dom_py2d(ctx, m, F, kir)
    return F


# ------------------------------------------------------------------------------------------------------------------
def C01(ctx):
    m = model(ctx.repo)
    F = _kernels(ctx, m)[0]
    _py_distance_rules(ctx, m, F, ['band', 'rec', 'prune', 'psi', 'clamp', 'dom'])
    kern.rule_result_cell(ctx, F)
    kern.rule_length_diff_exit(ctx, F.name, F.file, F.prologue.events, F.amap, F.outer_line)
    tables.rule_settings_defaults(ctx, m)
    tables.rule_adj_stores(ctx, m)
    misc.rule_dispatch(ctx, m, 'dtaidistance.innerdistance', 'inner_dist_cls', 'inner_dist', documented=[])
    tables.rule_inner_dist_table(ctx, m)
    misc.rule_optional_numpy(ctx, m, ['dtaidistance.dtw', 'dtaidistance.innerdistance', 'dtaidistance.ed'])
    # second Python copy of the scheme as sibling
    _wp(ctx, m, True, ['band', 'rec'])
    ctx.floor('R-BAND', 5, 'lower/upper/rows of distance + warping_paths')
    ctx.floor('R-REC', 8, 'predecessors, penalty, offset, length, reset, guard')
    ctx.floor('R-PSI', 4, 'four psi roles')
    ctx.count('kernels', 2)


def C02(ctx):
    m = model(ctx.repo)
    ks = _kernels(ctx, m)
    for F in ks:
        if F.lang == 'c':
            _py_distance_rules(ctx, m, F, ['band', 'rec', 'prune', 'psi', 'dom'])
            kern.rule_result_cell(ctx, F)
            kern.rule_length_diff_exit(ctx, F.name, F.file, F.prologue.events, F.amap, F.outer_line)
        else:
            # the other side of the comparison: the Python kernel against the same scheme (band and recurrence; its own relaxation / threshold rules are C01's)
            _py_distance_rules(ctx, m, F, ['band', 'rec'])
            with ctx.scoped(lambda r, t: False):
                _py_distance_rules(ctx, m, F, ['dom'])
    # "reached through ... the C distance-matrix routines": pair (r, c) is computed on series r and series c with their own lengths, serial and OpenMP
    with ctx.scoped(has('pair order', 'kernel must be called', 'kernel call')):
        iterspace.rule_iter_c_serial(ctx, m)
        iterspace.rule_omp(ctx, m)
    # the only_ub short-cut: whatever domain it returns (see F2), both engines must return the same one
    doms = {F.name: getattr(F, 'only_ub_domain', None) for F in ks}
    pyd = [d for F in ks if F.lang != 'c' for d in [doms[F.name]] if d]
    for F in ks:
        if F.lang == 'c' and doms[F.name] and pyd:
            ctx.check(doms[F.name] == pyd[0], 'R-DOM', F.file, F.name, 'only_ub domain agreement',
                      'with only_ub the Python engine returns the Euclidean bound in the %s domain, %s returns it in the %s domain: the two engines give different values '
                      'for the same call' % (pyd[0], F.name, doms[F.name]), F.outer_line)
    ctx.count('kernels', len(ks))
    sig.rule_pxd_vs_header(ctx, m)
    with ctx.scoped(has('distance', 'ub_euclidean', 'lb_keogh', 'DTWSettings', 'distances', 'euclidean')):
        sig.rule_pyx_to_c(ctx, m)
        sig.rule_c_to_c(ctx, m)
    fwd.rule_key_tables(ctx, m)
    tables.rule_inner_dist_table(ctx, m)
    tables.rule_none_zero_encoding(ctx, m)
    with ctx.scoped(has('dtw:distance ', 'dtw:distance_fast', 'dtw_ndim:distance', 'dtw:distance_matrix', 'dtw_ndim:distance_matrix', ':distance:', ':distance_fast:', 'DTWSettings.',
                        'dtw.py:distance', 'dtw_ndim.py:distance')):        # (a violation's instance carries the file name, a held one the module name)
        fwd.rule_delegation(ctx, m, ['dtaidistance.dtw', 'dtaidistance.dtw_ndim'])
    tables.rule_pyx_siblings(ctx, m)
    cshape.rule_ndim_stride(ctx, m, NDIM_FUNCS[:4])
    with ctx.scoped(has('verify_np_array', 'c_data_compat')):
        pyshape.rule_series_container(ctx, m)        # the C engine must be handed the same numbers in C order
    cshape.rule_config_invariance(ctx, m)
    cshape.rule_sibling_skeleton(ctx, m, ['dtw_distance', 'dtw_distance_ndim', 'euclidean_distance', 'euclidean_distance_ndim', 'ub_euclidean', 'ub_euclidean_ndim'])
    cshape.rule_variant_callees(ctx, m)
    ctx.floor('R-BAND', 20, '4 C kernels x (lo, hi) x 2 window encodings + rows')
    ctx.floor('R-REC', 32, '4 C kernels x 8 facts')
    ctx.floor('R-SIG', 100, '52 externs + call sites')


def C03(ctx):
    m = model(ctx.repo)
    tables.rule_inner_dist_table(ctx, m)      # the Python kernels take point distance / result / inner_val from this table
    from .rules import wps, bounds
    wps.rule_wps_epilogue(ctx, m)
    wps.rule_wps_end_scans(ctx, m)
    wps.rule_parts_domains(ctx, m)
    with ctx.scoped(lambda r, t: r in ('R-PRUNE',)):
        wps.rule_wps_writers(ctx, m, affinity=False, tier=ctx.tier)
    bounds.rule_euclidean(ctx, m)
    for F in _kernels(ctx, m):
        _py_distance_rules(ctx, m, F, ['prune', 'dom', 'reset'])
    for kir in (True, False):
        _wp(ctx, m, kir, ['prune', 'dom'])
    cshape.rule_variant_callees(ctx, m)
    with ctx.scoped(has('ndim sink', 'inner_dist_fns', 'ed.distance', 'ub_euclidean')):
        fwd.rule_use_ndim(ctx, m, CORE_PY)
    tables.rule_settings_defaults(ctx, m)
    with ctx.scoped(has('DTWSettings.', 'ub_euclidean')):
        fwd.rule_delegation(ctx, m, ['dtaidistance.dtw', 'dtaidistance.dtw_ndim'])     # the pruning bound is computed with the settings in effect
    tables.rule_adj_stores(ctx, m)
    # the thresholds reach the C engine as given (C converts them itself): settings dictionary built from each key's own attribute, 0 = off
    fwd.rule_key_tables(ctx, m)
    tables.rule_none_zero_encoding(ctx, m)
    ctx.floor('R-PRUNE', 50, '5 rolling kernels + 2 warping_paths modes')


def C04(ctx):
    m = model(ctx.repo)
    tables.rule_inner_dist_table(ctx, m)      # the Python kernels take point distance / result / inner_val from this table
    _wp(ctx, m, True, ['band', 'rec', 'prune', 'psi', 'dom'])
    _wp(ctx, m, False, ['rec', 'dom'])
    misc.rule_return_arity(ctx, m, [('dtaidistance.dtw', 'warping_paths'), ('dtaidistance.dtw', 'warping_paths_fast')])
    with ctx.scoped(has('warping_paths')):
        fwd.rule_delegation(ctx, m, ['dtaidistance.dtw', 'dtaidistance.dtw_ndim'])
        sig.rule_pyx_to_c(ctx, m)
        sig.rule_c_to_c(ctx, m)
        sig.rule_py_to_pyx(ctx, m, CORE_PY)
        sig.rule_pxd_vs_header(ctx, m)
    from .rules import wps
    wps.rule_wps_writers(ctx, m, affinity=False, tier=ctx.tier)
    wps.rule_parts_domains(ctx, m)
    wps.rule_pyx_direct_matrix(ctx, m)
    wps.rule_direct_identity(ctx, m)
    wps.rule_wps_epilogue(ctx, m)
    wps.rule_wps_end_scans(ctx, m)
    wps.rule_wps_exits(ctx, m)
    wps.rule_wps_readers(ctx, m, affinity=False)
    cshape.rule_ndim_stride(ctx, m, NDIM_FUNCS[4:6])
    cshape.rule_sibling_skeleton(ctx, m, ['dtw_warping_paths', 'dtw_warping_paths_ndim'])
    ctx.floor('R-REC', 6, 'python matrix facts')


def C05(ctx):
    m = model(ctx.repo)
    fwd.rule_best_path_penalty(ctx, m, CORE_PY + SUBSEQ)
    fwd.rule_key_tables(ctx, m)
    cshape.rule_alloc_pyx(ctx, m)
    with ctx.scoped(has('index array', 'best_path', 'warping_path')):
        cshape.rule_alloc_c(ctx, m)
    from .rules import wps
    wps.rule_best_path_py(ctx, m)
    wps.rule_best_path_c(ctx, m, tier=ctx.tier)
    wps.rule_best_path_moves(ctx, m)
    wps.rule_best_path_prob_moves(ctx, m)
    wps.rule_best_path_markers(ctx, m)
    wps.rule_pyx_path_assembly(ctx, m)
    cshape.rule_backtrack_repr(ctx, m)
    cshape.rule_path_distance_domain(ctx, m)
    tables.rule_none_zero_encoding(ctx, m)
    for kir in (True, False):
        with ctx.scoped(lambda r, t: r == 'R-BAND'):
            _wp(ctx, m, kir, ['band'])          # a path traced through an out-of-band cell is not a valid warping path
    with ctx.scoped(has('dtw_wps_loc', 'top row copy', 'row coverage', 'first slice row')):
        wps.rule_wps_readers(ctx, m)          # best_path on an expanded matrix: the expansion holds every in-band cell of the slice, the border row included
    with ctx.scoped(has('warping_path', 'best_path')):
        sig.rule_pyx_to_c(ctx, m)
        sig.rule_c_to_c(ctx, m)
        fwd.rule_delegation(ctx, m, ['dtaidistance.dtw', 'dtaidistance.dtw_ndim'])


def C06(ctx):
    m = model(ctx.repo)
    iterspace.rule_iter_python(ctx, m)
    iterspace.rule_iter_c_serial(ctx, m)
    iterspace.rule_iter_pyx(ctx, m)
    tables.rule_matrix_conversion(ctx, m)
    tables.rule_pyx_siblings(ctx, m)
    with ctx.scoped(has('distance_matrix', 'distances')):
        fwd.rule_delegation(ctx, m, ['dtaidistance.dtw', 'dtaidistance.dtw_ndim'])
        sig.rule_pyx_to_c(ctx, m)
    ctx.floor('R-ITER', 80, '2 Python + 6 C serial enumerators + lengths + pyx decoders')


def C07(ctx):
    m = model(ctx.repo)
    iterspace.rule_omp(ctx, m)
    cshape.rule_c_reentrant(ctx, m)
    cshape.rule_c_settings_readonly(ctx, m)      # the settings struct is shared by all threads of a region
    iterspace.rule_mp_order(ctx, m)
    with ctx.scoped(has('_distance_matrix_idxs')):
        iterspace.rule_iter_python(ctx, m)      # the pool branches fill the result in the order of this pair plan: row-major, as the serial engines
    with ctx.scoped(has('parallel')):
        sig.rule_pyx_to_c(ctx, m)
        sig.rule_pxd_vs_header(ctx, m)
    ctx.floor('R-OMP', 60, '6 regions + planner')
    ctx.floor('R-EFF', 8, 'functions reachable from regions')


def C08(ctx):
    m = model(ctx.repo)
    cshape.rule_alloc_c(ctx, m)
    cshape.rule_alloc_pyx(ctx, m)
    cshape.rule_shadow(ctx, m)
    cshape.rule_ndim_stride(ctx, m, NDIM_FUNCS)
    for F in _kernels(ctx, m):
        if F.lang == 'c':
            _py_distance_rules(ctx, m, F, ['clamp'])
    tables.rule_psi_asserts(ctx, m)
    from .rules import wps
    wps.rule_wps_bounds(ctx, m, tier=ctx.tier)
    from .rules import bounds
    with ctx.scoped(lambda r, t: 'lb_keogh' in t and 'dd_dtw.c' in t):
        bounds.rule_lb_keogh(ctx, m)             # the envelope scan reads s2[imin:imax]: imax beyond l2 is an out-of-bounds read
    with ctx.scoped(lambda r, t: 'dd_ed.c' in t):
        bounds.rule_euclidean(ctx, m)            # the padding loops read element n-1 of the shorter series: n would be one past its end
    cshape.rule_config_invariance(ctx, m)
    with ctx.scoped(has('path index roles')):
        cshape.rule_dba_c(ctx, m)       # positions of one series indexing the other: out of bounds when the lengths differ
    with ctx.scoped(has('output slot', 'output store', 'pair counter', 'prefix-sum plan', 'row index')):
        iterspace.rule_omp(ctx, m)      # the parallel regions write output[slot]: the slot arithmetic bounds the write
    ctx.floor('R-ALLOC', 20, 'C + pyx allocation sites')
    ctx.floor('R-STRIDE', 60, 'n-D subscripts')


NDIM_FUNCS = ['euclidean_distance_ndim', 'euclidean_distance_ndim_euclidean', 'dtw_distance_ndim', 'dtw_distance_ndim_euclidean',
              'dtw_warping_paths_ndim', 'dtw_warping_paths_ndim_euclidean', 'dtw_warping_paths_affinity_ndim',
              'dtw_warping_paths_affinity_ndim_euclidean']


def C09(ctx):
    m = model(ctx.repo)
    from .rules import bounds
    bounds.rule_lb_keogh(ctx, m)
    bounds.rule_euclidean(ctx, m)
    cshape.rule_scan_init(ctx, m, only=['lb_keogh', 'lb_keogh_euclidean'])
    cshape.rule_shadow(ctx, m, only=['euclidean_distance', 'euclidean_distance_euclidean', 'euclidean_distance_ndim', 'euclidean_distance_ndim_euclidean'])
    cshape.rule_ndim_stride(ctx, m, ['euclidean_distance_ndim', 'euclidean_distance_ndim_euclidean'])
    cshape.rule_sibling_skeleton(ctx, m, ['lb_keogh', 'euclidean_distance', 'euclidean_distance_ndim', 'ub_euclidean', 'ub_euclidean_ndim'])
    ks = _kernels(ctx, m)
    with ctx.scoped(has('only_ub')):
        for F in ks:
            _py_distance_rules(ctx, m, F, ['dom'])
    with ctx.scoped(has('only_ub', 'ub_euclidean', 'lb_keogh', 'ed:', 'ed.py', 'distance_fast')):
        fwd.rule_delegation(ctx, m, ['dtaidistance.dtw', 'dtaidistance.dtw_ndim', 'dtaidistance.ed'])
    cshape.rule_variant_callees(ctx, m)
    with ctx.scoped(has('lb_keogh', 'ub_euclidean', 'euclidean_distance')):
        sig.rule_pyx_to_c(ctx, m)
        sig.rule_pxd_vs_header(ctx, m)


def C10(ctx):
    m = model(ctx.repo)
    for F in _kernels(ctx, m):
        _py_distance_rules(ctx, m, F, ['band'])
        with ctx.scoped(has('penalty symmetric', 'DP predecessor', 'DP value', 'max_step guard', 'row reset')):
            kern.rule_recurrence(ctx, F)
        with ctx.scoped(has('psi')):
            kern.rule_psi(ctx, F)
        # identity needs the end cell of the last row as the result; psi monotonicity needs the end relaxation to include it
        kern.rule_result_cell(ctx, F)
    from .rules import bounds
    bounds.rule_band_laws(ctx)
    bounds.rule_euclidean(ctx, m)           # "with window 1 on equal-length series it equals the Euclidean distance": shape of that distance in both engines
    with ctx.scoped(has('pair order', 'kernel must be called', 'kernel call')):
        iterspace.rule_iter_c_serial(ctx, m)     # mirroring the upper triangle is valid only if entry (r, c) is d(series r, series c)
        iterspace.rule_omp(ctx, m)
    bounds.rule_point_distance(ctx, m, _kernels(ctx, m))
    tables.rule_matrix_conversion(ctx, m)
    tables.rule_settings_defaults(ctx, m)
    # the laws are stated on the public entry points: every option must reach the kernel under its own name, in both engines
    fwd.rule_delegation(ctx, m, ['dtaidistance.dtw', 'dtaidistance.dtw_ndim'])
    fwd.rule_key_tables(ctx, m)
    tables.rule_none_zero_encoding(ctx, m)
    ctx.floor('R-BAND', 25, '5 kernels + laws')


def C11(ctx):
    m = model(ctx.repo)
    cshape.rule_ndim_stride(ctx, m, NDIM_FUNCS)
    fwd.rule_use_ndim(ctx, m, CORE_PY + SUBSEQ)
    with ctx.scoped(has('dtw_ndim')):
        fwd.rule_delegation(ctx, m, ['dtaidistance.dtw_ndim'])
    fwd.rule_unused_params(ctx, m, [('dtaidistance.dtw_ndim', q) for q in
                                    ('distance', 'distance_fast', 'distance_matrix', 'ub_euclidean')])
    with ctx.scoped(has('_ndim', 'ndim')):
        sig.rule_py_to_pyx(ctx, m, ALL_PY)
        sig.rule_pyx_to_c(ctx, m)
        sig.rule_c_to_c(ctx, m)
        cshape.rule_shadow(ctx, m)
    from .rules import bounds
    bounds.rule_ndim_siblings(ctx, m)
    with ctx.scoped(has('ndim')):
        bounds.rule_euclidean(ctx, m)       # the multivariate Euclidean upper bound (and its use for pruning)
    for F in _kernels(ctx, m):
        if 'ndim' in F.name:
            _py_distance_rules(ctx, m, F, ['band', 'rec'])          # the multivariate kernels follow the univariate recurrence, cell for cell
    bounds.rule_point_distance(ctx, m, _kernels(ctx, m))        # vector point distances of the Python inner-distance classes and the C kernels
    cshape.rule_variant_callees(ctx, m)
    cshape.rule_sibling_skeleton(ctx, m, ['dtw_distance_ndim', 'dtw_warping_paths_ndim', 'euclidean_distance_ndim', 'ub_euclidean_ndim'])
    tables.rule_inner_dist_table(ctx, m)
    pyshape.rule_series_container(ctx, m)
    ctx.floor('R-STRIDE', 60, 'n-D subscripts')


def C12(ctx):
    m = model(ctx.repo)
    pyshape.rule_dba_py(ctx, m)
    cshape.rule_dba_c(ctx, m)
    misc.rule_identity(ctx, m, ['dtaidistance.dtw_barycenter'])
    with ctx.scoped(has('dba')):
        cshape.rule_alloc_c(ctx, m)
        sig.rule_pyx_to_c(ctx, m)
        sig.rule_py_to_pyx(ctx, m, ['dtaidistance.dtw_barycenter'])
        cshape.rule_c_no_input_stores(ctx, m)
    fwd.rule_delegation(ctx, m, ['dtaidistance.dtw_barycenter'])
    with ctx.scoped(has('warping_path')):
        fwd.rule_delegation(ctx, m, ['dtaidistance.dtw_ndim'])       # the n-D alignment used by the Python update step
    from .rules import wps
    wps.rule_best_path_prob_moves(ctx, m)      # the sampled alignment used by DBA with nb_prob_samples
    wps.rule_best_path_moves(ctx, m)           # "an optimal warping path": the deterministic back-trackers, penalty included
    with ctx.scoped(has('warping_path')):
        sig.rule_pyx_to_c(ctx, m)              # the Python update with use_c=True aligns through dtw_cc.warping_path(_ndim): lengths of both series
        cshape.rule_alloc_pyx(ctx, m)
    with ctx.scoped(has('dba')):
        cshape.rule_backtrack_repr(ctx, m)     # "an optimal warping path": backtracking needs the matrix in the representation it compares against
    ctx.floor('R-PATH', 12, 'C + Python DBA path rules')


def C13(ctx):
    m = model(ctx.repo)
    tables.rule_inner_dist_table(ctx, m)      # the Python kernels take point distance / result / inner_val from this table
    pyshape.rule_subseq_align(ctx, m)
    pyshape.rule_call_history(ctx, m, pyshape.HISTORY_METHODS['C13'])
    cshape.rule_ndim_stride(ctx, m, NDIM_FUNCS[4:6])      # the C matrix behind use_c=True for multivariate queries
    with ctx.scoped(has('warping_paths')):
        pyshape.rule_contiguity(ctx, m, ['dtaidistance.dtw', 'dtaidistance.dtw_ndim'])     # align(use_c=True) hands query and series to warping_paths_fast
        sig.rule_pyx_to_c(ctx, m)
    with ctx.scoped(has('verify_np_array', 'c_data_compat')):
        pyshape.rule_series_container(ctx, m)        # ... through the contiguity repair: C order, not merely contiguous
    with ctx.scoped(has('subsequencealignment')):
        sig.rule_imports(ctx, m, ['dtaidistance.subsequence.subsequencealignment'])
        sig.rule_py_to_pyx(ctx, m, ['dtaidistance.subsequence.subsequencealignment'])
        fwd.rule_delegation(ctx, m, ['dtaidistance.subsequence.subsequencealignment'])
        fwd.rule_best_path_penalty(ctx, m, ['dtaidistance.subsequence.subsequencealignment'])
    from .rules import wps
    wps.rule_best_path_py(ctx, m)
    # the matching function is the last row of the penalised cost matrix: both engines' matrices follow the one recurrence
    with ctx.scoped(lambda r, t: r == 'R-REC'):
        wps.rule_wps_writers(ctx, m, tier=ctx.tier)
        _wp(ctx, m, True, ['rec'])


def C14(ctx):
    m = model(ctx.repo)
    tables.rule_inner_dist_table(ctx, m)      # the Python kernels take point distance / result / inner_val from this table
    pyshape.rule_subseq_search(ctx, m)
    with ctx.scoped(has('subsequencesearch')):
        fwd.rule_delegation(ctx, m, ['dtaidistance.subsequence.subsequencesearch'])
        sig.rule_imports(ctx, m, ['dtaidistance.subsequence.subsequencesearch'])
    from .rules import bounds
    bounds.rule_lb_keogh(ctx, m)        # exactness under use_lb needs the bound to be a lower bound in both engines
    cshape.rule_scan_init(ctx, m, only=['lb_keogh', 'lb_keogh_euclidean'])
    # candidates may be strided views (columns of a matrix, down-sampled windows): the C bound and the C distance must read the values of the view, not its
    # neighbours in memory -- a bound computed on other numbers prunes true neighbours
    with ctx.scoped(has('lb_keogh', 'subsequencesearch', 'SubsequenceSearch', 'distance_fast', 'distance(')):
        pyshape.rule_contiguity(ctx, m, ['dtaidistance.dtw', 'dtaidistance.subsequence.subsequencesearch'])
    for F in _kernels(ctx, m):
        _py_distance_rules(ctx, m, F, ['prune'])      # the running k-th best threshold is passed as max_dist: pruning must be exact
        with ctx.scoped(has('final threshold')):
            _py_distance_rules(ctx, m, F, ['dom'])    # ... and compared with the result in the result's own domain
    ctx.floor('R-PATH', 8, 'search loop rules')


def C15(ctx):
    m = model(ctx.repo)
    pyshape.rule_hierarchical(ctx, m)
    pyshape.rule_tree_unbounded(ctx, m)
    # merges are decided on the distance matrix of dists_fun: pairs may only be excluded (inf) by the options' own rules
    for F in _kernels(ctx, m):
        kern.rule_length_diff_exit(ctx, F.name, F.file, F.prologue.events, F.amap, F.outer_line)
        with ctx.scoped(has('final threshold')):
            # max_dist among the options: a pair at exactly max_dist is still mergeable, one above it is reported as infinite -- in the result's domain
            _py_distance_rules(ctx, m, F, ['prune', 'dom'])
    with ctx.scoped(has('pair order', 'kernel must be called', 'kernel call')):
        iterspace.rule_iter_c_serial(ctx, m)
    from .rules import bounds
    bounds.rule_euclidean(ctx, m)       # use_pruning among the options: a bound that is not an upper bound turns finite pair distances into inf (no merge)
    pyshape.rule_call_history(ctx, m, pyshape.HISTORY_METHODS['C15'])
    ctx.floor('R-PATH', 10, 'merge loop + tree hook')


def C16(ctx):
    m = model(ctx.repo)
    for F in _kernels(ctx, m):
        _py_distance_rules(ctx, m, F, ['band'])      # the nearest mean is decided by windowed DTW distances: the band of every distance kernel
    pyshape.rule_kmeans(ctx, m)
    misc.rule_identity(ctx, m, ['dtaidistance.clustering.kmeans', 'dtaidistance.clustering.medoids'])
    misc.rule_mapping_fields(ctx, m, ['dtaidistance.clustering.kmeans', 'dtaidistance.clustering.medoids'])
    with ctx.scoped(has('kmeans')):
        sig.rule_py_to_pyx(ctx, m, ['dtaidistance.clustering.kmeans'])
    # "nearest mean" is decided with dtw_cc.distance / distance_ndim: their option domains (penalty, max_step, max_dist vs. accumulated cost)
    for F in _kernels(ctx, m):
        if F.lang == 'c' and F.name in ('dtw_distance', 'dtw_distance_ndim'):
            _py_distance_rules(ctx, m, F, ['dom'])
    # ... and the options of dists_options reach those distances: Python n-D wrapper, Cython settings object (the helpers pass raw, partial kwargs)
    with ctx.scoped(has('dtw_ndim:distance ', 'dtw_ndim:distance:', ':distance:')):
        fwd.rule_delegation(ctx, m, ['dtaidistance.dtw_ndim'])
    fwd.rule_unused_params(ctx, m, [('dtaidistance.dtw_ndim', 'distance'), ('dtaidistance.dtw_ndim', 'distance_fast')])
    tables.rule_none_zero_encoding(ctx, m)
    pyshape.rule_call_history(ctx, m, pyshape.HISTORY_METHODS['C16'])
    ctx.floor('R-PATH', 6, 'fit path rules + helpers')


def C17(ctx):
    m = model(ctx.repo)
    F = kern2d.load(m, 'dtaidistance.dp', 'dp', consts={'window': ('var', 'W')}, nonnull={'W'})
    kern.rule_band(ctx, F)
    kern2d.rule_rec_nw(ctx, F)
    kern2d.rule_end_cell2d(ctx, F)
    kern.rule_length_diff_exit(ctx, F.name, F.file, F.prologue.events, F.amap, F.outer_line)
    pyshape.rule_alignment_tables(ctx, m)
    pyshape.rule_nw_border(ctx, m)
    pyshape.rule_dp_empty_row(ctx, m)
    misc.rule_identity(ctx, m, ['dtaidistance.alignment', 'dtaidistance.dp'])
    misc.rule_return_arity(ctx, m, [('dtaidistance.dp', 'dp'), ('dtaidistance.alignment', 'needleman_wunsch')])
    ctx.floor('R-REC', 2, 'dp scheme')


def C18(ctx):
    m = model(ctx.repo)
    from .rules import wps
    wps.rule_affinity(ctx, m, tier=ctx.tier)
    with ctx.scoped(has('affinity', 'localconcurrences', 'wps_', 'LocalConcurrences')):
        sig.rule_py_to_pyx(ctx, m, ['dtaidistance.dtw', 'dtaidistance.subsequence.localconcurrences'])
        sig.rule_imports(ctx, m, ['dtaidistance.subsequence.localconcurrences'])
        fwd.rule_delegation(ctx, m, ['dtaidistance.dtw', 'dtaidistance.subsequence.localconcurrences'])
        sig.rule_pyx_to_c(ctx, m)
        sig.rule_c_to_c(ctx, m)
        cshape.rule_scan_init(ctx, m)
    misc.rule_identity(ctx, m, ['dtaidistance.subsequence.localconcurrences'])
    wps.rule_dual(ctx, m)
    pyshape.rule_lc_marks(ctx, m)
    pyshape.rule_lc_trace_stop(ctx, m)
    pyshape.rule_lc_window_mask(ctx, m)
    pyshape.rule_call_history(ctx, m, pyshape.HISTORY_METHODS['C18'])
    cshape.rule_sibling_skeleton(ctx, m, ['dtw_warping_paths_affinity_ndim'])
    wps.rule_wps_readers(ctx, m, affinity=True)
    # cells below the diagonal are blanked (only_triu) inside the row they belong to
    with ctx.scoped(has('affinity')):
        wps.rule_wps_bounds(ctx, m, tier=ctx.tier)
    with ctx.scoped(has('dtw_best_path_affinity')):
        wps.rule_best_path_moves(ctx, m)


def C19(ctx):
    m = model(ctx.repo)
    misc.rule_dispatch(ctx, m, 'dtaidistance.similarity', 'distance_to_similarity', 'method')
    misc.rule_dispatch(ctx, m, 'dtaidistance.similarity', 'squash', 'method')
    from .rules import mon
    mon.rule_similarity(ctx, m)
    mon.rule_squash_zero_offset(ctx, m)
    mon.rule_default_scale(ctx, m)
    mon.rule_squash_derived_sign(ctx, m)
    mon.rule_squash_sign_epilogue(ctx, m)
    mon.rule_cover_quantile(ctx, m)


def C20(ctx):
    m = model(ctx.repo)
    pyshape.rule_py_no_input_stores(ctx, m, ALL_PY + EXTRA_PY)
    cshape.rule_c_no_input_stores(ctx, m)
    cshape.rule_c_settings_readonly(ctx, m)
    pyshape.rule_contiguity(ctx, m, ALL_PY)
    pyshape.rule_series_container(ctx, m)
    pyshape.rule_call_history(ctx, m, pyshape.HISTORY_METHODS['C20'])
    misc.rule_optional_numpy(ctx, m, NUMPY_OPT)
    from .rules import purity
    purity.rule_globals(ctx, m, ALL_PY + EXTRA_PY)
    purity.rule_history(ctx, m)
    with ctx.scoped(has('threshold reset', 'k recorded', 'cache reuse', 'k clamp')):
        pyshape.rule_subseq_search(ctx, m)
    with ctx.scoped(has('row offset advance')):
        cshape.rule_dba_c(ctx, m)                  # matrix container and pointer container must read the same series
    with ctx.scoped(has('pair order', 'kernel must be called', 'kernel call')):
        iterspace.rule_iter_c_serial(ctx, m)       # ... in the distance-matrix routines too: pair (r, c) is (row r, row c) of the array, whatever the container
    ctx.floor('R-EFF', 80, 'Python + C functions with series parameters')
    ctx.floor('R-SAN', 40, 'strided memoryview arguments')


EXPL = {
    'C01': 'Python dtw.distance is an instance of the documented DP scheme: band, three predecessors with penalty on the two non-diagonal ones after '
           'inverting the rolling-buffer map, psi roles, domain conversions, strict pruning, row reset over the whole written row, table lookups by the inner distance in effect; decided symbolically for all lengths/windows/psi.',
    'C02': 'Fact-by-fact agreement of the four C distance kernels with the documented scheme (the same oracle the Python engine is checked against), '
           'domain typing per kernel kind, variant families, pxd/header and call-site role agreement, option encodings, element-major n-D strides, NDEBUG (shipped) configuration = analysed configuration minus asserts. The Python kernel is held to the same band and recurrence; the only_ub short-cut returns the same domain in both engines.',
    'C03': 'PrunedDTW block normal form in every kernel, never pruning on equality; final over-threshold conversion strict and domain-correct; the bound '
           'fed to max_dist belongs to the same inner distance/dimensionality; no round-tripped threshold in the final conversion.',
    'C04': 'Python warping_paths as scheme instance (both keep_int_repr modes); compact C writer per region: predecessors after inverting the region map, '
           'lock-step of wpsi/ci on all paths, inf fill; readers/expanders use the writer column<->position map region by region (regime proofs); pyx direct-matrix decision and identity; exits; return arity; option forwarding. Slice expanders visit exactly the rows of each writer region that lie in the requested slice.',
    'C05': 'Back-tracking step tables are bijections onto the DP predecessors with penalties in the matrix domain; penalty reaches best_path; path arrays '
           'sized l1+l2 and at most one write per strictly decreasing step. The cost-matrix call that feeds a C back-tracker keeps the internal representation and marks the relaxed border on every path; the distance returned next to the path is rooted exactly when it is a squared cost.',
    'C06': 'Symbolic iteration space of all pair enumerators and length functions equals the documented block semantics (values touched only through comparisons). Each series argument of the kernel call addresses element r / c of its container; a column range may not depend on what the previous row left behind.',
    'C07': 'Static sufficient condition for determinism of each parallel for: complete privatisation, single shared output with disjoint slots from the '
           'prefix-sum plan, re-entrant callees; order-preserving pool primitive and pair order in the multiprocessing branches.',
    'C08': 'Allocation/use agreement of compact buffers and index arrays, no accumulator shadowing, n-D stride form, psi-derived index ranges clamped to the '
           'band-sized buffers (bounds obligations with concrete witnesses), compact-layout position bounds per region (column loop and blanked prefix, all four writers). The DP store of every rolling-buffer kernel stays inside its row over the whole band (witness search on the extracted terms); the barycenter update indexes sums and series through the index arrays of their own series.',
    'C09': 'LB_Keogh envelope range equals the DTW band in all three copies, scan accumulators initialised correctly, Euclidean distance padding element and '
           'stride form, only_ub returns the result domain, bound variants match kernel variants. The Python envelope may be an explicit scan: accumulator compared = accumulator updated, start value, else-chained pairs only from an element.',
    'C10': 'Band relation symmetric/monotone/window-1 corollary proved on the extracted band terms; recurrence symmetric in the two non-diagonal steps; psi '
           'roles symmetric; point distances non-negative symmetric forms; mirroring of the triangular result. Result cell and end-relaxation range; the DP value is d + min over the three predecessors.',
    'C11': 'n-D kernels differ from 1-D siblings only in point distance and stride form ((multiple of ndim) + d through local definitions); use_ndim plumbing to every sink; detected_ndim is the number of components of a point; n-D entry points exist. Band and recurrence of the n-D kernels against the univariate scheme.',
    'C12': 'DBA accumulation/mean pairing on every path in C and Python, mask guard and bit order, copy before in-place update, at most max_it updates, '
           'buffer sized for the series actually aligned; **kwargs options reach every alignment call. Index-array roles of the C update; representation of the matrix the path routines read; path arguments after expanding option-forwarding helpers.',
    'C13': 'psi encoding of subsequence DTW, identical options in the four engines, single domain conversion of the matching function, internal-domain penalty '
           'for back-tracking, writes-only-upper-bounds in the best-first iterator. Recurrence of both cost-matrix engines (the matching function is their last row).',
    'C14': 'Candidate loop as path/typestate problem: LB only when valid, strict comparators, threshold follows the heap root, distances defined on every path, cache typestate; LB_Keogh envelope window = DTW band in both engines. Final over-threshold conversion of the kernels strict and in the result domain.',
    'C15': 'Merge loop writes only +inf into the matrix, guard dominates merges and the minimum is recomputed on every path back; blanking covers the merged '
           'series; linkage hook appends one row per merge; SciPy condensed order. max_dist among the options: final over-threshold conversion of the kernels strict and in the result domain; pair addressing of the C enumerators.',
    'C16': 'Final assignment post-dominates the last write of the means; partition construction; iteration counter; nearest-mean helpers as siblings; seeding blocks; option domains of the C distances that decide "nearest"; the options dict is used through the mapping interface only (no attribute access on a field that is expanded with **).',
    'C17': 'dp.dp is a scheme instance with per-pair (substitution, indel) costs applied as fn(s1[i], s2[j]); arrow table agreement writer/reader; gap emission; negation of value and matrix together; border gap cost = indel cost of the substitution function; the no-cell-under-max_dist exit cannot fire on an empty row. Arrow recording decided on the 13 order types of the three candidate scores.',
    'C18': 'Affinity recurrence normal form in Python and the C region expansions, option forwarding (also for iterated, non-returned wrapping calls), entry points, identity tests, scan initialisers, negativize/positivize duality, consumed-cell marks idempotent and undone by the reset; the cells blanked below the diagonal (only_triu) stay inside their row. Trace of a match ends at a non-positive cell; clip at zero on both arms of the tau test in every region; slice expanders cover their rows.',
    'C19': 'Dispatch chains, monotonicity/range calculus per arm, reported-parameter completeness, documented formula agreement, keep_sign offset Xz = f(0) in every branch (closed forms normalised with sympy). Sign of the quantile-derived slope on a grid of consistent calibrations.',
    'C20': 'No store through series parameters in Python or C, contiguity before raw pointers, private container storage, optional-NumPy symmetry, module state and per-object history. Distance-matrix routines address row r / c of a 2-D array exactly as the pointer container does.',
}

C_ENGINE_PROPS = {'C02', 'C03', 'C04', 'C05', 'C06', 'C07', 'C08', 'C09', 'C10', 'C11', 'C12', 'C18', 'C20'}


def _with_thorough(pid, fn):
    """Thorough tier = the quick rules plus, for every property that rests on the C engine, the whole-engine closure: build-configuration
    invariance of all four library translation units (NDEBUG, the shipped configuration) and the squared/euclidean sibling comparison of all
    ten kernel families (cross-reference notes)."""
    def run(ctx):
        fn(ctx)
        if ctx.tier == 'thorough' and pid in C_ENGINE_PROPS:
            m = model(ctx.repo)
            have = {o['instance'] for o in ctx.obligations if o['rule'] == 'R-CFG'}
            if not have:
                cshape.rule_config_invariance(ctx, m)
            cshape.rule_sibling_skeleton(ctx, m)
    return run


PROPS = {k: (_with_thorough(k, globals()[k]), EXPL[k]) for k in EXPL}
