"""Per-property rule sets (DESIGN section 5)."""
from .model import model
from .rules import sig, fwd, misc, kern, kern2d, iterspace

ALL_PY = ['dtaidistance.dtw', 'dtaidistance.dtw_ndim', 'dtaidistance.ed', 'dtaidistance.dtw_barycenter',
          'dtaidistance.subsequence.subsequencealignment', 'dtaidistance.subsequence.subsequencesearch',
          'dtaidistance.subsequence.localconcurrences', 'dtaidistance.clustering.kmeans',
          'dtaidistance.clustering.hierarchical', 'dtaidistance.clustering.medoids', 'dtaidistance.util']


def _tmp(ctx):
    m = model(ctx.repo)
    iterspace.rule_iter_python(ctx, m)
    iterspace.rule_iter_c_serial(ctx, m)
    iterspace.rule_omp(ctx, m)
    iterspace.rule_iter_pyx(ctx, m)
    iterspace.rule_mp_order(ctx, m)


PROPS = {'T00': (_tmp, 'scratch')}
