"""Per-property rule sets (DESIGN section 5)."""
from .model import model
from .rules import sig, fwd, misc, kern

ALL_PY = ['dtaidistance.dtw', 'dtaidistance.dtw_ndim', 'dtaidistance.ed', 'dtaidistance.dtw_barycenter',
          'dtaidistance.subsequence.subsequencealignment', 'dtaidistance.subsequence.subsequencesearch',
          'dtaidistance.subsequence.localconcurrences', 'dtaidistance.clustering.kmeans',
          'dtaidistance.clustering.hierarchical', 'dtaidistance.clustering.medoids', 'dtaidistance.util']


def _tmp(ctx):
    m = model(ctx.repo)
    for F in kern.load_kernels(m):
        kern.rule_band(ctx, F)
        kern.rule_recurrence(ctx, F)
        kern.rule_prune(ctx, F)
        kern.rule_psi(ctx, F)
        kern.rule_clamp(ctx, F)
        if F.lang == 'c':
            kern.rule_dom_c(ctx, F)


PROPS = {'T00': (_tmp, 'scratch')}
