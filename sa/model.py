"""Whole-program model: lazily loaded front-end results for one repository tree."""
import os
from . import cfront, pyfront, pyxfront
from .ir import walk_stmts, stmt_exprs, walk_expr, callee_name


class Model:
    def __init__(self, repo):
        self.repo = repo

    # C translation units (build configuration: -fopenmp, asserts on)
    def c(self, fname='dd_dtw.c', defines=(), openmp=True):
        return cfront.unit(self.repo, fname, defines, openmp)

    def cfunc(self, name):
        for f in ('dd_dtw.c', 'dd_ed.c', 'dd_dtw_openmp.c'):
            u = self.c(f)
            if name in u.funcs:
                return u.funcs[name]
        return None

    def all_cfuncs(self):
        out = {}
        for f in ('dd_dtw.c', 'dd_ed.c', 'dd_dtw_openmp.c'):
            out.update(self.c(f).funcs)
        return out

    def cproto(self, name):
        """Prototype as the C compiler sees it (header), falling back to the definition."""
        for f in ('dd_dtw.c', 'dd_ed.c', 'dd_dtw_openmp.c'):
            u = self.c(f)
            if name in u.protos:
                return u.protos[name]
        return self.cfunc(name)

    def py(self, name):
        return pyfront.module(self.repo, name)

    def pyx(self, name):
        return pyxfront.module(self.repo, name)

    def cfile(self, fname):
        return os.path.join(cfront.c_dir(self.repo), fname)


_MODELS = {}


def model(repo):
    if repo not in _MODELS:
        _MODELS[repo] = Model(repo)
    return _MODELS[repo]


def calls_in(stmts):
    """Yield (stmt, call expr) for every call expression in the statements (nested blocks included)."""
    for s in walk_stmts(stmts):
        for e in stmt_exprs(s):
            for sub in walk_expr(e):
                if sub[0] == 'call':
                    yield s, sub
