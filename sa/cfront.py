"""C front end: clang-14 JSON AST -> mini-IR (sa.ir).

The translation unit is parsed with the build's include path plus an empty omp.h stub and
-fopenmp, so `#pragma omp parallel for` arrives as OMPParallelForDirective.  Macros arrive
expanded; MIN/MAX are re-recognised structurally by sa.sym (never by macro name).
Nothing of the repository is executed.
"""
import hashlib
import json
import os
import pickle
import re
import subprocess
import sys

from .ir import S, mk_cmp, mk_if, mk_cond, canon_cond

VERIF = os.path.dirname(os.path.dirname(os.path.abspath(__file__)))
CACHE = os.environ.get('VERIF_CACHE') or os.path.join(VERIF, '.cache')
INF = float('inf')


def _canon_counted_while(stmts):
    """`[v = lo;] while (v < hi) { body; v++; rest }` with rest not mentioning v, v assigned nowhere else in the body and no `continue`
    ==> the counted `for` that `for ([v = lo]; v < hi; v++) { body; rest }` produces: one loop form for all rules."""
    from .ir import walk_stmts, walk_expr, stmt_exprs
    out = list(stmts)
    for k, w in enumerate(out):
        if w.k != 'while' or w.d.get('do'):
            continue
        c = w.cond
        if c is None or not (c[0] == 'bin' and c[1] in ('<', '<=') and c[2][0] == 'var') or not w.body:
            continue
        v = c[2]
        if any(x == v for x in walk_expr(c[3])):
            continue
        incs = [q for q, t in enumerate(w.body) if t.k == 'assign' and t.target == v and t.aug == '+' and t.value[0] == 'bin' and t.value[2] == v]
        if len(incs) != 1:
            continue
        q = incs[0]
        rest = w.body[q + 1:]
        if any(x == v for t in walk_stmts(rest) for e in stmt_exprs(t) for x in walk_expr(e)):
            continue
        body = w.body[:q] + rest
        if any(t.k == 'continue' for t in walk_stmts(body)) or any(t.k == 'assign' and t.target == v for t in walk_stmts(body)):
            continue
        lo = None
        drop = None
        if k > 0 and out[k - 1].k == 'assign' and out[k - 1].target == v and out[k - 1].aug is None:
            lo, drop = out[k - 1].value, k - 1
        out[k] = S('for', w.line, var=v[1], lo=lo, hi=c[3], step=w.body[q].value[3], body=body, inclusive=(c[1] == '<='), declares=False)
        if drop is not None:
            del out[drop]
        return _canon_counted_while(out)
    return out


class CFunc:
    def __init__(self, name, file, line, rtype, params, body, proto_only):
        self.name = name
        self.file = file
        self.line = line
        self.rtype = rtype
        self.params = params      # [(name, ctype)]
        self.body = body          # [S] or None
        self.proto_only = proto_only
        self.shadows = []         # [(name, inner_line, outer_line, ir_name)]
        self.locals = {}          # ir name -> ctype
        self.calls = []           # [(callee name, line, args(expr tuple))]
        self.is_static = False

    def __repr__(self):
        return 'CFunc(%s)' % self.name


class CUnit:
    def __init__(self, path):
        self.path = path
        self.funcs = {}        # name -> CFunc (definitions in this file)
        self.protos = {}       # name -> CFunc (prototypes visible: from headers of the C dir)
        self.structs = {}      # name -> [(field, ctype)]
        self.globals = {}      # name -> (ctype, line, is_static)
        self.omp_regions = []  # [(func name, S omp)]
        self.source = ''
        self.flags = ()


class AnalysisError(Exception):
    pass


def c_dir(repo):
    return os.path.join(repo, 'src', 'DTAIDistanceC', 'DTAIDistanceC')


def _digest(paths, extra):
    h = hashlib.sha256()
    for p in sorted(paths):
        h.update(p.encode())
        with open(p, 'rb') as f:
            h.update(f.read())
    h.update(repr(extra).encode())
    with open(os.path.abspath(__file__), 'rb') as f:
        h.update(f.read())
    with open(os.path.join(os.path.dirname(os.path.abspath(__file__)), 'ir.py'), 'rb') as f:
        h.update(f.read())
    return h.hexdigest()[:24]


def load_unit(repo, fname, defines=(), openmp=True, use_cache=True):
    """Parse one translation unit of the C engine and return a CUnit."""
    d = c_dir(repo)
    path = os.path.join(d, fname)
    if not os.path.exists(path):
        raise AnalysisError('anchor vanished: %s' % path)
    deps = [os.path.join(d, f) for f in os.listdir(d) if f.endswith('.h')] + [path]
    key = _digest(deps, (fname, tuple(defines), openmp))
    cpath = os.path.join(CACHE, 'c_%s_%s.pkl' % (fname.replace('.', '_'), key))
    if use_cache and os.path.exists(cpath):
        try:
            with open(cpath, 'rb') as f:
                return pickle.load(f)
        except Exception:
            pass
    cmd = ['clang', '-I', d, '-I', os.path.join(VERIF, 'stubs'), '-fsyntax-only', '-Xclang', '-ast-dump=json']
    if openmp:
        cmd.append('-fopenmp')
    for df in defines:
        cmd.append('-D' + df)
    cmd.append(path)
    p = subprocess.run(cmd, stdout=subprocess.PIPE, stderr=subprocess.PIPE)
    if p.returncode != 0:
        raise AnalysisError('clang failed on %s: %s' % (fname, p.stderr.decode(errors='replace')[:2000]))
    tree = json.loads(p.stdout)
    unit = _convert_unit(tree, path, d)
    unit.flags = (tuple(defines), openmp)
    if use_cache:
        os.makedirs(CACHE, exist_ok=True)
        tmp = cpath + '.%d.tmp' % os.getpid()
        with open(tmp, 'wb') as f:
            pickle.dump(unit, f, protocol=pickle.HIGHEST_PROTOCOL)
        os.replace(tmp, cpath)
    return unit


# ------------------------------------------------------------------------------------------
# location resolution: clang's JSON omits `line`/`file` when unchanged from the previous
# location it printed, in document order.

class _Loc:
    def __init__(self):
        self.line = None
        self.file = None

    def feed(self, loc):
        """loc: a dict with offset/line/col (or spellingLoc/expansionLoc). Returns (file, line)."""
        if not isinstance(loc, dict) or not loc:
            return (self.file, self.line)
        if 'spellingLoc' in loc or 'expansionLoc' in loc:
            sp = loc.get('spellingLoc')
            ex = loc.get('expansionLoc')
            if sp:
                self._one(sp)
            r = (self.file, self.line)
            if ex:
                r = self._one(ex)
            return r
        return self._one(loc)

    def _one(self, loc):
        if 'file' in loc:
            self.file = loc['file']
        if 'line' in loc:
            self.line = loc['line']
        if 'includedFrom' in loc and 'file' not in loc:
            pass
        return (self.file, self.line)


def _annotate(node, L):
    """Annotate nodes with _file/_line (of range.begin) in document order."""
    if not isinstance(node, dict):
        return
    fl = None
    if 'loc' in node:
        fl = L.feed(node['loc'])
        node['_locfile'], node['_locline'] = fl
    if 'range' in node:
        b = L.feed(node['range'].get('begin'))
        node['_file'], node['_line'] = b
        e = L.feed(node['range'].get('end'))
        node['_endline'] = e[1]
    elif fl is not None:
        node['_file'], node['_line'] = fl
    for c in node.get('inner', ()):
        _annotate(c, L)


# ------------------------------------------------------------------------------------------

_SKIP = ('ImplicitCastExpr', 'ParenExpr', 'CStyleCastExpr', 'ConstantExpr')


class _FnConv:
    def __init__(self, unit, fn):
        self.unit = unit
        self.fn = fn
        self.names = {}     # decl id -> ir name
        self.scopes = [{}]  # name -> (id, line)
        self.counter = {}

    # --- scopes -------------------------------------------------------------------------
    def declare(self, node):
        name = node.get('name', '?')
        did = node.get('id')
        outer = None
        for sc in self.scopes[:-1]:
            if name in sc:
                outer = sc[name]
        irname = name
        if outer is not None or name in self.scopes[-1]:
            n = self.counter.get(name, 1) + 1
            self.counter[name] = n
            irname = '%s#%d' % (name, n)
            if outer is not None:
                self.fn.shadows.append((name, node.get('_line'), outer[1], irname))
        self.scopes[-1][name] = (did, node.get('_line'))
        self.names[did] = irname
        self.fn.locals[irname] = node.get('type', {}).get('qualType', '')
        return irname

    # --- expressions --------------------------------------------------------------------
    def expr(self, n):
        if not isinstance(n, dict) or not n:
            return None
        k = n.get('kind')
        if k in _SKIP:
            return self.expr(n['inner'][0])
        if k == 'DeclRefExpr':
            rd = n.get('referencedDecl', {})
            did = rd.get('id')
            if did in self.names:
                return ('var', self.names[did])
            return ('var', rd.get('name', '?'))
        if k == 'IntegerLiteral':
            return ('num', int(n['value']))
        if k == 'FloatingLiteral':
            return ('num', float(n['value']))
        if k == 'CharacterLiteral':
            return ('num', int(n['value']))
        if k == 'StringLiteral':
            return ('str', n.get('value', ''))
        if k == 'BinaryOperator':
            op = n['opcode']
            a, b = n['inner']
            if op == '=':
                return ('other', 'assign-in-expr')
            if op == ',':
                return ('other', 'comma')
            op = {'&&': 'and', '||': 'or'}.get(op, op)
            return mk_cmp(op, self.expr(a), self.expr(b))
        if k == 'CompoundAssignOperator':
            return ('other', 'compound-assign-in-expr')
        if k == 'UnaryOperator':
            op = n['opcode']
            a = self.expr(n['inner'][0])
            if op == '-':
                if a is not None and a[0] == 'num':
                    return ('num', -a[1])
                return ('un', 'neg', a)
            if op == '+':
                return a
            if op == '!':
                return ('un', 'not', a)
            if op == '~':
                return ('un', 'inv', a)
            if op == '&':
                return ('un', 'addr', a)
            if op == '*':
                return ('un', 'deref', a)
            if op == '__extension__':
                return a
            if op in ('++', '--'):
                return ('other', 'incdec-in-expr')
            return ('other', 'unary ' + op)
        if k == 'ConditionalOperator':
            c, a, b = n['inner']
            return mk_cond(self.expr(c), self.expr(a), self.expr(b))
        if k == 'MemberExpr':
            return ('attr', self.expr(n['inner'][0]), n.get('name', '?'))
        if k == 'ArraySubscriptExpr':
            return ('idx', self.expr(n['inner'][0]), self.expr(n['inner'][1]))
        if k == 'CallExpr':
            callee = self.expr(n['inner'][0])
            args = tuple(self.expr(a) for a in n['inner'][1:])
            if callee and callee[0] == 'var':
                nm = callee[1]
                if nm in ('__builtin_inff', '__builtin_inf', '__builtin_huge_valf', '__builtin_huge_val') and not args:
                    return ('num', INF)
                if nm in ('__builtin_nanf', '__builtin_nan'):
                    return ('num', float('nan'))
                self.fn.calls.append((nm, n.get('_line'), args))
            return ('call', callee, args, ())
        if k == 'UnaryExprOrTypeTraitExpr':
            t = n.get('argType', {}).get('qualType')
            if t is None and n.get('inner'):
                t = n['inner'][0].get('type', {}).get('qualType', '?')
            return ('call', ('var', n.get('name', 'sizeof')), (('other', t),), ())
        if k == 'InitListExpr':
            return ('list', tuple(self.expr(c) for c in n.get('inner', ()) if c.get('kind') != 'ImplicitValueInitExpr'))
        if k == 'DesignatedInitExpr':
            return ('other', 'designated')
        if k == 'ImplicitValueInitExpr':
            return ('num', 0)
        if k == 'StmtExpr':
            return ('other', 'stmtexpr')
        if k == 'CompoundLiteralExpr':
            return self.expr(n['inner'][0])
        if k == 'PredefinedExpr':
            return ('str', '__func__')
        return ('other', k or '?')

    # --- statements ---------------------------------------------------------------------
    def block(self, n):
        """n: a statement node -> list of S."""
        if not isinstance(n, dict) or not n:
            return []
        if n.get('kind') == 'CompoundStmt':
            self.scopes.append({})
            out = []
            for c in n.get('inner', ()):
                out.extend(self.stmt(c))
            self.scopes.pop()
            return _canon_counted_while(out)
        return self.stmt(n)

    def _assert(self, n):
        """Recognise glibc's assert expansion; return cond expr or None."""
        # ((void) sizeof ((e) ? 1 : 0), __extension__ ({ if (e) ; else __assert_fail (...); }))
        node = n
        while node.get('kind') in _SKIP:
            node = node['inner'][0]
        if node.get('kind') == 'BinaryOperator' and node.get('opcode') == ',':
            rhs = node['inner'][1]
            while rhs.get('kind') in _SKIP or (rhs.get('kind') == 'UnaryOperator' and rhs.get('opcode') == '__extension__'):
                rhs = rhs['inner'][0]
            if rhs.get('kind') == 'StmtExpr':
                comp = rhs['inner'][0]
                for c in comp.get('inner', ()):
                    if c.get('kind') == 'IfStmt' and '__assert_fail' in json.dumps(c)[:100000]:
                        return self.expr(c['inner'][0])
        if node.get('kind') == 'ConditionalOperator':
            txt = json.dumps(node['inner'][2])[:20000]
            if '__assert_fail' in txt:
                return self.expr(node['inner'][0])
        return None

    def stmt(self, n):
        if not isinstance(n, dict) or not n:
            return []
        k = n.get('kind')
        line = n.get('_line')
        if k == 'CompoundStmt':
            return [S('block', line, body=self.block(n))] if False else self.block(n)
        if k == 'DeclStmt':
            out = []
            for v in n.get('inner', ()):
                if v.get('kind') == 'VarDecl':
                    init = None
                    if v.get('inner'):
                        cand = [c for c in v['inner'] if c.get('kind') not in ('FullComment',)]
                        if cand and 'init' in v:
                            init = self.expr(cand[-1])
                    nm = self.declare(v)
                    st = S('decl', v.get('_line') or line, name=nm, init=init,
                           ctype=v.get('type', {}).get('qualType', ''),
                           static=(v.get('storageClass') == 'static'))
                    out.append(st)
            return out
        if k == 'NullStmt':
            return []
        if k == 'IfStmt':
            inner = n['inner']
            cond = self.expr(inner[0])
            then = self.block(inner[1]) if len(inner) > 1 else []
            els = self.block(inner[2]) if len(inner) > 2 else []
            return [mk_if(line, cond, then, els)]
        if k == 'ForStmt':
            fs_ = self.for_stmt(n)
            return getattr(self, 'pending_pre', {}).pop(id(fs_), []) + [fs_]
        if k == 'WhileStmt':
            inner = n['inner']
            return [S('while', line, cond=self.expr(inner[0]), body=self.block(inner[-1]))]
        if k == 'DoStmt':
            inner = n['inner']
            return [S('while', line, cond=self.expr(inner[1]), body=self.block(inner[0]), do=True)]
        if k == 'ReturnStmt':
            v = self.expr(n['inner'][0]) if n.get('inner') else None
            return [S('return', line, value=v)]
        if k == 'BreakStmt':
            return [S('break', line)]
        if k == 'ContinueStmt':
            return [S('continue', line)]
        if k == 'OMPParallelForDirective':
            return [self.omp(n)]
        if k and k.startswith('OMP'):
            raise AnalysisError('unrecognised OpenMP construct %s in %s line %s' % (k, self.fn.name, line))
        if k in ('SwitchStmt', 'GotoStmt', 'LabelStmt', 'IndirectGotoStmt'):
            return [S('unsupported', line, what=k)]
        # expression statements
        return self.expr_stmt(n, line)

    def expr_stmt(self, n, line):
        node = n
        while node.get('kind') in _SKIP:
            node = node['inner'][0]
        k = node.get('kind')
        if k == 'BinaryOperator' and node.get('opcode') == '=':
            return [S('assign', line, target=self.expr(node['inner'][0]), value=self.expr(node['inner'][1]), aug=None)]
        if k == 'CompoundAssignOperator':
            op = node['opcode'][:-1]
            t = self.expr(node['inner'][0])
            return [S('assign', line, target=t, value=('bin', op, t, self.expr(node['inner'][1])), aug=op)]
        if k == 'UnaryOperator' and node.get('opcode') in ('++', '--'):
            t = self.expr(node['inner'][0])
            op = '+' if node['opcode'] == '++' else '-'
            return [S('assign', line, target=t, value=('bin', op, t, ('num', 1)), aug=op)]
        if k == 'BinaryOperator' and node.get('opcode') == ',':
            a = self._assert(node)
            if a is not None:
                return [S('assert', line, cond=a)]
            return self.expr_stmt(node['inner'][0], line) + self.expr_stmt(node['inner'][1], line)
        if k == 'ConditionalOperator':
            a = self._assert(node)
            if a is not None:
                return [S('assert', line, cond=a)]
        return [S('expr', line, value=self.expr(node))]

    def for_stmt(self, n):
        line = n.get('_line')
        init, _condvar, cond, inc, body = (n['inner'] + [{}] * 5)[:5]
        self.scopes.append({})
        init_s = self.stmt(init) if init else []
        cond_e = self.expr(cond) if cond else None
        inc_s = self.expr_stmt(inc, line) if inc else []
        body_s = self.block(body)
        self.scopes.pop()
        # `for (k = 0; c < hi; c++, k++)`: a second counter advanced in lock step is the same loop with `k++` as the last statement of the body (no
        # `continue` in it) and its initialisation in front of the loop -- one loop form for the rules
        pre_s = []
        if cond_e is not None and cond_e[0] == 'bin' and cond_e[1] in ('<', '<=') and cond_e[2][0] == 'var' and len(inc_s) == 2 \
                and all(t.k == 'assign' and t.target[0] == 'var' and t.aug in ('+',) for t in inc_s) \
                and not any(t.k == 'continue' for t in walk_stmts_(body_s)):
            main = [t for t in inc_s if t.target == cond_e[2]]
            other = [t for t in inc_s if t.target != cond_e[2]]
            if len(main) == 1 and len(other) == 1:
                ov = other[0].target
                keep_init = [t for t in init_s if not ((t.k == 'assign' and t.target == ov) or (t.k == 'decl' and t.name == ov[1]))]
                moved = [t for t in init_s if t not in keep_init]
                if all(t.k == 'assign' for t in moved) and len(keep_init) <= 1:
                    pre_s, init_s, inc_s, body_s = moved, keep_init, main, body_s + other
        # canonical counted loop?
        var = None
        lo = None
        ok = True
        if len(init_s) == 1 and init_s[0].k == 'assign' and init_s[0].target[0] == 'var' and init_s[0].aug is None:
            var, lo = init_s[0].target[1], init_s[0].value
        elif len(init_s) == 1 and init_s[0].k == 'decl' and init_s[0].init is not None:
            var, lo = init_s[0].name, init_s[0].init
        elif len(init_s) == 0:
            var, lo = None, None
        else:
            ok = False
        step = None
        if ok and len(inc_s) == 1 and inc_s[0].k == 'assign' and inc_s[0].aug in ('+',) and inc_s[0].target[0] == 'var':
            iv = inc_s[0].target[1]
            if var is None:
                var = iv
            if iv != var:
                ok = False
            step = inc_s[0].value[3]
        else:
            ok = False
        hi = None
        inclusive = False
        if ok and cond_e is not None and cond_e[0] == 'bin' and cond_e[1] in ('<', '<=') and cond_e[2] == ('var', var):
            hi = cond_e[3]
            inclusive = cond_e[1] == '<='
        else:
            ok = False
        if ok and inclusive and step in (None, ('num', 1)):
            hi, inclusive = ('bin', '+', hi, ('num', 1)), False         # `v <= hi` with a unit step is `v < hi + 1`: one loop form
        if ok:
            res = S('for', line, var=var, lo=lo, hi=hi, step=step, body=body_s, inclusive=inclusive,
                    declares=(len(init_s) == 1 and init_s[0].k == 'decl'))
        else:
            res = S('loop', line, init=init_s, cond=cond_e, inc=inc_s, body=body_s)
        if pre_s:
            self.pending_pre = getattr(self, 'pending_pre', {})
            self.pending_pre[id(res)] = pre_s
        return res

    def omp(self, n):
        line = n.get('_line')
        rng = n.get('range', {})
        b = rng.get('begin', {}).get('offset')
        e = rng.get('end', {}).get('offset')
        text = ''
        if b is not None and e is not None:
            # extend to the physical end of the (possibly continued) pragma line
            src = self.unit.source
            ls = src.rfind('\n', 0, b) + 1
            le = e
            while True:
                nl = src.find('\n', le)
                if nl < 0:
                    nl = len(src)
                if src[le:nl].rstrip().endswith('\\'):
                    le = nl + 1
                    continue
                le = nl
                break
            text = src[ls:le].replace('\\\n', ' ')
        clauses = {}
        for m in re.finditer(r'([a-z_]+)\s*\(([^)]*)\)', text):
            clauses.setdefault(m.group(1), []).append([x.strip() for x in m.group(2).split(',')])
        forstmt = None
        captured = []
        seen_cap = False
        for c in n.get('inner', ()):
            if c.get('kind') == 'CapturedStmt':
                seen_cap = True
                cd = c['inner'][0]
                for cc in cd.get('inner', ()):
                    if cc.get('kind') == 'ForStmt':
                        forstmt = self.for_stmt(cc)
                        break
                    if cc.get('kind') == 'CompoundStmt':
                        raise AnalysisError('unrecognised OpenMP body shape in %s' % self.fn.name)
            elif seen_cap and c.get('kind') == 'DeclRefExpr':
                captured.append(c.get('referencedDecl', {}).get('name'))
        if forstmt is None:
            raise AnalysisError('OpenMP parallel for without a for statement in %s line %s' % (self.fn.name, line))
        st = S('omp', line, pragma=text.strip(), clauses=clauses, captured=captured, body=[forstmt])
        self.unit.omp_regions.append((self.fn.name, st))
        return st


def _convert_unit(tree, path, cdir):
    unit = CUnit(path)
    with open(path, 'r', errors='replace') as f:
        unit.source = f.read()
    _annotate(tree, _Loc())
    real = os.path.realpath(path)
    for node in tree.get('inner', ()):
        k = node.get('kind')
        f = node.get('_locfile') or node.get('_file')
        if f is None:
            continue
        rf = os.path.realpath(f) if os.path.isabs(f) else os.path.realpath(os.path.join(os.getcwd(), f))
        in_main = rf == real
        in_dir = os.path.dirname(rf) == os.path.realpath(cdir)
        if not (in_main or in_dir):
            continue
        if k == 'FunctionDecl':
            name = node.get('name')
            params = []
            body = None
            for c in node.get('inner', ()):
                if c.get('kind') == 'ParmVarDecl':
                    params.append((c.get('name', ''), c.get('type', {}).get('qualType', '')))
                elif c.get('kind') == 'CompoundStmt':
                    body = c
            qt = node.get('type', {}).get('qualType', '')
            rtype = qt.split('(')[0].strip()
            fn = CFunc(name, rf, node.get('_locline') or node.get('_line'), rtype, params, None, body is None)
            fn.is_static = node.get('storageClass') == 'static'
            if body is None:
                if name not in unit.protos:
                    unit.protos[name] = fn
                continue
            if not in_main:
                continue
            conv = _FnConv(unit, fn)
            for c in node.get('inner', ()):
                if c.get('kind') == 'ParmVarDecl':
                    conv.declare(c)
            fn.body = conv.block(body)
            fn.endline = node.get('_endline')
            unit.funcs[name] = fn
        elif k == 'RecordDecl':
            nm = node.get('name')
            fields = [(c.get('name'), c.get('type', {}).get('qualType', '')) for c in node.get('inner', ()) if c.get('kind') == 'FieldDecl']
            if fields:
                unit.structs[nm or ('anon@%s' % node.get('_line'))] = fields
                unit._last_record = fields
        elif k == 'TypedefDecl':
            nm = node.get('name')
            t = node.get('type', {}).get('qualType', '')
            if t.startswith('struct ') and getattr(unit, '_last_record', None) is not None:
                unit.structs.setdefault(nm, unit._last_record)
        elif k == 'VarDecl':
            unit.globals[node.get('name')] = (node.get('type', {}).get('qualType', ''), node.get('_line'),
                                              node.get('storageClass') == 'static', in_main)
    if hasattr(unit, '_last_record'):
        del unit._last_record
    return unit


_UNITS = {}


def unit(repo, fname, defines=(), openmp=True):
    key = (repo, fname, tuple(defines), openmp)
    if key not in _UNITS:
        u = _expand_new_helpers(load_unit(repo, fname, defines, openmp), fname)
        from .canon import canon_body
        from . import alpha
        for q_, f in u.funcs.items():
            if f.body is not None:
                prm_ = [p_[0] for p_ in f.params]
                from .canon import split_cond_assigns
                b_ = alpha.recover(fname, q_, prm_, split_cond_assigns(f.body))
                if alpha.LAST_RENAMING:
                    f.locals = {alpha.LAST_RENAMING.get(k_, k_): v_ for k_, v_ in f.locals.items()}       # the declared types follow the names
                f.body = canon_body(alpha.absorb_new_locals(fname, q_, prm_, b_))
                # the call list is a view of the (normalised) body
                from .ir import walk_expr as _we, stmt_exprs as _se, dotted as _dt
                f.calls = [(_dt(x[1]), st_.line, x[2]) for st_ in walk_stmts_(f.body) for e_ in _se(st_) for x in _we(e_) if x[0] == 'call' and _dt(x[1])]
        # the OpenMP regions are statements of the (expanded, canonical) bodies
        u.omp_regions = [(q, st) for q, f in u.funcs.items() if f.body is not None for st in walk_stmts_(f.body) if st.k == 'omp']
        _UNITS[key] = u
    return _UNITS[key]


def walk_stmts_(stmts):
    from .ir import walk_stmts
    return walk_stmts(stmts)


def _expand_new_helpers(u, fname):
    """Expand, in every function of the unit, the calls to functions of the same unit that are not part of the baseline tree (see inline.py)."""
    from . import inline
    base = inline.baseline().get(fname)
    if base is None or all(q in base for q in u.funcs):
        return u
    raw = {q: f.body for q, f in u.funcs.items()}

    def resolve(call):
        c = call[1]
        if c[0] != 'var' or c[1] in base:
            return None
        g = u.funcs.get(c[1])
        if g is None or raw.get(c[1]) is None:
            return None
        return (c[1], [p[0] for p in g.params], {}, raw[c[1]], None, dict(g.params))
    for q, f in u.funcs.items():
        if f.body is None:
            continue
        ex = inline.Expander(resolve, 'c')
        try:
            f.body = ex.block(raw[q])
        except RecursionError:
            f.body = raw[q]
    return u


if __name__ == '__main__':
    from .ir import fmt
    repo = os.environ.get('VERIF_REPO', '/repo')
    u = load_unit(repo, sys.argv[1], use_cache=False)
    print(len(u.funcs), 'functions;', len(u.protos), 'prototypes;', list(u.structs))
    if len(sys.argv) > 2:
        from .dump import dump
        dump(u.funcs[sys.argv[2]].body)
