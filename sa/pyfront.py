"""Python front end: stdlib ast -> mini-IR.  Nothing is imported or executed."""
import ast
import os

from .ir import S, walk_stmts, walk_expr, stmt_exprs, sub_blocks, mk_cmp, mk_if, mk_cond, canon_cond

INF = float('inf')


class PyFunc:
    def __init__(self, module, qual, node, cls=None):
        self.module = module
        self.qual = qual            # 'distance' or 'DTWSettings.split_psi'
        self.name = node.name
        self.cls = cls
        self.node = node
        self.line = node.lineno
        a = node.args
        self.posonly = [x.arg for x in a.posonlyargs]
        self.args = [x.arg for x in a.posonlyargs + a.args]
        nd = len(a.defaults)
        self.defaults = {}
        for x, d in zip((a.posonlyargs + a.args)[len(self.args) - nd:], a.defaults):
            self.defaults[x.arg] = conv_expr(d)
        self.kwonly = [x.arg for x in a.kwonlyargs]
        for x, d in zip(a.kwonlyargs, a.kw_defaults):
            if d is not None:
                self.defaults[x.arg] = conv_expr(d)
        self.vararg = a.vararg.arg if a.vararg else None
        self.kwarg = a.kwarg.arg if a.kwarg else None
        self.decorators = [conv_expr(d) for d in node.decorator_list]
        self.doc = ast.get_docstring(node)
        self._body = None
        self._raw = None

    @property
    def raw_body(self):
        if self._raw is None:
            self._raw = conv_block(self.node.body)
        return self._raw

    @property
    def body(self):
        if self._body is None:
            from .canon import canon_body
            from . import alpha
            from .canon import split_cond_assigns
            b_ = alpha.recover(self.module.name, self.qual, self.all_params, split_cond_assigns(_expand_new_helpers(self)))
            self._body = canon_body(alpha.absorb_new_locals(self.module.name, self.qual, self.all_params, b_))
        return self._body

    @property
    def all_params(self):
        return self.args + ([self.vararg] if self.vararg else []) + self.kwonly + ([self.kwarg] if self.kwarg else [])

    def __repr__(self):
        return 'PyFunc(%s.%s)' % (self.module.name, self.qual)


def _expand_new_helpers(f):
    """Body of f with the calls to same-module functions that are not part of the baseline tree expanded (see inline.py)."""
    from . import inline
    mod = f.module
    base = inline.baseline().get(mod.name)
    raw = f.raw_body
    if base is None or all(q in base for q in mod.funcs):
        return raw

    def resolve(call):
        c = call[1]
        cand = []
        self_arg = None
        if c[0] == 'var':
            scope = f.qual
            while True:
                cand.append(scope + '.<locals>.' + c[1])
                if '.<locals>.' not in scope:
                    break
                scope = scope.rsplit('.<locals>.', 1)[0]
            cand.append(c[1])
        elif c[0] == 'attr' and c[1] in (('var', 'self'), ('var', 'cls')) and f.cls:
            cand.append(f.cls + '.' + c[2])
            self_arg = c[1]
        elif c[0] == 'attr' and c[1][0] == 'var' and c[1][1] in mod.classes:
            cand.append(c[1][1] + '.' + c[2])
        for q in cand:
            g = mod.funcs.get(q)
            if g is None:
                continue
            if q in base or g is f or g.vararg or g.decorators and not all(d == ('var', 'staticmethod') for d in g.decorators):
                return None
            if g.kwarg and _touches_dict(g.node, g.kwarg):
                return None
            if any(isinstance(x, (ast.Yield, ast.YieldFrom, ast.Nonlocal, ast.Global)) for x in ast.walk(g.node)):
                return None
            sa_ = self_arg
            if g.decorators and all(d == ('var', 'staticmethod') for d in g.decorators):
                sa_ = None                   # static method: no receiver parameter
            elif sa_ is None and g.cls and c[0] == 'attr':
                return None
            return (q, g.args + g.kwonly + (['**' + g.kwarg] if g.kwarg else []), g.defaults, g.raw_body, sa_, None)
        return None
    ex = inline.Expander(resolve, 'py')
    try:
        return ex.block(raw)
    except RecursionError:
        return raw


def _touches_dict(fnode, name):
    """The function stores into / deletes from / calls a mutating method on / rebinds its collected-keywords dictionary `name`."""
    for x in ast.walk(fnode):
        if isinstance(x, ast.Name) and x.id == name and isinstance(x.ctx, (ast.Store, ast.Del)):
            return True
        if isinstance(x, ast.Subscript) and isinstance(x.value, ast.Name) and x.value.id == name and isinstance(x.ctx, (ast.Store, ast.Del)):
            return True
        if isinstance(x, ast.Call) and isinstance(x.func, ast.Attribute) and isinstance(x.func.value, ast.Name) and x.func.value.id == name \
                and x.func.attr in ('pop', 'popitem', 'update', 'setdefault', 'clear', '__setitem__', '__delitem__'):
            return True
    return False


class PyModule:
    def __init__(self, name, path, tree, source):
        self.name = name            # 'dtaidistance.dtw'
        self.path = path
        self.tree = tree
        self.source = source
        self.funcs = {}             # qual -> PyFunc
        self.classes = {}           # name -> ast.ClassDef
        self.imports = {}           # local name -> ('module', dotted) | ('from', dotted module, attr, level)
        self.toplevel = None        # IR of module body
        self.import_sites = []      # (local name, kind, module dotted, attr, level, line, in_try)

    def func(self, qual):
        return self.funcs.get(qual)


def conv_expr(n):
    if n is None:
        return None
    if isinstance(n, ast.Constant):
        v = n.value
        if v is None:
            return ('none',)
        if isinstance(v, bool):
            return ('bool', v)
        if isinstance(v, (int, float)):
            return ('num', v)
        if isinstance(v, str):
            return ('str', v)
        return ('other', repr(v))
    if isinstance(n, ast.Name):
        return ('var', n.id)
    if isinstance(n, ast.Attribute):
        b = conv_expr(n.value)
        if n.attr in ('inf', 'Inf', 'infty') and b in (('var', 'np'), ('var', 'numpy'), ('var', 'math')):
            return ('num', INF)
        return ('attr', b, n.attr)
    if isinstance(n, ast.BinOp):
        op = {ast.Add: '+', ast.Sub: '-', ast.Mult: '*', ast.Div: '/', ast.FloorDiv: '//', ast.Mod: '%', ast.Pow: '**',
              ast.BitAnd: '&', ast.BitOr: '|', ast.BitXor: '^', ast.LShift: '<<', ast.RShift: '>>', ast.MatMult: '@'}[type(n.op)]
        return ('bin', op, conv_expr(n.left), conv_expr(n.right))
    if isinstance(n, ast.UnaryOp):
        a = conv_expr(n.operand)
        if isinstance(n.op, ast.USub):
            if a[0] == 'num':
                return ('num', -a[1])
            return ('un', 'neg', a)
        if isinstance(n.op, ast.UAdd):
            return a
        if isinstance(n.op, ast.Not):
            return ('un', 'not', a)
        return ('un', 'inv', a)
    if isinstance(n, ast.BoolOp):
        op = 'and' if isinstance(n.op, ast.And) else 'or'
        vals = [conv_expr(v) for v in n.values]
        e = vals[0]
        for v in vals[1:]:
            e = ('bin', op, e, v)
        return e
    if isinstance(n, ast.Compare):
        ops = {ast.Lt: '<', ast.LtE: '<=', ast.Gt: '>', ast.GtE: '>=', ast.Eq: '==', ast.NotEq: '!=',
               ast.Is: 'is', ast.IsNot: 'isnot', ast.In: 'in', ast.NotIn: 'notin'}
        left = conv_expr(n.left)
        parts = []
        for o, c in zip(n.ops, n.comparators):
            r = conv_expr(c)
            parts.append(mk_cmp(ops[type(o)], left, r))
            left = r
        e = parts[0]
        for p in parts[1:]:
            e = ('bin', 'and', e, p)
        return e
    if isinstance(n, ast.Call):
        f = conv_expr(n.func)
        args = []
        for a in n.args:
            if isinstance(a, ast.Starred):
                args.append(('star', conv_expr(a.value)))
            else:
                args.append(conv_expr(a))
        kws = []
        for k in n.keywords:
            kws.append((k.arg, conv_expr(k.value)))
        if f == ('var', 'float') and len(args) == 1 and args[0][0] == 'str' and args[0][1].lower() in ('inf', '+inf', 'infinity'):
            return ('num', INF)
        if f == ('var', 'float') and len(args) == 1 and args[0][0] == 'str' and args[0][1].lower() in ('-inf', '-infinity'):
            return ('num', -INF)
        return ('call', f, tuple(args), tuple(kws))
    if isinstance(n, ast.Subscript):
        return ('idx', conv_expr(n.value), conv_expr(n.slice))
    if isinstance(n, ast.Slice):
        return ('slice', conv_expr(n.lower), conv_expr(n.upper), conv_expr(n.step))
    if isinstance(n, ast.Tuple):
        return ('tuple', tuple(conv_expr(e) for e in n.elts))
    if isinstance(n, ast.List):
        return ('list', tuple(conv_expr(e) for e in n.elts))
    if isinstance(n, ast.Set):
        return ('set', tuple(conv_expr(e) for e in n.elts))
    if isinstance(n, ast.Dict):
        return ('dict', tuple((conv_expr(k) if k is not None else None, conv_expr(v)) for k, v in zip(n.keys, n.values)))
    if isinstance(n, ast.IfExp):
        return mk_cond(conv_expr(n.test), conv_expr(n.body), conv_expr(n.orelse))
    if isinstance(n, ast.Starred):
        return ('star', conv_expr(n.value))
    if isinstance(n, ast.Lambda):
        return ('lambda', tuple(a.arg for a in n.args.args), conv_expr(n.body))
    if isinstance(n, (ast.ListComp, ast.GeneratorExp, ast.SetComp)):
        gens = tuple((conv_expr(g.target), conv_expr(g.iter), tuple(conv_expr(c) for c in g.ifs)) for g in n.generators)
        return ('comp', type(n).__name__, conv_expr(n.elt), gens)
    if isinstance(n, ast.DictComp):
        gens = tuple((conv_expr(g.target), conv_expr(g.iter), tuple(conv_expr(c) for c in g.ifs)) for g in n.generators)
        return ('comp', 'DictComp', ('tuple', (conv_expr(n.key), conv_expr(n.value))), gens)
    if isinstance(n, ast.JoinedStr):
        return ('other', 'fstring')
    if isinstance(n, (ast.Yield, ast.YieldFrom)):
        return ('call', ('var', '__yield__'), (conv_expr(n.value),) if n.value is not None else (), ())
    if isinstance(n, ast.NamedExpr):
        return ('other', 'walrus')
    if isinstance(n, ast.Await):
        return conv_expr(n.value)
    return ('other', type(n).__name__)


def _range_for(n):
    """for v in range(...) -> counted loop fields or None."""
    it = n.iter
    if isinstance(it, ast.Call) and isinstance(it.func, ast.Name) and it.func.id == 'range' and not it.keywords \
            and isinstance(n.target, ast.Name) and 1 <= len(it.args) <= 3:
        a = [conv_expr(x) for x in it.args]
        if len(a) == 1:
            return n.target.id, ('num', 0), a[0], ('num', 1)
        if len(a) == 2:
            return n.target.id, a[0], a[1], ('num', 1)
        return n.target.id, a[0], a[1], a[2]
    return None


def conv_block(stmts):
    out = []
    for n in stmts:
        out.extend(conv_stmt(n))
    return _canon_counted_while(out)


def _canon_counted_while(stmts):
    """`v = lo` ... `while v < hi: body; v = v + 1`  ==>  the same counted `for` the range() form produces (no continue in the body, v assigned
    nowhere else in it, nothing between the initialisation and the loop touches v): one loop form for all rules."""
    out = list(stmts)
    for k, w in enumerate(out):
        if w.k != 'while' or w.d.get('orelse'):
            continue
        c = w.cond
        if not (c[0] == 'bin' and c[1] == '<' and c[2][0] == 'var') or not w.body:
            continue
        v = c[2]
        last = w.body[-1]
        inc_ok = last.k == 'assign' and last.target == v and last.value in (('bin', '+', v, ('num', 1)), ('bin', '+', ('num', 1), v))
        if not inc_ok:
            continue
        body = w.body[:-1]
        if any(t.k == 'continue' for t in walk_stmts(body)) or any(t.k == 'assign' and (t.target == v or (t.target[0] == 'tuple' and v in t.target[1])) for t in walk_stmts(body)):
            continue
        if any(x == v for x in walk_expr(c[3])):
            continue
        # the initialisation: nearest preceding top-level assignment to v, with no statement in between that mentions v
        init = None
        for j in range(k - 1, -1, -1):
            t = out[j]
            if t.k == 'assign' and t.target == v:
                init = j
                break
            if any(x == v for e in stmt_exprs(t) for x in walk_expr(e)) or sub_blocks(t):
                break
        if init is None:
            # no adjacent initialisation (it sits in a branch, or further up): the loop starts from whatever v holds on entry
            out[k] = S('for', w.line, var=v[1], lo=v, hi=c[3], step=None, body=body, inclusive=False, orelse=[], declares=False, entry_init=True)
            return _canon_counted_while(out)
        lo = out[init].value
        out[k] = S('for', w.line, var=v[1], lo=lo, hi=c[3], step=None, body=body, inclusive=False, orelse=[], declares=False)
        del out[init]
        return _canon_counted_while(out)
    return out


def conv_stmt(n):
    line = getattr(n, 'lineno', None)
    if isinstance(n, ast.Expr):
        if isinstance(n.value, ast.Constant) and isinstance(n.value.value, str):
            return []
        return [S('expr', line, value=conv_expr(n.value))]
    if isinstance(n, ast.Assign):
        v = conv_expr(n.value)
        out = []
        for t in n.targets:
            out.append(S('assign', line, target=conv_expr(t), value=v, aug=None))
        return out
    if isinstance(n, ast.AnnAssign):
        if n.value is None:
            return []
        return [S('assign', line, target=conv_expr(n.target), value=conv_expr(n.value), aug=None)]
    if isinstance(n, ast.AugAssign):
        op = {ast.Add: '+', ast.Sub: '-', ast.Mult: '*', ast.Div: '/', ast.FloorDiv: '//', ast.Mod: '%', ast.Pow: '**',
              ast.BitAnd: '&', ast.BitOr: '|', ast.BitXor: '^', ast.LShift: '<<', ast.RShift: '>>', ast.MatMult: '@'}[type(n.op)]
        t = conv_expr(n.target)
        return [S('assign', line, target=t, value=('bin', op, t, conv_expr(n.value)), aug=op)]
    if isinstance(n, ast.If):
        return [mk_if(line, conv_expr(n.test), conv_block(n.body), conv_block(n.orelse))]
    if isinstance(n, (ast.For, ast.AsyncFor)):
        r = _range_for(n)
        if r is not None:
            var, lo, hi, step = r
            return [S('for', line, var=var, lo=lo, hi=hi, step=step, body=conv_block(n.body), inclusive=False,
                      orelse=conv_block(n.orelse), declares=False)]
        return [S('foreach', line, target=conv_expr(n.target), iter=conv_expr(n.iter), body=conv_block(n.body),
                  orelse=conv_block(n.orelse))]
    if isinstance(n, ast.While):
        return [S('while', line, cond=conv_expr(n.test), body=conv_block(n.body), orelse=conv_block(n.orelse))]
    if isinstance(n, ast.Return):
        return [S('return', line, value=conv_expr(n.value))]
    if isinstance(n, ast.Break):
        return [S('break', line)]
    if isinstance(n, ast.Continue):
        return [S('continue', line)]
    if isinstance(n, ast.Pass):
        return []
    if isinstance(n, ast.Assert):
        return [S('assert', line, cond=conv_expr(n.test), msg=conv_expr(n.msg))]
    if isinstance(n, ast.Raise):
        return [S('raise', line, value=conv_expr(n.exc))]
    if isinstance(n, (ast.With, ast.AsyncWith)):
        items = [(conv_expr(i.context_expr), conv_expr(i.optional_vars)) for i in n.items]
        return [S('with', line, items=items, body=conv_block(n.body))]
    if isinstance(n, ast.Try):
        hs = []
        for h in n.handlers:
            hs.append((conv_expr(h.type), h.name, conv_block(h.body)))
        return [S('try', line, body=conv_block(n.body), handlers=hs, orelse=conv_block(n.orelse), final=conv_block(n.finalbody))]
    if isinstance(n, (ast.FunctionDef, ast.AsyncFunctionDef)):
        return [S('def', line, name=n.name, node=n)]
    if isinstance(n, ast.ClassDef):
        return [S('class', line, name=n.name, node=n)]
    if isinstance(n, (ast.Import, ast.ImportFrom)):
        return [S('import', line, node=n)]
    if isinstance(n, ast.Global):
        return [S('global', line, names=list(n.names))]
    if isinstance(n, ast.Nonlocal):
        return [S('nonlocal', line, names=list(n.names))]
    if isinstance(n, ast.Delete):
        return [S('delete', line, targets=[conv_expr(t) for t in n.targets])]
    return [S('unsupported', line, what=type(n).__name__)]


def load_module(repo, relpath, name):
    path = os.path.join(repo, relpath)
    if not os.path.exists(path):
        from .cfront import AnalysisError
        raise AnalysisError('anchor vanished: %s' % path)
    with open(path, 'r', encoding='utf-8') as f:
        src = f.read()
    tree = ast.parse(src, filename=path)
    m = PyModule(name, path, tree, src)

    def collect(body, prefix, cls):
        for n in body:
            if isinstance(n, (ast.FunctionDef, ast.AsyncFunctionDef)):
                q = prefix + n.name
                m.funcs[q] = PyFunc(m, q, n, cls)
                # nested functions
                collect([x for x in ast.walk(n) if x is not n and isinstance(x, (ast.FunctionDef, ast.AsyncFunctionDef))
                         and _parent_is(n, x)], q + '.<locals>.', cls)
            elif isinstance(n, ast.ClassDef):
                m.classes[n.name] = n
                collect(n.body, prefix + n.name + '.', n.name)
            elif isinstance(n, (ast.If, ast.Try)):
                for sub in ast.iter_child_nodes(n):
                    pass
                blocks = []
                if isinstance(n, ast.If):
                    blocks = [n.body, n.orelse]
                else:
                    blocks = [n.body, n.orelse, n.finalbody] + [h.body for h in n.handlers]
                for b in blocks:
                    collect(b, prefix, cls)

    collect(tree.body, '', None)

    def imports(body, in_try):
        for n in body:
            if isinstance(n, ast.Import):
                for a in n.names:
                    local = a.asname or a.name.split('.')[0]
                    m.imports[local] = ('module', a.name if a.asname else a.name.split('.')[0])
                    m.import_sites.append((local, 'module', a.name, None, 0, n.lineno, in_try))
            elif isinstance(n, ast.ImportFrom):
                for a in n.names:
                    local = a.asname or a.name
                    m.imports[local] = ('from', n.module or '', a.name, n.level)
                    m.import_sites.append((local, 'from', n.module or '', a.name, n.level, n.lineno, in_try))
            elif isinstance(n, ast.Try):
                imports(n.body, True)
                for h in n.handlers:
                    imports(h.body, True)
                imports(n.orelse, True)
                imports(n.finalbody, True)
            elif isinstance(n, ast.If):
                imports(n.body, in_try)
                imports(n.orelse, in_try)

    imports(tree.body, False)
    m.toplevel = conv_block(tree.body)
    return m


def _parent_is(outer, inner):
    """True when `inner` is defined directly in outer's body (not in a deeper def/class)."""
    stack = list(ast.iter_child_nodes(outer))
    while stack:
        x = stack.pop()
        if x is inner:
            return True
        if isinstance(x, (ast.FunctionDef, ast.AsyncFunctionDef, ast.ClassDef, ast.Lambda)):
            continue
        stack.extend(ast.iter_child_nodes(x))
    return False


PY_MODULES = {
    'dtaidistance.dtw': 'src/dtaidistance/dtw.py',
    'dtaidistance.dtw_ndim': 'src/dtaidistance/dtw_ndim.py',
    'dtaidistance.ed': 'src/dtaidistance/ed.py',
    'dtaidistance.innerdistance': 'src/dtaidistance/innerdistance.py',
    'dtaidistance.util': 'src/dtaidistance/util.py',
    'dtaidistance.util_numpy': 'src/dtaidistance/util_numpy.py',
    'dtaidistance.dtw_barycenter': 'src/dtaidistance/dtw_barycenter.py',
    'dtaidistance.dp': 'src/dtaidistance/dp.py',
    'dtaidistance.alignment': 'src/dtaidistance/alignment.py',
    'dtaidistance.similarity': 'src/dtaidistance/similarity.py',
    'dtaidistance.exceptions': 'src/dtaidistance/exceptions.py',
    'dtaidistance.subsequence.subsequencealignment': 'src/dtaidistance/subsequence/subsequencealignment.py',
    'dtaidistance.subsequence.subsequencesearch': 'src/dtaidistance/subsequence/subsequencesearch.py',
    'dtaidistance.subsequence.localconcurrences': 'src/dtaidistance/subsequence/localconcurrences.py',
    'dtaidistance.clustering.hierarchical': 'src/dtaidistance/clustering/hierarchical.py',
    'dtaidistance.clustering.kmeans': 'src/dtaidistance/clustering/kmeans.py',
    'dtaidistance.clustering.medoids': 'src/dtaidistance/clustering/medoids.py',
}

_MODS = {}


def module(repo, name):
    key = (repo, name)
    if key not in _MODS:
        _MODS[key] = load_module(repo, PY_MODULES[name], name)
    return _MODS[key]


def resolve_import(repo, mod, local):
    """Resolve a module-level imported name of `mod` to ('pymod', dotted) / ('pyx', dotted) / ('attr', dotted module, attr)
    / ('external', dotted) / ('unresolved', detail)."""
    imp = mod.imports.get(local)
    if imp is None:
        return None
    pkg_parts = mod.name.split('.')[:-1]
    if imp[0] == 'module':
        return ('external', imp[1])
    _, modname, attr, level = imp
    if level:
        base = pkg_parts[:len(pkg_parts) - (level - 1)]
        full = base + (modname.split('.') if modname else [])
    else:
        full = modname.split('.')
    if full and full[0] != 'dtaidistance':
        return ('external', '.'.join(full))
    # attr may be a submodule or an attribute of package/module `full`
    root = os.path.join(repo, 'src')
    cand_dir = os.path.join(root, *full)
    for ext, kind in (('.py', 'pymod'), ('.pyx', 'pyx')):
        if os.path.exists(os.path.join(cand_dir, attr + ext)):
            return (kind, '.'.join(full + [attr]))
    if os.path.isdir(os.path.join(cand_dir, attr)) and os.path.exists(os.path.join(cand_dir, attr, '__init__.py')):
        return ('pymod', '.'.join(full + [attr]))
    # attribute of a module file
    modfile = os.path.join(root, *full) + '.py'
    initfile = os.path.join(cand_dir, '__init__.py')
    if os.path.exists(modfile):
        return ('attr', '.'.join(full), attr)
    if os.path.exists(initfile):
        # attribute defined in the package __init__?
        try:
            with open(initfile) as f:
                t = ast.parse(f.read())
            for n in ast.walk(t):
                if isinstance(n, (ast.FunctionDef, ast.ClassDef)) and n.name == attr:
                    return ('attr', '.'.join(full), attr)
                if isinstance(n, ast.Assign):
                    for tg in n.targets:
                        if isinstance(tg, ast.Name) and tg.id == attr:
                            return ('attr', '.'.join(full), attr)
                if isinstance(n, (ast.Import, ast.ImportFrom)):
                    for a in n.names:
                        if (a.asname or a.name.split('.')[0]) == attr:
                            return ('attr', '.'.join(full), attr)
        except SyntaxError:
            pass
        return ('unresolved', '%s has no submodule or attribute %s' % ('.'.join(full), attr))
    return ('unresolved', 'no module %s' % '.'.join(full))
