"""E1: symbolic integer arithmetic -- piecewise-linear terms over named atoms, normalisation and equivalence.

Terms (hashable tuples):
  ('lin', ((atom, coef), ...sorted), const)          atom: str
  ('min', (T, ...)) / ('max', (T, ...))              args sorted, flattened, at least 2
  ('ite', (op, T, T), T, T)                          op in '<', '<=', '==', '!='
Equivalence of two terms under a domain (linear constraints over the atoms) is decided by splitting into linear pieces
(each piece = conjunction of linear constraints) and discarding infeasible pieces with Fourier-Motzkin over Q; a
difference is only *reported* together with a concrete integer witness found in a small box (evaluating these terms,
never repository code).
"""
from fractions import Fraction
from itertools import product

INF = float('inf')


class Unsupported(Exception):
    pass


# ------------------------------------------------------------------------------------------ construction
def const(c):
    return ('lin', (), c)


def var(name):
    return ('lin', ((name, 1),), 0)


def _lin(coeffs, c):
    items = tuple(sorted((a, k) for a, k in coeffs.items() if k != 0))
    return ('lin', items, c)


def is_lin(t):
    return t[0] == 'lin'


def is_const(t):
    return t[0] == 'lin' and not t[1]


def _flatten(kind, args):
    out = []
    for a in args:
        if a[0] == kind:
            out.extend(a[1])
        else:
            out.append(a)
    return out


def _mk_minmax(kind, args):
    args = _flatten(kind, args)
    # dedupe; among linear args with identical coefficients keep the extreme constant
    best = {}
    rest = []
    for a in args:
        if a[0] == 'lin':
            k = a[1]
            if k in best:
                best[k] = min(best[k], a[2]) if kind == 'min' else max(best[k], a[2])
            else:
                best[k] = a[2]
        elif a not in rest:
            rest.append(a)
    out = [('lin', k, c) for k, c in best.items()] + rest
    if len(out) == 1:
        return out[0]
    return (kind, tuple(sorted(out, key=repr)))


def tmin(*args):
    return _mk_minmax('min', list(args))


def tmax(*args):
    return _mk_minmax('max', list(args))


def add(a, b):
    if a[0] == 'lin' and b[0] == 'lin':
        co = dict(a[1])
        for at, k in b[1]:
            co[at] = co.get(at, 0) + k
        return _lin(co, a[2] + b[2])
    if a[0] in ('min', 'max') and b[0] == 'lin':
        return _mk_minmax(a[0], [add(x, b) for x in a[1]])
    if b[0] in ('min', 'max') and a[0] == 'lin':
        return add(b, a)
    if a[0] == 'ite' and b[0] == 'lin':
        return ('ite', a[1], add(a[2], b), add(a[3], b))
    if b[0] == 'ite' and a[0] == 'lin':
        return add(b, a)
    if a[0] in ('min', 'max') and b[0] == a[0]:
        return _mk_minmax(a[0], [add(x, y) for x in a[1] for y in b[1]])
    if a[0] in ('min', 'max'):
        return _mk_minmax(a[0], [add(x, b) for x in a[1]])
    if b[0] in ('min', 'max'):
        return _mk_minmax(b[0], [add(a, y) for y in b[1]])
    if a[0] == 'ite':
        return ('ite', a[1], add(a[2], b), add(a[3], b))
    if b[0] == 'ite':
        return ('ite', b[1], add(a, b[2]), add(a, b[3]))
    raise Unsupported('add %r %r' % (a, b))


def scale(a, k):
    if k == 0:
        return const(0)
    if a[0] == 'lin':
        return _lin({at: c * k for at, c in a[1]}, a[2] * k)
    if a[0] in ('min', 'max'):
        kind = a[0] if k > 0 else ('max' if a[0] == 'min' else 'min')
        return _mk_minmax(kind, [scale(x, k) for x in a[1]])
    if a[0] == 'ite':
        return ('ite', a[1], scale(a[2], k), scale(a[3], k))
    raise Unsupported('scale')


def sub(a, b):
    return add(a, scale(b, -1))


def mul(a, b):
    if is_const(a):
        return scale(b, a[2])
    if is_const(b):
        return scale(a, b[2])
    # product of two non-constant terms: opaque atom (kept canonical by sorting the factor renderings)
    fa, fb = show(a), show(b)
    lo, hi = sorted([fa, fb])
    return var('(%s)*(%s)' % (lo, hi))


def ite(cond, a, b):
    """cond = (op, x, y) with x, y terms.  Normalises to min/max where possible."""
    op, x, y = cond
    if a == b:
        return a
    if op in ('>', '>='):
        op = '<' if op == '>' else '<='
        x, y = y, x
    # decide constant conditions
    d = None
    try:
        d = sub(y, x)     # y - x
    except Unsupported:
        d = None
    if d is not None and is_const(d):
        v = d[2]
        truth = {'<': v > 0, '<=': v >= 0, '==': v == 0, '!=': v != 0}[op]
        return a if truth else b
    if op in ('<', '<=') and d is not None and d[0] == 'lin':
        # cond true <=> d > 0 (or >= 0).  If a - b == k*d: k>0 -> cond true => a > b -> result = max(a, b); k<0 -> min(a, b)
        try:
            ab = sub(a, b)
        except Unsupported:
            ab = None
        if ab is not None and ab[0] == 'lin':
            k = _ratio(ab, d)
            if k is not None:
                if k > 0:
                    return tmax(a, b)
                if k < 0:
                    return tmin(a, b)
    return ('ite', (op, x, y), a, b)


def _ratio(p, q):
    """p == k*q for a rational k (both linear, q != 0) -> k else None."""
    if not q[1] and q[2] == 0:
        return None
    dp, dq = dict(p[1]), dict(q[1])
    if set(dp) != set(dq):
        return None
    k = None
    for at in dq:
        r = Fraction(dp[at], dq[at])
        if k is None:
            k = r
        elif r != k:
            return None
    if k is None:
        if q[2] == 0:
            return None
        k = Fraction(p[2], q[2])
        return k
    if Fraction(p[2]) != k * q[2]:
        return None
    return k


# ------------------------------------------------------------------------------------------ conversion from IR
def from_ir(e, env=None, atom=None):
    """IR expression -> term.  env: name -> term.  atom(e) -> atom name for opaque sub-expressions (default: rendering)."""
    from .ir import fmt
    env = env or {}

    def opaque(x):
        if atom is not None:
            r = atom(x)
            if r is not None:
                return r if isinstance(r, tuple) else var(r)
        return var(fmt(x))

    def go(x):
        k = x[0]
        if k == 'num':
            v = x[1]
            if isinstance(v, float):
                if v != v or abs(v) == INF:
                    raise Unsupported('non-finite constant')
                if v == int(v):
                    v = int(v)
                else:
                    raise Unsupported('non-integer constant %r' % (v,))
            return const(v)
        if k == 'bool':
            return const(1 if x[1] else 0)
        if k == 'var':
            if x[1] in env:
                return env[x[1]]
            return opaque(x)
        if k == 'bin':
            op = x[1]
            if op in ('+', '-'):
                a, b = go(x[2]), go(x[3])
                return add(a, b) if op == '+' else sub(a, b)
            if op == '*':
                # X * (p cmp q)  ->  ite(cmp, X, 0)
                l, r = x[2], x[3]
                if _is_cmp(r):
                    return ite(_cond(r), go(l), const(0))
                if _is_cmp(l):
                    return ite(_cond(l), go(r), const(0))
                return mul(go(l), go(r))
            if op in ('<', '<=', '>', '>=', '==', '!='):
                return ite(_cond(x), const(1), const(0))
            if op in ('/', '//'):
                a, b = go(x[2]), go(x[3])
                if is_const(b) and b[2] != 0 and a[0] == 'lin' and all(c % b[2] == 0 for _, c in a[1]) and a[2] % b[2] == 0:
                    return scale(a, Fraction(1, b[2])) if False else _lin({at: c // b[2] for at, c in a[1]}, a[2] // b[2])
                return opaque(x)
            return opaque(x)
        if k == 'un' and x[1] == 'neg':
            return scale(go(x[2]), -1)
        if k == 'cond':
            c = x[1]
            if _is_cmp(c):
                return ite(_cond(c), go(x[2]), go(x[3]))
            return opaque(x)
        if k == 'call':
            from .ir import dotted
            d = dotted(x[1])
            if d in ('min', 'max') and len(x[2]) >= 2 and not x[3]:
                args = [go(a) for a in x[2]]
                return tmin(*args) if d == 'min' else tmax(*args)
            if d == 'abs' and len(x[2]) == 1:
                a = go(x[2][0])
                return tmax(a, scale(a, -1))
            if d == 'int' and len(x[2]) == 1:
                return go(x[2][0])
            return opaque(x)
        if k in ('min', 'max'):
            args = [go(a) for a in x[1]]
            return tmin(*args) if k == 'min' else tmax(*args)
        return opaque(x)

    def _is_cmp(c):
        return c[0] == 'bin' and c[1] in ('<', '<=', '>', '>=', '==', '!=')

    def _cond(c):
        return (c[1], go(c[2]), go(c[3]))

    return go(e)


# ------------------------------------------------------------------------------------------ inspection
def atoms(t):
    out = set()
    if t[0] == 'lin':
        for a, _ in t[1]:
            out.add(a)
    elif t[0] in ('min', 'max'):
        for x in t[1]:
            out |= atoms(x)
    elif t[0] == 'ite':
        out |= atoms(t[1][1]) | atoms(t[1][2]) | atoms(t[2]) | atoms(t[3])
    return out


def subst(t, mapping):
    """mapping: atom -> term."""
    if t[0] == 'lin':
        r = const(t[2])
        for a, k in t[1]:
            r = add(r, scale(mapping.get(a, var(a)), k))
        return r
    if t[0] in ('min', 'max'):
        return _mk_minmax(t[0], [subst(x, mapping) for x in t[1]])
    if t[0] == 'ite':
        op, x, y = t[1]
        return ite((op, subst(x, mapping), subst(y, mapping)), subst(t[2], mapping), subst(t[3], mapping))
    raise Unsupported('subst')


def rename(t, mapping):
    return subst(t, {a: var(b) for a, b in mapping.items()})


def evaluate(t, val):
    if t[0] == 'lin':
        return sum(k * val[a] for a, k in t[1]) + t[2]
    if t[0] == 'min':
        return min(evaluate(x, val) for x in t[1])
    if t[0] == 'max':
        return max(evaluate(x, val) for x in t[1])
    if t[0] == 'ite':
        op, x, y = t[1]
        a, b = evaluate(x, val), evaluate(y, val)
        c = {'<': a < b, '<=': a <= b, '==': a == b, '!=': a != b}[op]
        return evaluate(t[2], val) if c else evaluate(t[3], val)
    raise Unsupported('evaluate')


def show(t):
    if t[0] == 'lin':
        parts = []
        for a, k in t[1]:
            if k == 1:
                parts.append('+' + a)
            elif k == -1:
                parts.append('-' + a)
            else:
                parts.append('%+d*%s' % (k, a) if k == int(k) else '%+s*%s' % (k, a))
        if t[2] or not parts:
            parts.append('%+d' % t[2] if t[2] == int(t[2]) else '%+s' % t[2])
        s = ''.join(parts)
        return s[1:] if s.startswith('+') else s
    if t[0] in ('min', 'max'):
        return '%s(%s)' % (t[0], ', '.join(show(x) for x in t[1]))
    if t[0] == 'ite':
        return '(%s %s %s ? %s : %s)' % (show(t[1][1]), t[1][0], show(t[1][2]), show(t[2]), show(t[3]))
    return str(t)


# ------------------------------------------------------------------------------------------ Fourier-Motzkin
BUDGET = [0]


def _feasible(cons):
    """cons: list of (coeffs dict atom->number, const) meaning sum + const >= 0.  Exact rational feasibility
    (Fourier-Motzkin on integer-scaled rows, memoised)."""
    BUDGET[0] -= 1
    if BUDGET[0] < 0:
        raise Unsupported('proof budget exhausted')
    from math import gcd
    names = sorted({a for c, k in cons for a, v in c.items() if v != 0})
    idx = {a: i for i, a in enumerate(names)}
    rows = set()
    n1 = len(names) + 1
    for c, k in cons:
        allint = type(k) is int
        if allint:
            for v in c.values():
                if type(v) is not int:
                    allint = False
                    break
        row = [0] * n1
        if allint:
            for a, v in c.items():
                if v:
                    row[idx[a]] = v
            row[-1] = k
        else:
            den = 1
            for v in list(c.values()) + [k]:
                fv = Fraction(v)
                den = den * fv.denominator // gcd(den, fv.denominator)
            for a, v in c.items():
                if v != 0:
                    row[idx[a]] = int(Fraction(v) * den)
            row[-1] = int(Fraction(k) * den)
        g = 0
        for v in row:
            if v:
                g = gcd(g, v if v > 0 else -v)
        if g > 1:
            row = [v // g for v in row]
        rows.add(tuple(row))
    key = frozenset(rows)
    hit = _FEAS_CACHE.get(key)
    if hit is not None:
        return hit
    res = _fm(rows, len(names))
    if len(_FEAS_CACHE) < 200000:
        _FEAS_CACHE[key] = res
    return res


_FEAS_CACHE = {}


def _fm(rows, n):
    from math import gcd
    rows = set(rows)
    remaining = list(range(n))
    while True:
        nxt = set()
        for r in rows:
            if not any(r[:-1]):
                if r[-1] < 0:
                    return False
                continue
            nxt.add(r)
        rows = nxt
        if not rows:
            return True
        # pick the variable minimising pos*neg
        best = None
        for j in remaining:
            p = sum(1 for r in rows if r[j] > 0)
            q = sum(1 for r in rows if r[j] < 0)
            if p + q == 0:
                continue
            cost = p * q
            if best is None or cost < best[0]:
                best = (cost, j)
        if best is None:
            return True
        j = best[1]
        remaining.remove(j)
        pos = [r for r in rows if r[j] > 0]
        neg = [r for r in rows if r[j] < 0]
        new = set(r for r in rows if r[j] == 0)
        for rp in pos:
            a = rp[j]
            for rn in neg:
                b = -rn[j]
                row = [b * x + a * y for x, y in zip(rp, rn)]
                g = 0
                for v in row:
                    g = gcd(g, abs(v))
                if g > 1:
                    row = [v // g for v in row]
                new.add(tuple(row))
        if len(new) > 6000:
            raise Unsupported('FM blow-up')
        rows = new


def _ge0(t):
    """linear term t >= 0 as FM constraint."""
    return ({a: (k if type(k) is int else Fraction(k)) for a, k in t[1]}, t[2] if type(t[2]) is int else Fraction(t[2]))


def pieces(t, domain, limit=4000):
    """-> list of (constraints, lin) with constraints a list of linear terms each meaning `>= 0` (integer semantics:
    strict x<y is y-x-1>=0).  Infeasible pieces (over Q, given `domain` constraints) are dropped."""
    dom = [_ge0(d) for d in domain]

    def feas(cs):
        return _feasible(dom + [_ge0(c) for c in cs])

    def go(t):
        if t[0] == 'lin':
            return [((), t)]
        if t[0] in ('min', 'max'):
            acc = go(t[1][0])
            for arg in t[1][1:]:
                nxt = []
                for ca, la in acc:
                    for cb, lb in go(arg):
                        d = sub(lb, la)  # lb - la
                        if t[0] == 'min':
                            c1 = ca + cb + (d,)                       # la <= lb -> la
                            c2 = ca + cb + (add(scale(d, -1), const(-1)),)   # lb < la -> lb
                        else:
                            c1 = ca + cb + (scale(d, -1),)            # la >= lb -> la
                            c2 = ca + cb + (add(d, const(-1)),)       # lb > la -> lb
                        if feas(c1):
                            nxt.append((c1, la))
                        if feas(c2):
                            nxt.append((c2, lb))
                        if len(nxt) > limit:
                            raise Unsupported('too many pieces')
                acc = nxt
            return acc
        if t[0] == 'ite':
            op, x, y = t[1]
            out = []
            for cx, lx in go(x):
                for cy, ly in go(y):
                    d = sub(ly, lx)   # y - x
                    if op == '<':
                        tc = [(add(d, const(-1)),)]
                        fc = [(scale(d, -1),)]
                    elif op == '<=':
                        tc = [(d,)]
                        fc = [(add(scale(d, -1), const(-1)),)]
                    elif op == '==':
                        tc = [(d, scale(d, -1))]
                        fc = [(add(d, const(-1)),), (add(scale(d, -1), const(-1)),)]
                    else:
                        fc = [(d, scale(d, -1))]
                        tc = [(add(d, const(-1)),), (add(scale(d, -1), const(-1)),)]
                    for cc in tc:
                        base = cx + cy + cc
                        if feas(base):
                            for ca, la in go(t[2]):
                                if feas(base + ca):
                                    out.append((base + ca, la))
                    for cc in fc:
                        base = cx + cy + cc
                        if feas(base):
                            for cb, lb in go(t[3]):
                                if feas(base + cb):
                                    out.append((base + cb, lb))
                    if len(out) > limit:
                        raise Unsupported('too many pieces')
            return out
        raise Unsupported('pieces')

    return go(t)


def equivalent(t1, t2, domain=(), box=None, box_limit=200000):
    """Decide t1 == t2 for all integer valuations satisfying `domain` (list of linear terms >= 0).

    Returns ('equal', how) | ('differ', witness valuation) | ('unknown', reason).
    'equal' is a proof (piece-wise over Q, sound for Z); 'differ' always carries a concrete integer witness."""
    if t1 == t2:
        return ('equal', 'identical normal form')
    key = (t1, t2, tuple(domain))
    if key in _EQ_CACHE:
        return _EQ_CACHE[key]
    r = _equivalent(t1, t2, domain, box, box_limit)
    _EQ_CACHE[key] = r
    return r


_EQ_CACHE = {}
PROOF_BUDGET = [40000]     # Fourier-Motzkin feasibility calls per equivalence query


def _equivalent(t1, t2, domain, box, box_limit):
    BUDGET[0] = PROOF_BUDGET[0]
    ats = sorted(atoms(t1) | atoms(t2))
    # 1. look for a witness in a box (only constraints over the terms' own atoms restrict the search)
    sa = set(ats)
    wdom = [d for d in domain if atoms(d) <= sa]
    domain = [d for d in domain if atoms(d) & sa or True]
    w = find_witness(t1, t2, wdom, ats, box, min(box_limit, 40000))
    if w is not None:
        return ('differ', w)
    # 2. prove: shared case splitting with simplification under the accumulated constraints
    try:
        ok = _prove_equal(t1, t2, [_ge0(d) for d in domain])
        if ok:
            return ('equal', 'case split + Fourier-Motzkin')
        return ('unknown', 'the terms differ on a rationally feasible cell but no integer witness was found in the box')
    except Unsupported as e:
        return ('unknown', str(e))


def _entails(cons, t):
    """cons |= (t >= 0)  over Q, checked as infeasibility of cons and (-t - 1 >= 0) over Z-relaxation (t <= -1)."""
    neg = add(scale(t, -1), const(-1))
    return not _feasible(cons + [_ge0(neg)])


def _simplify(t, cons):
    """Simplify a term under linear constraints (drop dominated min/max arguments, decide ite conditions)."""
    if t[0] == 'lin':
        return t
    if t[0] in ('min', 'max'):
        args = [_simplify(a, cons) for a in t[1]]
        args = _flatten(t[0], args)
        keep = []
        for i, a in enumerate(args):
            dominated = False
            for j, b in enumerate(args):
                if i == j or a[0] != 'lin' or b[0] != 'lin':
                    continue
                # for min: a dominated if b <= a always (and tie-break by index to keep one of equal terms)
                d = sub(a, b) if t[0] == 'min' else sub(b, a)
                if _entails(cons, d) and not (_entails(cons, scale(d, -1)) and j > i):
                    dominated = True
                    break
            if not dominated:
                keep.append(a)
        if not keep:
            keep = args[:1]
        return _mk_minmax(t[0], keep)
    if t[0] == 'ite':
        op, x, y = t[1]
        x, y = _simplify(x, cons), _simplify(y, cons)
        a, b = _simplify(t[2], cons), _simplify(t[3], cons)
        if x[0] == 'lin' and y[0] == 'lin':
            d = sub(y, x)        # y - x
            if op == '<':
                if _entails(cons, add(d, const(-1))):
                    return a
                if _entails(cons, scale(d, -1)):
                    return b
            elif op == '<=':
                if _entails(cons, d):
                    return a
                if _entails(cons, add(scale(d, -1), const(-1))):
                    return b
            elif op in ('==', '!='):
                eq = _entails(cons, d) and _entails(cons, scale(d, -1))
                ne = _entails(cons, add(d, const(-1))) or _entails(cons, add(scale(d, -1), const(-1)))
                if eq:
                    return a if op == '==' else b
                if ne:
                    return b if op == '==' else a
        return ite((op, x, y), a, b)
    return t


def _pick_split(t, cons=None):
    """A linear comparison (p, q) to branch on (p <= q vs p > q) that is not yet decided by cons."""
    def undecided(p, q):
        if cons is None:
            return True
        d = sub(q, p)
        if d[0] != 'lin':
            return False
        if is_const(d):
            return False
        return not _entails(cons, d) and not _entails(cons, add(scale(d, -1), const(-1)))

    if t[0] in ('min', 'max'):
        lins = [a for a in t[1] if a[0] == 'lin']
        for i in range(len(lins)):
            for j in range(i + 1, len(lins)):
                if undecided(lins[i], lins[j]):
                    return lins[i], lins[j]
        for a in t[1]:
            r = _pick_split(a, cons)
            if r:
                return r
    if t[0] == 'ite':
        op, x, y = t[1]
        if x[0] == 'lin' and y[0] == 'lin':
            if op == '<':
                if undecided(add(x, const(1)), y):
                    return add(x, const(1)), y
            elif op == '<=':
                if undecided(x, y):
                    return x, y
            else:
                if undecided(x, y):
                    return x, y
                if undecided(y, x):
                    return y, x
        for u in (x, y, t[2], t[3]):
            r = _pick_split(u, cons)
            if r:
                return r
    return None


def _prove_equal(t1, t2, cons, depth=0):
    if not _feasible(cons):
        return True
    a, b = _simplify(t1, cons), _simplify(t2, cons)
    if a == b:
        return True
    if a[0] == 'lin' and b[0] == 'lin':
        d = sub(a, b)
        if _feasible(cons + [_ge0(add(d, const(-1)))]) or _feasible(cons + [_ge0(add(scale(d, -1), const(-1)))]):
            return False
        return True
    if depth > 40:
        raise Unsupported('case split too deep')
    sp = _pick_split(a, cons) or _pick_split(b, cons)
    if sp is None:
        raise Unsupported('no split atom')
    p, q = sp
    d = sub(q, p)       # q - p >= 0  <=> p <= q
    if not _prove_equal(a, b, cons + [_ge0(d)], depth + 1):
        return False
    return _prove_equal(a, b, cons + [_ge0(add(scale(d, -1), const(-1)))], depth + 1)


def fail_signature(t1, t2, domain, ats=None, box=None, box_limit=40000):
    """Fingerprint of the set of box points on which t1 != t2: 'count/points:digest'.  Two versions of a construct with the same
    signature fail on exactly the same small inputs; a recorded finding is only recognised when the signature is unchanged."""
    import hashlib
    if ats is None:
        ats = sorted(atoms(t1) | atoms(t2))
    box = box or {}
    ranges = [box.get(a, range(0, 7)) for a in ats]
    total = 1
    for r in ranges:
        total *= max(len(r), 1)
    while total > box_limit:
        ranges = [r if len(r) <= 3 else range(r.start, r.stop - 1) for r in ranges]
        nt = 1
        for r in ranges:
            nt *= max(len(r), 1)
        if nt == total:
            break
        total = nt
    h = hashlib.sha1()
    n = 0
    pts = 0
    for vals in product(*ranges):
        val = dict(zip(ats, vals))
        if any(evaluate(d, val) < 0 for d in domain):
            continue
        pts += 1
        a, b = evaluate(t1, val), evaluate(t2, val)
        if a != b:
            n += 1
            h.update(repr((vals, a, b)).encode())
    return '%d/%d:%s' % (n, pts, h.hexdigest()[:10])


def find_witness(t1, t2, domain, ats=None, box=None, box_limit=200000):
    if ats is None:
        ats = sorted(atoms(t1) | atoms(t2))
    box = box or {}
    ranges = [box.get(a, range(0, 7)) for a in ats]
    total = 1
    for r in ranges:
        total *= max(len(r), 1)
    if total > box_limit:
        # shrink uniformly
        while total > box_limit:
            ranges = [r if len(r) <= 3 else range(r.start, r.stop - 1) for r in ranges]
            nt = 1
            for r in ranges:
                nt *= max(len(r), 1)
            if nt == total:
                break
            total = nt
    for vals in product(*ranges):
        val = dict(zip(ats, vals))
        ok = True
        for d in domain:
            if evaluate(d, val) < 0:
                ok = False
                break
        if not ok:
            continue
        if evaluate(t1, val) != evaluate(t2, val):
            return val
    return None
