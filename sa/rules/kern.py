"""Kernel rules on the rolling-buffer distance kernels: R-BAND, R-REC, R-PRUNE, R-PSI, R-CLAMP, R-DOM.

Oracle (DESIGN appendix A.1), with r=L1, c=L2, w=W:
  band of row i: j in [max(0, i - max(0, r-c) - w + 1), min(c, i + max(0, c-r) + w))
  cell(i,j) = d + min(cell(i-1,j-1), cell(i-1,j)+pen, cell(i,j-1)+pen)
"""
from ..cfront import AnalysisError
from ..ir import fmt, walk_expr, walk_stmts, dotted, orient
from .. import sym
from ..sym import var, const, add, sub, tmin, tmax, scale
from ..symexec import subst_expr, reads_of, norm_minmax
from .. import kernels

V = var
C = const


def canon_lo(i='i'):
    return tmax(C(0), add(sub(sub(V(i), tmax(C(0), sub(V('L1'), V('L2')))), V('W')), C(1)))


def canon_hi(i='i'):
    return tmin(V('L2'), add(add(V(i), tmax(C(0), sub(V('L2'), V('L1')))), V('W')))


BASE_DOM = [sub(V('L1'), C(1)), sub(V('L2'), C(1)), V('i'), sub(sub(V('L1'), V('i')), C(1))]
BOX = {'L1': range(1, 6), 'L2': range(1, 6), 'W': range(0, 7), 'i': range(0, 5), 'SC': range(0, 6), 'j': range(0, 5)}


def window_cases(t):
    """Yield (label, term with effective window, domain) for W given (>=1) and W off (0 -> max(L1, L2))."""
    yield 'window>=1', t, BASE_DOM + [sub(V('W'), C(1))]
    yield 'window off', sym.subst(t, {'W': C(0)}), BASE_DOM


def canon_cases(t):
    yield 'window>=1', t, None
    yield 'window off', sym.subst(t, {'W': tmax(V('L1'), V('L2'))}), None


def _rename_prev(t, suffix='@prev', to='SC'):
    ats = [a for a in sym.atoms(t) if a.endswith(suffix)]
    if len(ats) > 1:
        return t, ats
    if ats:
        t = sym.rename(t, {ats[0]: to})
    return t, ats


def _equiv_cases(ctx, rule, file, fname, what, got, want, lang, construct, line=None):
    """got/want terms; for C the window-off encoding (0) is checked as a second case."""
    ok_all = True
    if lang == 'c':
        cases = list(zip(window_cases(got), canon_cases(want)))
    else:
        cases = [(('window>=1', got, BASE_DOM + [sub(V('W'), C(1))]), ('window>=1', want, None))]
    for (lab, g, dom), (_, w, _) in cases:
        r = sym.equivalent(g, w, dom, box=BOX)
        inst = '%s:%s %s [%s]' % (file.split('/')[-1], fname, what, lab)
        if r[0] == 'equal':
            ctx.held(rule, inst, r[1])
        elif r[0] == 'differ':
            ok_all = False
            wv = r[1]
            sa_ = sym.atoms(g) | sym.atoms(w)
            sig = sym.fail_signature(g, w, [d for d in (dom or []) if sym.atoms(d) <= sa_], box=BOX)
            ctx.violation(rule, file, fname, construct,
                          '%s disagrees with the documented scheme (%s): at %s the code gives %s, the scheme %s  [code: %s | scheme: %s]'
                          % (what, lab, ', '.join('%s=%s' % kv for kv in sorted(wv.items())), sym.evaluate(g, wv), sym.evaluate(w, wv),
                             sym.show(g)[:200], sym.show(w)[:200]), line=line, facts={'witness': wv, 'failset': '%s=%s' % (lab, sig)})
        else:
            ctx.undecided(rule, inst, r[1])
    return ok_all


def _equiv_code(ctx, rule, F, what, a, b, construct, line=None):
    """Equivalence of two terms that both come from the code (same window encoding on both sides)."""
    cases = list(zip(window_cases(a), window_cases(b))) if F.lang == 'c' else [(('window>=1', a, BASE_DOM + [sub(V('W'), C(1))]), ('window>=1', b, None))]
    for (lab, g, dom), (_, w, _) in cases:
        r = sym.equivalent(g, w, dom, box=BOX)
        inst = '%s:%s %s [%s]' % (F.file.split('/')[-1], F.name, what, lab)
        if r[0] == 'equal':
            ctx.held(rule, inst, r[1])
        elif r[0] == 'differ':
            wv = r[1]
            ctx.violation(rule, F.file, F.name, construct, '%s fails (%s): at %s the two sides are %s and %s  [%s | %s]'
                          % (what, lab, ', '.join('%s=%s' % kv for kv in sorted(wv.items())), sym.evaluate(g, wv), sym.evaluate(w, wv), sym.show(g)[:160], sym.show(w)[:160]),
                          line=line, facts={'witness': wv})
        else:
            ctx.undecided(rule, inst, r[1])


# =================================================================================================================
def load_kernels(m):
    """-> list of Facts for the five rolling-buffer distance kernels."""
    out = []
    pf = m.py('dtaidistance.dtw').funcs.get('distance')
    if pf is None:
        raise AnalysisError('anchor vanished: dtw.distance')
    F = kernels.extract_distance_kernel('distance', pf.body, pf.args, 'py', consts=kernels.module_consts(m.py('dtaidistance.dtw')))
    F.file = m.py('dtaidistance.dtw').path
    out.append(F)
    for nm in ('dtw_distance', 'dtw_distance_ndim', 'dtw_distance_euclidean', 'dtw_distance_ndim_euclidean'):
        f = m.cfunc(nm)
        if f is None:
            raise AnalysisError('anchor vanished: C function %s' % nm)
        F = kernels.extract_distance_kernel(nm, f.body, [p[0] for p in f.params], 'c', settings_names=(f.params[-1][0],))
        F.file = m.cfile('dd_dtw.c')
        out.append(F)
    return out


# ----------------------------------------------------------------------------------------------------- R-BAND
def rule_band(ctx, F):
    lo, prev = _rename_prev(F.lo)
    if len(prev) > 1:
        raise AnalysisError('unrecognised shape: column lower bound of %s depends on several carried values %s' % (F.name, prev))
    if prev:
        # the band clause proper: with the pruning start column at 0 the lower limit is the band's
        _equiv_cases(ctx, 'R-BAND', F.file, F.name, 'band lower limit j_lo(i)', sym.subst(lo, {'SC': C(0)}), canon_lo(), F.lang, 'band lower limit', F.inner_line)
        # pruning only narrows: band <= j_lo <= max(band, carried start column)  (the start column may be ignored on rows with a free start)
        lo0 = sym.subst(lo, {'SC': C(0)})          # the code's own band limit (just proved equal to the scheme's)
        cap = tmax(lo0, V('SC'))
        _equiv_code(ctx, 'R-BAND', F, 'pruned lower limit stays inside the band', tmax(lo, lo0), lo, 'band lower limit (prune floor)', F.inner_line)
        _equiv_code(ctx, 'R-BAND', F, 'pruned lower limit never exceeds the carried start column', tmax(lo, cap), cap, 'band lower limit (prune cap)', F.inner_line)
    else:
        _equiv_cases(ctx, 'R-BAND', F.file, F.name, 'band lower limit j_lo(i)', lo, canon_lo(), F.lang, 'band lower limit', F.inner_line)
    hi, prevh = _rename_prev(F.hi)
    if prevh:
        raise AnalysisError('unrecognised shape: column upper bound of %s depends on carried values %s' % (F.name, prevh))
    _equiv_cases(ctx, 'R-BAND', F.file, F.name, 'band upper limit j_hi(i)', hi, canon_hi(), F.lang, 'band upper limit', F.inner_line)
    # rows
    ok = F.outer_lo == C(0) and F.outer_hi == V('L1')
    ctx.check(ok, 'R-BAND', F.file, F.name, 'row range', 'row loop runs over [%s, %s) instead of [0, len(s1))' % (sym.show(F.outer_lo), sym.show(F.outer_hi)), F.outer_line)
    ctx.sample({'kernel': F.name, 'j_lo': sym.show(lo)[:300], 'j_hi': sym.show(hi)[:300]})


# ----------------------------------------------------------------------------------------------------- R-REC
def _toggles(F):
    """Row selector variables: carried scalars updated as `1 - x` once per row.  Returns {var: init}."""
    tg = {}
    for v in F.carried:
        val = F.renv.get(v)
        if val == ('bin', '-', ('num', 1), ('var', v + '@prev')):
            init = F.env0.get(v)
            if init is not None and init[0] == 'num':
                tg[v] = init[1]
    return tg


def _length_term(F):
    """Row length of the rolling buffer: the common factor multiplying the row selector in the store index."""
    idx = F.store[2][2]
    for sub_ in walk_expr(idx):
        if sub_[0] == 'bin' and sub_[1] == '*':
            a, b = sub_[2], sub_[3]
            for x, y in ((a, b), (b, a)):
                ats = {z[1] for z in walk_expr(x) if z[0] == 'var'}
                if any(z.endswith('@prev') for z in ats):
                    return y
    return None


def rule_recurrence(ctx, F):
    arr = F.arr
    tg = _toggles(F)
    if len(tg) != 2 or sorted(tg.values()) != [0, 1]:
        raise AnalysisError('unrecognised shape: row toggles of %s are %s' % (F.name, tg))
    cur_var = [v for v, i in tg.items() if i == 0][0]     # starts 0 -> 1 in the first row: the row being written
    prv_var = [v for v, i in tg.items() if i == 1][0]
    # abstract the current-row values of carried scalars (rolling offsets) as atoms `v@cur`
    table = {}
    for v in F.carried:
        val = F.renv.get(v)
        if val is None or v in tg:
            continue
        nv = norm_minmax(val)
        if any(x[0] in ('cond', 'min', 'max') or (x[0] == 'bin' and x[1] == '*') for x in walk_expr(nv)):
            table[nv] = v + '@cur'
    F.abs_table = table
    length_e = _length_term(F)
    if length_e is None:
        raise AnalysisError('unrecognised shape: no row*length product in the DP store index of %s' % F.name)
    amap = F.amap
    length_t = kernels.term(length_e, amap)
    # invariant prv + cur == 1 lets us write everything over cur@prev
    def split(idx_e, sfx='@prev'):
        inv = {prv_var + sfx: sub(C(1), V(cur_var + sfx))}
        # replace the opaque product atoms: rebuild with explicit row selector
        # the index has the shape  R*length + rest ; R in {1 - cur@prev (current), 1 - prv@prev = cur@prev (previous)}
        found = None
        for sub_ in walk_expr(idx_e):
            if sub_[0] == 'bin' and sub_[1] == '*' and (sub_[2] == length_e or sub_[3] == length_e):
                sel = sub_[3] if sub_[2] == length_e else sub_[2]
                st = sym.subst(kernels.term(sel, amap), inv)
                if found is not None and found[1] != st:
                    return None
                found = (sub_, st)
        if found is None:
            return None
        prod, st = found
        rest_e = _remove_term(idx_e, prod)
        if rest_e is None:
            return None
        rest = kernels.term(abstract(rest_e, table), amap)
        if sfx == '@last':
            # after the loop the toggles hold the values of the last iteration: cur_var selects the last written row
            if st == V(cur_var + sfx):
                return 'cur', rest
            if st == sub(C(1), V(cur_var + sfx)):
                return 'prev', rest
            return None
        if st == sub(C(1), V(cur_var + '@prev')):
            return 'cur', rest
        if st == V(cur_var + '@prev'):
            return 'prev', rest
        return None

    w = split(F.store[2][2])
    if w is None or w[0] != 'cur':
        ctx.violation('R-REC', F.file, F.name, 'DP store row', 'the DP store does not address the row toggled for writing: %s' % fmt(F.store[2])[:200], F.store[4].line)
        return
    wrest = w[1]
    off_cur = sub(add(V('j'), C(1)), wrest)       # position = col + 1 - off  =>  off = j + 1 - rest
    # which carried variable holds the previous row's offset?
    # reads
    value = norm_minmax(F.store[3])
    reads = []
    minargs = None
    for sub_ in walk_expr(value):
        if sub_[0] == 'min':
            minargs = sub_[1]
            break
    if minargs is None or len(minargs) != 3:
        ctx.violation('R-REC', F.file, F.name, 'DP value', 'the DP value is not d + min(three predecessors): %s' % fmt(value)[:300], F.store[4].line)
        return
    # value must be D + min(...)
    if not (value[0] == 'bin' and value[1] == '+' and (value[2][0] == 'min' or value[3][0] == 'min')):
        ctx.violation('R-REC', F.file, F.name, 'DP value', 'the DP value is not `d + min(...)`: %s' % fmt(value)[:300], F.store[4].line)
        return
    D = value[3] if value[2][0] == 'min' else value[2]
    F.D = D
    preds = {}
    pens = []
    prev_off_atoms = set()
    for a in minargs:
        pen = None
        rd = a
        if a[0] == 'bin' and a[1] == '+':
            l, r = a[2], a[3]
            if l[0] == 'idx' and l[1] == ('var', arr):
                rd, pen = l, r
            elif r[0] == 'idx' and r[1] == ('var', arr):
                rd, pen = r, l
        if not (rd[0] == 'idx' and rd[1] == ('var', arr)):
            ctx.violation('R-REC', F.file, F.name, 'DP predecessor %s' % fmt(a)[:80], 'a predecessor is not a cell of the DP array (+ penalty)', F.store[4].line)
            return
        sp = split(rd[2])
        if sp is None:
            ctx.violation('R-REC', F.file, F.name, 'DP predecessor index', 'unrecognised predecessor index %s' % fmt(rd[2])[:200], F.store[4].line)
            return
        row, rest = sp
        if row == 'cur':
            col = sub(sub(add(rest, off_cur), C(1)), V('j'))
        else:
            ats = [x for x in sym.atoms(rest) if x.endswith('@prev')]
            if len(ats) != 1:
                ctx.violation('R-REC', F.file, F.name, 'DP predecessor offset', 'previous-row index %s does not use exactly one carried offset' % sym.show(rest), F.store[4].line)
                return
            prev_off_atoms.add(ats[0])
            col = sub(sub(add(rest, V(ats[0])), C(1)), V('j'))
        if not sym.is_const(col):
            ctx.violation('R-REC', F.file, F.name, 'DP predecessor column', 'predecessor column offset is not constant: %s' % sym.show(col), F.store[4].line)
            return
        preds[(-1 if row == 'prev' else 0, col[2])] = pen
        if pen is not None:
            pens.append(pen)
    want = {(-1, -1): False, (-1, 0): True, (0, -1): True}
    got = {k: (v is not None) for k, v in preds.items()}
    ok = got == want
    ctx.check(ok, 'R-REC', F.file, F.name, 'DP predecessors',
              'predecessor set {(di,dj): penalised} is %s, the DTW recurrence requires %s' % (sorted(got.items()), sorted(want.items())),
              F.store[4].line, detail=str(sorted(got.items())))
    if len(pens) == 2:
        ctx.check(pens[0] == pens[1], 'R-REC', F.file, F.name, 'penalty symmetric',
                  'the two non-diagonal steps use different penalties: %s vs %s' % (fmt(pens[0])[:80], fmt(pens[1])[:80]), F.store[4].line)
        F.penalty_expr = pens[0]
    # carried offset: the previous-row offset variable must carry the current-row offset of the previous iteration
    if len(prev_off_atoms) == 1:
        pa = list(prev_off_atoms)[0]          # e.g. 'skip@prev' (python) or 'skip@prev' via skipp = skip
        qv = pa[:-5]
        endval = F.penv.get(qv, F.renv.get(qv))
        # follow a plain copy `skipp = skip` made at the top of the row: then qv@prev is X@prev for the copied X
        if endval is not None and endval[0] == 'var' and endval[1].endswith('@prev'):
            qv = endval[1][:-5]
            endval = F.penv.get(qv, F.renv.get(qv))
        endt = kernels.term(abstract(norm_minmax(endval), table), amap) if endval is not None else None
        ok = endt is not None and endt == off_cur
        ctx.check(ok, 'R-REC', F.file, F.name, 'rolling offset carried',
                  'the offset subtracted in previous-row reads (%s) is not the offset the previous row was written with '
                  '(end-of-row value %s vs write offset %s)' % (pa, sym.show(endt) if endt else None, sym.show(off_cur)), F.store[4].line)
    # offset == unpruned band lower limit (or 0 when the buffer holds full rows)
    lt = length_t
    want_off = sym.ite(('==', lt, add(V('L2'), C(1))), C(0), canon_lo())
    inv_table = {a: e for e, a in table.items()}
    off_full = off_cur
    if sym.is_lin(off_cur) and len(off_cur[1]) == 1 and off_cur[2] == 0 and off_cur[1][0][0] in inv_table:
        off_full = kernels.term(inv_table[off_cur[1][0][0]], amap)
    _equiv_cases(ctx, 'R-REC', F.file, F.name, 'rolling-buffer offset (skip)', off_full, want_off, F.lang, 'rolling offset', F.store[4].line)
    # row length
    want_len = tmin(add(V('L2'), C(1)), add(add(tmax(sub(V('L1'), V('L2')), sub(V('L2'), V('L1'))), scale(V('W'), 2)), C(1)))
    _equiv_cases(ctx, 'R-REC', F.file, F.name, 'rolling-buffer row length', lt, want_len, F.lang, 'row length', F.store[4].line)
    F.length_t = lt
    F.off_cur = off_cur
    F.off_full = off_full
    F.cur_var = cur_var
    F.split = split
    F.split_last = lambda e: split(_last_abstract(F, e), '@last')
    off_atom = off_cur[1][0][0] if (sym.is_lin(off_cur) and len(off_cur[1]) == 1) else None
    F.off_var = off_atom[:-4] if off_atom and off_atom.endswith('@cur') else None

    def expand_last(t):
        if F.off_var is None:
            return t
        full_last = sym.subst(off_full, {'i': sub(V('L1'), C(1))})
        return sym.subst(t, {F.off_var + '@last': full_last})
    F.expand_last = expand_last

    def expand_cur(t):
        mp = {}
        for a in sym.atoms(t):
            if a in inv_table:
                mp[a] = kernels.term(inv_table[a], amap)
        return sym.subst(t, mp) if mp else t
    F.expand_cur = expand_cur
    # row reset before use: a loop in the row prologue storing inf over [row*length, row*length+length)
    ok = False
    for ev in F.row_pre.events:
        if ev[0] == 'loop':
            lp = ev[2]
            if lp.k == 'for':
                for st in lp.body:
                    if st.k == 'assign' and st.target[0] == 'idx' and st.target[1] == ('var', arr) and subst_expr(st.value, ev[3]) == ('num', float('inf')):
                        ok = True
                        # extent: the reset covers the whole half [0, length) of the row toggled for writing -- a slot left out
                        # keeps the cost written two rows earlier and is read as a predecessor when the cell is skipped (max_step)
                        ends = []
                        for bound in (lp.lo, lp.hi):
                            e = subst_expr(subst_expr(st.target[2], {lp.var: bound}), ev[3])
                            sp = split(norm_minmax(e))
                            ends.append(sp)
                        if lp.inclusive or lp.step not in (None, ('num', 1)) or None in ends or ends[0][0] != 'cur' or ends[1][0] != 'cur':
                            ctx.undecided('R-REC', F.file, F.name, 'row reset extent', 'unrecognised reset loop shape', lp.line)
                        else:
                            _equiv_cases(ctx, 'R-REC', F.file, F.name, 'row reset extent (first slot)', ends[0][1], C(0), F.lang, 'row reset lo', lp.line)
                            _equiv_cases(ctx, 'R-REC', F.file, F.name, 'row reset extent (one past last slot)', ends[1][1], lt, F.lang, 'row reset hi', lp.line)
    ctx.check(ok, 'R-REC', F.file, F.name, 'row reset', 'the row being written is not reset to infinity before the column loop', F.outer_line)
    # max_step guard: `d > max_step` leaves the cell excluded
    guard = [e for e in F.col.events if e[0] == 'continue']
    okg = False
    for g in guard:
        c = g[1][-1] if g[1] else None
        for part in (_conj([c]) if c is not None else []):
            o = orient(part, D)
            if o is not None and o[0] == '>':
                okg = True
                F.max_step_expr = o[2]
    ctx.check(okg, 'R-REC', F.file, F.name, 'max_step guard', 'no guard of the form `d > max_step -> skip cell` (same comparator in every copy) before the DP store', F.inner_line)
    ctx.sample({'kernel': F.name, 'predecessors': sorted((list(k), v) for k, v in got.items()), 'offset': sym.show(off_cur)[:200]})


def _last_abstract(F, e):
    return e


def abstract(e, table):
    """Replace every occurrence of a sub-expression listed in table (expr -> atom name) by ('var', atom)."""
    if not isinstance(e, tuple):
        return e
    if e in table:
        return ('var', table[e])
    k = e[0]
    if k in ('num', 'var', 'str', 'none', 'bool', 'other', 'lambda', 'comp'):
        return e
    if k == 'call':
        return ('call', e[1], tuple(abstract(a, table) for a in e[2]), tuple((kw, abstract(v, table)) for kw, v in e[3]))
    if k in ('tuple', 'list', 'set', 'min', 'max'):
        return (k, tuple(abstract(a, table) for a in e[1]))
    if k == 'dict':
        return e
    return (k,) + tuple(abstract(a, table) if isinstance(a, tuple) else a for a in e[1:])


def _replace(e, table):
    """Replace every occurrence of a sub-expression listed in table (expr -> expr)."""
    if not isinstance(e, tuple):
        return e
    if e in table:
        return table[e]
    return tuple(_replace(a, table) for a in e)


def _remove_term(e, prod):
    """Remove the additive sub-term `prod` from expression e (structure of + and -)."""
    if e == prod:
        return ('num', 0)
    if e[0] == 'bin' and e[1] in ('+', '-'):
        if e[2] == prod:
            if e[1] == '+':
                return e[3]
            return ('un', 'neg', e[3])
        if e[3] == prod and e[1] == '+':
            return e[2]
        l = _remove_term(e[2], prod)
        if l is not None:
            return ('bin', e[1], l, e[3])
        if e[1] == '+':
            r = _remove_term(e[3], prod)
            if r is not None:
                return ('bin', '+', e[2], r)
    return None


# ----------------------------------------------------------------------------------------------------- R-PRUNE
def rule_prune(ctx, F):
    """PrunedDTW block in normal form; never prunes on equality."""
    arr = F.arr
    stored = F.store[2]
    # the comparison of the stored cell with the threshold
    inner = F.inner
    brk = [e for e in F.col.events if e[0] == 'break']
    if F.store[3][0] not in ('num', 'var'):
        # the value may be held in a local that is both stored and compared: read the comparisons as comparisons of the cell
        rep = {F.store[3]: stored}
        brk = [(e[0], tuple(_replace(c, rep) for c in e[1])) + tuple(e[2:]) for e in brk]
    else:
        rep = {}
    if len(brk) != 1:
        ctx.violation('R-PRUNE', F.file, F.name, 'prune break', 'expected exactly one early break in the column loop, found %d' % len(brk), F.inner_line)
        return
    path = brk[0][1]
    # path: (not max_step guard), prune condition, j >= ec
    prune_c = None
    for c in path:
        cc = c
        neg = False
        while cc[0] == 'un' and cc[1] == 'not':
            cc = cc[2]
            neg = not neg
        if cc[0] == 'bin' and cc[1] in ('<', '<=', '>', '>=') and (cc[2] == stored or cc[3] == stored):
            prune_c = (cc, neg)
    if prune_c is None:
        ctx.violation('R-PRUNE', F.file, F.name, 'prune condition', 'the early break is not guarded by a comparison of the cell just stored with the threshold', F.inner_line)
        return
    cc, neg = prune_c
    op, a, b = cc[1], cc[2], cc[3]
    if b == stored:
        a, b = b, a
        op = {'<': '>', '<=': '>=', '>': '<', '>=': '<='}[op]
    if neg:
        op = {'<': '>=', '<=': '>', '>': '<=', '>=': '<'}[op]
    F.max_dist_expr = b
    ctx.check(op == '>', 'R-PRUNE', F.file, F.name, 'prune comparator',
              'a cell is pruned when `cell %s max_dist`; only `cell > max_dist` is sound because the Euclidean bound is attained whenever DTW equals it' % op,
              brk[0][2].line)
    # break guard: j >= ec(prev)
    last = path[-1]
    ol = orient(last, ('var', 'j'))
    okb = ol is not None and ol[0] == '>=' and ol[2][0] == 'var' and ol[2][1].endswith('@prev')
    ctx.check(okb, 'R-PRUNE', F.file, F.name, 'prune break guard', 'the early break must be guarded by `j >= ec` (ec from the previous row); found %s' % fmt(last)[:120], brk[0][2].line)
    ecv = ol[2][1][:-5] if okb else None
    # end-of-iteration values
    env_out = {k: _replace(v, rep) if isinstance(v, tuple) else v for k, v in (F.col_env or {}).items()}
    P = ('bin', '>', stored, b) if not neg else None
    # sc: the carried variable in the column lower bound
    scs = [x[:-5] for x in sym.atoms(F.lo) if x.endswith('@prev')]
    facts = {}
    if len(scs) == 1:
        scv = scs[0]
        val = env_out.get(scv)
        want_shape = False
        sfv = None
        # cond(P, cond(not sf, j+1, sc@in), sc@in)  (or mirrored)
        if val is not None and val[0] == 'cond':
            inner_c = val[2] if _is_prune(val[1], stored) == 'prune' else (val[3] if _is_prune(val[1], stored) == 'keep' else None)
            other = val[3] if _is_prune(val[1], stored) == 'prune' else val[2]
            if inner_c is not None and other == ('var', scv + '@in') and inner_c[0] == 'cond':
                g = inner_c[1]
                if g[0] == 'un' and g[1] == 'not' and g[2][0] == 'var' and g[2][1].endswith('@in') and inner_c[2] == ('bin', '+', ('var', 'j'), ('num', 1)) \
                        and inner_c[3] == ('var', scv + '@in'):
                    want_shape = True
                    sfv = g[2][1][:-3]
        ctx.check(want_shape, 'R-PRUNE', F.file, F.name, 'sc update',
                  'start-column update is not `if pruned and no smaller value seen yet: sc = j + 1`; found %s' % (fmt(val)[:200] if val else None), F.inner_line)
        if sfv:
            v2 = env_out.get(sfv)
            ok2 = v2 is not None and v2[0] == 'cond' and ((_is_prune(v2[1], stored) == 'prune' and v2[2] == ('var', sfv + '@in') and _truthy(v2[3])) or
                                                          (_is_prune(v2[1], stored) == 'keep' and _truthy(v2[2]) and v2[3] == ('var', sfv + '@in')))
            ctx.check(ok2, 'R-PRUNE', F.file, F.name, 'smaller_found update', 'smaller_found must become true exactly on kept cells; found %s' % (fmt(v2)[:160] if v2 else None), F.inner_line)
            pre = F.renv.get(sfv)
            ctx.check(pre is not None and _falsy(pre), 'R-PRUNE', F.file, F.name, 'smaller_found reset', 'smaller_found is not reset to false at the start of each row', F.outer_line)
    else:
        ctx.violation('R-PRUNE', F.file, F.name, 'sc in band', 'the column lower bound does not incorporate exactly one carried start column (found %s)' % scs, F.inner_line)
    # ec_next: carried var assigned j+1 on kept cells, i before the loop, and ec := ec_next after
    if ecv:
        post = F.penv.get(ecv)
        okp = post is not None and post[0] == 'var' and post[1].endswith('@out')
        ctx.check(okp, 'R-PRUNE', F.file, F.name, 'ec update', '`ec = ec_next` after the column loop is missing; ec becomes %s' % (fmt(post)[:100] if post else None), F.outer_line)
        if okp:
            env = post[1][:-4]
            v3 = env_out.get(env)
            ok3 = v3 is not None and v3[0] == 'cond' and ((_is_prune(v3[1], stored) == 'prune' and v3[2] == ('var', env + '@in') and v3[3] == ('bin', '+', ('var', 'j'), ('num', 1))) or
                                                          (_is_prune(v3[1], stored) == 'keep' and v3[3] == ('var', env + '@in') and v3[2] == ('bin', '+', ('var', 'j'), ('num', 1))))
            ctx.check(ok3, 'R-PRUNE', F.file, F.name, 'ec_next update', 'ec_next must be set to j + 1 exactly on kept cells; found %s' % (fmt(v3)[:160] if v3 else None), F.inner_line)
            pre = F.renv.get(env)
            ctx.check(pre == ('var', 'i'), 'R-PRUNE', F.file, F.name, 'ec_next reset', 'ec_next must start each row at the row index; found %s' % (fmt(pre) if pre else None), F.outer_line)
    _prune_vs_psi(ctx, F, ecv, scs)
    ctx.sample({'kernel': F.name, 'prune': 'cell %s max_dist' % op, 'max_dist': fmt(b)[:160]})


def _prune_vs_psi(ctx, F, ecv, scs):
    """PrunedDTW's two carried columns assume that a cell is reachable only from cells of the DP matrix.  With psi-relaxation there are free
    starts outside it: (a) row -1, columns <= psi_2b - 1, so the first row may not stop before column psi_2b: the initial end column must be
    >= psi_2b; (b) column -1 of every row i < psi_1b, so the carried start column may not be applied to those rows."""
    amap = F.amap
    if ecv:
        init = F.env0.get(ecv)
        try:
            t = kernels.term(init, amap) if init is not None else None
        except sym.Unsupported:
            t = None
        if t is None:
            ctx.undecided('R-PRUNE', '%s initial end column' % F.name, 'no initial value of %s found' % ecv)
        else:
            r = sym.equivalent(tmin(sub(t, V('PSI2B')), C(0)), C(0), PSI_DOM, box=PSI_BOX)
            if r[0] == 'equal':
                ctx.held('R-PRUNE', '%s initial end column >= psi_2b' % F.name, r[1])
            elif r[0] == 'differ':
                ctx.violation('R-PRUNE', F.file, F.name, 'initial end column vs psi_2b',
                              'pruning starts with end column %s = %s, but with psi_2b = %s the first row has free starts up to column psi_2b: if cell (0, 0) exceeds max_dist the row is '
                              'abandoned before those cells are computed, and the pruned result differs from the unpruned one' % (ecv, sym.show(t), r[1].get('PSI2B')),
                              F.outer_line, facts={'witness': r[1]})
            else:
                ctx.undecided('R-PRUNE', '%s initial end column' % F.name, r[1])
    if len(scs) == 1:
        sc_atom = scs[0] + '@prev'
        # row 0 pruned entirely at column 0 (cell (0, 0) > max_dist) leaves sc = 1; row 1 still has a free start when psi_1b = 2
        val = {'L1': 5, 'L2': 5, 'W': 5, 'i': 1, 'PSI1B': 2, 'PSI1E': 0, 'PSI2B': 0, 'PSI2E': 0, sc_atom: 1}
        for a in sym.atoms(F.lo):
            val.setdefault(a, 0)
        try:
            v = max(sym.evaluate(F.lo, val), sym.evaluate(F.lo, dict(val, i=2)))     # rows 1 and 2 = psi_1b both read a free cell (i-1, -1) or (i, -1)
        except Exception:  # noqa
            v = None
        if v is None:
            ctx.undecided('R-PRUNE', '%s start column on free-start rows' % F.name, 'cannot evaluate the column lower bound')
        else:
            ctx.check(v == 0, 'R-PRUNE', F.file, F.name, 'start column on free-start rows',
                      'with psi_1b = 2 rows 1 and 2 can start from a free cell of column -1, but the start column %s = 1 carried from row 0 (cell (0, 0) > max_dist) is applied to them '
                      '(lower column bound %s = %s at L1=L2=W=5, i in {1, 2}): the free start is skipped and the pruned result differs from the unpruned one'
                      % (scs[0], sym.show(F.lo)[:120], v), F.inner_line,
                      facts={'witness': {k: w for k, w in val.items() if k in ('L1', 'L2', 'W', 'i', 'PSI1B', sc_atom)}})


def _is_prune(c, stored):
    """Classify condition c relative to `stored > T`: 'prune' if c <=> stored > T, 'keep' if c <=> stored <= T."""
    neg = False
    while c[0] == 'un' and c[1] == 'not':
        c = c[2]
        neg = not neg
    if not (c[0] == 'bin' and c[1] in ('<', '<=', '>', '>=')):
        return None
    op, a, b = c[1], c[2], c[3]
    if b == stored:
        a, b = b, a
        op = {'<': '>', '<=': '>=', '>': '<', '>=': '<='}[op]
    if a != stored:
        return None
    if neg:
        op = {'<': '>=', '<=': '>', '>': '<=', '>=': '<'}[op]
    return 'prune' if op in ('>', '>=') else 'keep'


def _truthy(e):
    return e in (('bool', True), ('num', 1))


def _falsy(e):
    return e in (('bool', False), ('num', 0))


# ----------------------------------------------------------------------------------------------------- R-PSI / R-CLAMP
PSI_DOM = [V('PSI1B'), V('PSI1E'), V('PSI2B'), V('PSI2E'), sub(V('L1'), V('PSI1B')), sub(V('L1'), V('PSI1E')),
           sub(V('L2'), V('PSI2B')), sub(V('L2'), V('PSI2E'))]
PSI_BOX = dict(BOX)
PSI_BOX.update({'PSI1B': range(0, 6), 'PSI1E': range(0, 6), 'PSI2B': range(0, 6), 'PSI2E': range(0, 6), 'L1': range(1, 7), 'L2': range(1, 7)})


def _conj(path):
    """Flatten a path (tuple of conditions) into atomic conjuncts."""
    out = []

    def go(c):
        if c[0] == 'bin' and c[1] == 'and':
            go(c[2])
            go(c[3])
        else:
            out.append(c)
    for c in path:
        go(c)
    return out


def _has_cmp(conj, amap, op, left, right, dom=None):
    """Some conjunct is `l op r` with term(l) == left and term(r) == right (after normalising direction)."""
    flip = {'<': '>', '>': '<', '<=': '>=', '>=': '<=', '==': '==', '!=': '!='}
    for c in conj:
        if c[0] == 'bin' and c[1] in flip:
            try:
                l, r = kernels.term(c[2], amap), kernels.term(c[3], amap)
            except sym.Unsupported:
                continue
            for (o, a, b) in ((c[1], l, r), (flip[c[1]], r, l)):
                if o == op and _teq(a, left, dom) and _teq(b, right, dom):
                    return True
    return False


def _teq(a, b, dom=None):
    if a == b:
        return True
    if dom is None:
        return False
    return sym.equivalent(a, b, dom, box=PSI_BOX)[0] == 'equal'


def rule_psi(ctx, F):
    arr = F.arr
    amap = F.amap
    if F.split is None:
        ctx.undecided('R-PSI', F.name, 'recurrence facts unavailable')
        return
    dom_w = BASE_DOM + ([sub(V('W'), C(1))] if True else [])
    # (1) first-row prefix: for x in [0, PSI2B + 1): arr[x] = 0 in the prologue, on row 0 (previous row of i = 0)
    found = None
    for ev in F.prologue.events:
        if ev[0] == 'loop' and ev[2].k == 'for':
            lp = ev[2]
            for st in lp.body:
                if st.k == 'assign' and st.target[0] == 'idx' and st.target[1] == ('var', arr) and subst_expr(st.value, ev[3]) == ('num', 0):
                    found = (lp, st, ev[3])
    if found is None:
        ctx.violation('R-PSI', F.file, F.name, 'psi_2b prologue', 'no loop zeroing the relaxed prefix of the first row', F.outer_line)
    else:
        lp, st, envp = found
        lo = kernels.term(subst_expr(lp.lo, envp), amap)
        hi = kernels.term(subst_expr(lp.hi, envp), amap)
        if lp.d.get('inclusive'):
            hi = add(hi, C(1))
        idx_ok = st.target[2] == ('var', lp.var)
        ok = lo == C(0) and hi == add(V('PSI2B'), C(1)) and idx_ok
        ctx.check(ok, 'R-PSI', F.file, F.name, 'psi_2b prologue',
                  'the first-row relaxation must zero positions [0, psi_2b + 1) (columns -1..psi_2b-1 of series 2); found [%s, %s) index %s'
                  % (sym.show(lo), sym.show(hi), fmt(st.target[2])), lp.line)
        F.psi2b_hi = hi
        F.psi2b_line = lp.line
    # (2) first column: store 0 at (current row, position 0) guarded by psi_1b != 0, j_lo == 0, i < psi_1b
    cand = [e for e in F.row_pre.events if e[0] == 'store' and e[2][1] == ('var', arr) and e[3] == ('num', 0)]
    if len(cand) != 1:
        ctx.violation('R-PSI', F.file, F.name, 'psi_1b first column', 'expected one guarded store of 0 into the first column of the current row, found %d' % len(cand), F.outer_line)
    else:
        e = cand[0]
        sp = F.split(e[2][2])
        conj = _conj(e[1])
        lo_t, _ = _rename_prev(F.lo)
        ok_pos = sp is not None and sp[0] == 'cur' and sp[1] == C(0)
        ok_i = _has_cmp(conj, amap, '<', V('i'), V('PSI1B'))
        ok_lo = False
        for c in conj:
            if c[0] == 'bin' and c[1] == '==':
                for a, b in ((c[2], c[3]), (c[3], c[2])):
                    if b == ('num', 0):
                        try:
                            ta, _ = _rename_prev(kernels.term(a, amap))
                        except sym.Unsupported:
                            continue
                        if _teq(ta, lo_t, _fulldom(F)):
                            ok_lo = True
        ctx.check(ok_pos and ok_i and ok_lo, 'R-PSI', F.file, F.name, 'psi_1b first column',
                  'first-column relaxation must store 0 at (row i, column -1) iff i < psi_1b and the band starts at column 0 '
                  '(position ok=%s, `i < psi_1b` ok=%s, `j_lo == 0` ok=%s)' % (ok_pos, ok_i, ok_lo), e[4].line)
    # (3) last column: running minimum over cell (i, j_hi - 1) when j_hi == L2 and L1 - 1 - i <= psi_1e
    hit = None
    for v in F.carried:
        val = F.penv.get(v)
        if val is None:
            continue
        nv = norm_minmax(val)
        for sub_ in walk_expr(nv):
            if sub_[0] == 'min' and ('var', v + '@prev') in sub_[1]:
                others = [x for x in sub_[1] if x != ('var', v + '@prev')]
                if len(others) == 1 and others[0][0] == 'idx' and others[0][1] == ('var', arr):
                    hit = (v, nv, others[0])
    if hit is None:
        ctx.violation('R-PSI', F.file, F.name, 'psi_1e last column', 'no running minimum over the last-column cell of each row', F.outer_line)
    else:
        v, nv, cell = hit
        F.psi_short_var = v
        # reaching definitions: the index may only depend on row quantities
        stale = sorted({x[1] for x in walk_expr(cell[2]) if x[0] == 'var' and (x[1].endswith('@out') or x[1].endswith('@in'))})
        ctx.check(not stale, 'R-PSI', F.file, F.name, 'psi_1e candidate cell index',
                  'the last-column candidate is read through %s, the value left behind by the column loop: it is stale when the last in-band '
                  'cell of the row was skipped (max_step `continue`, prune `break`, empty range); the Python engine reads the explicit cell (i, j_hi - 1)'
                  % stale, F.outer_line)
        if not stale:
            sp = F.split(cell[2])
            okc = False
            if sp is not None and sp[0] == 'cur':
                col = sub(add(sp[1], F.off_cur), C(1))
                okc = _teq(F.expand_cur(col), sub(F.hi, C(1)), _fulldom(F))
                # under the guard `j_hi == len(s2)` the cell may equally be addressed as (i, len(s2) - 1)
                F._psi1e_col = F.expand_cur(col)
            ctx.check(okc or getattr(F, '_psi1e_col', None) is not None, 'R-PSI', F.file, F.name, 'psi_1e candidate cell row', 'the last-column candidate must lie in the current row', F.outer_line)
            F._psi1e_okc = okc
        # guards
        conds = []
        for sub_ in walk_expr(nv):
            if sub_[0] == 'cond':
                conds.append(sub_[1])
        conj = _conj(conds)
        ok1 = _has_cmp(conj, amap, '<=', sub(sub(V('L1'), C(1)), V('i')), V('PSI1E'))
        ok2 = False
        for c in conj:
            if c[0] == 'bin' and c[1] == '==':
                try:
                    a, b = kernels.term(c[2], amap), kernels.term(c[3], amap)
                except sym.Unsupported:
                    continue
                if (_teq(a, F.hi, _fulldom(F)) and b == V('L2')) or (_teq(b, F.hi, _fulldom(F)) and a == V('L2')):
                    ok2 = True
        if not stale:
            okc = getattr(F, '_psi1e_okc', False)
            if not okc and ok2 and getattr(F, '_psi1e_col', None) is not None:
                okc = _teq(F._psi1e_col, sub(V('L2'), C(1)), _fulldom(F))
            ctx.check(bool(okc), 'R-PSI', F.file, F.name, 'psi_1e candidate cell', 'the last-column candidate must be cell (i, j_hi - 1) = (i, len(s2) - 1)', F.outer_line)
        ctx.check(ok1 and ok2, 'R-PSI', F.file, F.name, 'psi_1e guards',
                  'the last-column relaxation must consider row i iff len(s1) - 1 - i <= psi_1e and the band reaches the last column '
                  '(`l1-1-i <= psi_1e` ok=%s, `j_hi == l2` ok=%s)' % (ok1, ok2), F.outer_line)


def rule_clamp(ctx, F):
    """Psi-derived index ranges into the band-sized rolling buffer stay inside it (bounds obligations with witness)."""
    if F.length_t is None:
        ctx.undecided('R-CLAMP', F.name, 'buffer facts unavailable')
        return
    dom = BASE_DOM[:2] + PSI_DOM
    # (a) prologue: positions [0, psi2b_hi) must be < 2*length
    if F.psi2b_hi is not None:
        size = scale(F.length_t, 2)
        for (lab, hi, d), (_, sz, _) in zip(_wcases(F, F.psi2b_hi), _wcases(F, size)):
            # violated iff hi - 1 >= size feasible
            viol = sub(sub(hi, C(1)), sz)     # >= 0 means out of bounds
            w = _find(viol, dom + d)
            inst = '%s psi_2b prologue within 2*length [%s]' % (F.name, lab)
            if w is None:
                ctx.held('R-CLAMP', inst)
            else:
                ctx.violation('R-CLAMP', F.file, F.name, 'psi_2b prologue range',
                              'the first-row relaxation writes positions [0, %s) into a buffer of 2*length = %s entries without clamping: '
                              'at %s it writes position %s of %s' % (sym.show(hi), sym.show(sz)[:120], _fmtw(w), sym.evaluate(hi, w) - 1, sym.evaluate(sz, w)),
                              F.psi2b_line, facts={'witness': w})
                break
    # (b) epilogue last-row scan: lowest position inside the row must be >= 0
    scan = None
    for ev in F.epilogue.events:
        if ev[0] == 'loop' and ev[2].k == 'for':
            lp = ev[2]
            reads = [x for st in walk_stmts(lp.body) for e in _exprs(st) for x in reads_of(e, F.arr)]
            if reads:
                scan = ('loop', lp, ev[3], reads[0])
    if scan is None:
        # python: slice arr[a:b]
        for ev in F.epilogue.events:
            if ev[0] in ('return', 'store') and ev[2 if ev[0] == 'return' else 3] is not None:
                for x in walk_expr(ev[2 if ev[0] == 'return' else 3]):
                    if x[0] == 'idx' and x[1] == ('var', F.arr) and x[2][0] == 'slice':
                        scan = ('slice', x[2], None, None)
    if scan is None:
        ctx.violation('R-CLAMP', F.file, F.name, 'psi_2e scan', 'no last-row relaxation scan found in the epilogue', F.outer_line)
        return
    amap = F.amap
    table = F.abs_table or {}
    last = {}
    for a in list(table.values()):
        pass
    if scan[0] == 'loop':
        _, lp, envp, rd = scan
        env2 = dict(envp)
        env2.pop(lp.var, None)
        idx = subst_expr(rd[2], env2)
        lo_e = subst_expr(lp.lo, envp)
        pos_lo_e = subst_expr(idx, {lp.var: lo_e})
    else:
        pos_lo_e = scan[1][1]
    sp = F.split_last(norm_minmax(pos_lo_e))
    if sp is None:
        ctx.undecided('R-CLAMP', '%s psi_2e scan start' % F.name, 'unrecognised index %s' % fmt(pos_lo_e)[:160])
        return
    row, rest = sp     # rest: position inside the row, over skip@last
    # skip@last is the band lower limit of the last row (or 0): substitute the definition with i = L1 - 1
    rest_full = F.expand_last(rest)
    done = False
    for (lab, r, d) in _wcases(F, rest_full):
        w = _find(sub(C(-1), r), dom + d)      # -1 - r >= 0  <=> r < 0
        inst = '%s psi_2e scan start >= row start [%s]' % (F.name, lab)
        if w is None:
            ctx.held('R-CLAMP', inst)
        elif not done:
            done = True
            ctx.violation('R-CLAMP', F.file, F.name, 'psi_2e scan range',
                          'the last-row relaxation scans back psi_2e cells from the last column without clamping to the band: at %s the scan starts at '
                          'in-row position %s (before the row / before the buffer)' % (_fmtw(w), sym.evaluate(r, w)), F.outer_line, facts={'witness': w})


def rule_store_in_row(ctx, F):
    """The DP store `arr[row*length + j + 1 - offset]` of a rolling-buffer kernel stays inside its row for every column of the band:
    0 <= j + 1 - offset < length for j_lo(i) <= j < j_hi(i) (memory safety of the two-row buffer; the terms are the code's own)."""
    if F.length_t is None or getattr(F, 'off_full', None) is None:
        ctx.undecided('R-CLAMP', '%s DP store inside its row' % F.name, 'buffer facts unavailable')
        return
    lo, prev = _rename_prev(F.lo)
    lo = sym.subst(lo, {'SC': C(0)}) if prev else lo      # pruning only raises the first column
    hi = F.hi
    from itertools import product
    for (lab, lo_t, d), (_, hi_t, _), (_, off_t, _), (_, len_t, _) in zip(_wcases(F, lo), _wcases(F, hi), _wcases(F, F.off_full), _wcases(F, F.length_t)):
        dom = BASE_DOM + d + [sub(sub(hi_t, C(1)), lo_t)]
        below = sub(sub(off_t, lo_t), C(2))               # lo + 1 - off <= -1
        above = sub(sub(hi_t, off_t), len_t)              # (hi - 1) + 1 - off >= length
        ats = sorted(set().union(*[sym.atoms(t) for t in (lo_t, hi_t, off_t, len_t)]) | {'L1', 'L2', 'i'})
        if not set(ats) <= set(BOX):
            ctx.undecided('R-CLAMP', '%s DP store inside its row [%s]' % (F.name, lab), 'terms over %s' % ats)
            continue
        w = None
        for vals in product(*[BOX[a] for a in ats]):
            val = dict(zip(ats, vals))
            val.setdefault('W', 0)
            if all(sym.evaluate(x, val) >= 0 for x in dom):
                if sym.evaluate(below, val) >= 0:
                    w = (val, 'before', sym.evaluate(lo_t, val) + 1 - sym.evaluate(off_t, val))
                    break
                if sym.evaluate(above, val) >= 0:
                    w = (val, 'past', sym.evaluate(hi_t, val) - sym.evaluate(off_t, val))
                    break
        inst = '%s DP store inside its row [%s]' % (F.name, lab)
        if w is None:
            ctx.held('R-CLAMP', inst)
        else:
            val, side, pos = w
            ctx.violation('R-CLAMP', F.file, F.name, 'DP store position',
                          'the cell of column j is stored at in-row position j + 1 - %s of a row of %s entries: at %s the band [%s, %s) reaches position %s, %s the row '
                          '(the two rows are the whole allocation, so this is a write %s)'
                          % (sym.show(off_t)[:120], sym.show(len_t)[:80], _fmtw(val), sym.evaluate(lo_t, val), sym.evaluate(hi_t, val), pos, side,
                             'into the other row or outside the buffer'), F.store[4].line, facts={'witness': val})
            break


def _fulldom(F):
    return BASE_DOM + PSI_DOM + ([V('SC')] if True else []) + ([sub(V('W'), C(1))] if F.lang != 'c' else [V('W')])


def _exprs(st):
    from ..ir import stmt_exprs
    return stmt_exprs(st)


def _wcases(F, t):
    if F.lang == 'c':
        yield 'window>=1', t, [sub(V('W'), C(1))]
        yield 'window off', sym.subst(t, {'W': C(0)}), []
    else:
        yield 'window>=1', t, [sub(V('W'), C(1))]


def _find(viol, dom):
    """Integer valuation with all dom >= 0 and viol >= 0, or None (box search on the extracted terms)."""
    ats = sorted(sym.atoms(viol) | set().union(*[sym.atoms(d) for d in dom]))
    box = {'L1': range(1, 11, 3), 'L2': range(1, 11, 3), 'W': range(1, 4), 'PSI1B': range(0, 1), 'PSI1E': range(0, 1),
           'PSI2B': range(0, 10), 'PSI2E': range(0, 10), 'i': range(0, 1)}
    need = sym.atoms(viol)
    from itertools import product
    ats = [a for a in ats if a in need or a in ('L1', 'L2')]
    ranges = [box.get(a, range(0, 4)) for a in ats]
    for vals in product(*ranges):
        val = dict(zip(ats, vals))
        for a in ('PSI1B', 'PSI1E', 'PSI2B', 'PSI2E', 'W', 'i'):
            val.setdefault(a, 0)
        if all(sym.evaluate(d, val) >= 0 for d in dom) and sym.evaluate(viol, val) >= 0:
            return {a: val[a] for a in ats}
    return None


def _fmtw(w):
    return ', '.join('%s=%s' % kv for kv in sorted(w.items()))


# ----------------------------------------------------------------------------------------------------- R-DOM
def _fold_returns(events):
    """`if c: return inf` followed by `return v` is `return (c ? inf : v)`: a pair of return events whose paths differ in the polarity of their last
    condition only is folded into one conditional return (the shape the rules read the final over-threshold conversion from)."""
    from ..ir import canon_cond
    INF = ('num', float('inf'))
    evs = list(events)
    rets = [e for e in evs if e[0] == 'return' and e[2] is not None]
    for a in rets:
        if a[2] != INF or not a[1]:
            continue
        for b in rets:
            if b is a or len(b[1]) != len(a[1]) or tuple(b[1][:-1]) != tuple(a[1][:-1]) or b[2] == INF:
                continue
            ca, cb = a[1][-1], b[1][-1]
            if canon_cond(('un', 'not', ca)) == cb or canon_cond(('un', 'not', cb)) == ca:
                folded = ('return', tuple(a[1][:-1]), ('cond', ca, INF, b[2])) + tuple(b[3:])
                out = []
                for e in evs:
                    if e is a:
                        continue
                    out.append(folded if e is b else e)
                return _fold_returns(out)
    return evs


def _calls(e):
    return [(dotted(x[1]) or '', x) for x in walk_expr(e) if x[0] == 'call']


def kernel_kind(D):
    """'euclidean' when the point distance takes a root / absolute value, else 'squared' (inferred, not from the name)."""
    for nm, c in _calls(D):
        if nm.split('.')[-1] in ('sqrt', 'fabs', 'abs'):
            return 'euclidean'
    return 'squared'


def _conv_class(e, raw_atoms):
    """How a threshold expression is derived from the raw setting: 'squared' (pow(x,2) / x*x), 'identity', 'mixed' (different conversions on
    different paths), or None.  Conditional values are classified leaf by leaf; constant leaves (INFINITY, 0: option off) carry no domain."""
    if e[0] == 'cond':
        ks = {_conv_class(e[2], raw_atoms), _conv_class(e[3], raw_atoms)} - {None}
        if len(ks) > 1:
            return 'mixed'
        return ks.pop() if ks else None
    kinds = set()
    for x in walk_expr(e):
        if x[0] == 'call':
            nm = (dotted(x[1]) or '').split('.')[-1]
            if nm == 'pow' and len(x[2]) == 2 and x[2][1] == ('num', 2) and _mentions(x[2][0], raw_atoms):
                kinds.add('squared')
        if x[0] == 'bin' and x[1] == '*' and x[2] == x[3] and _mentions(x[2], raw_atoms):
            kinds.add('squared')
        if x[0] == 'bin' and x[1] == '**' and x[3] == ('num', 2) and _mentions(x[2], raw_atoms):
            kinds.add('squared')
    if kinds:
        return 'squared'
    if _mentions(e, raw_atoms):
        return 'identity'
    return None


def _mentions(e, names):
    for x in walk_expr(e):
        if x[0] == 'attr' and x[2] in names:
            return True
        if x[0] == 'var' and x[1] in names:
            return True
    return False


def rule_dom_c(ctx, F):
    """C kernels: thresholds live in the domain of the accumulated costs, the result is converted exactly once."""
    if F.D is None:
        ctx.undecided('R-DOM', F.name, 'recurrence facts unavailable')
        return
    kind = kernel_kind(F.D)
    F.kind = kind
    want = 'squared' if kind == 'squared' else 'identity'
    items = [('max_step', F.max_step_expr, {'max_step'}), ('penalty', F.penalty_expr, {'penalty'}), ('max_dist', F.max_dist_expr, {'max_dist'})]
    for nm, e, raw in items:
        if e is None:
            ctx.undecided('R-DOM', '%s %s' % (F.name, nm), 'threshold expression not found')
            continue
        cls = _conv_class(e, raw)
        if cls is None:
            ctx.undecided('R-DOM', '%s %s' % (F.name, nm), 'threshold does not derive from settings->%s' % nm)
            continue
        ctx.check(cls == want, 'R-DOM', F.file, F.name, '%s conversion' % nm,
                  'the point distance of this kernel is %s, so accumulated costs are %s; the %s threshold compared/added to them is %s'
                  % ('|x-y| / sqrt' if kind == 'euclidean' else '(x-y)^2', 'not squared' if kind == 'euclidean' else 'squared', nm,
                     'squared (pow(.,2))' if cls == 'squared' else ('squared on some paths only: %s' % fmt(e)[:120] if cls == 'mixed' else 'used as given')), F.inner_line, detail=cls)
    # the pruning bound fed into max_dist: ub_euclidean* of the same kind, converted like a threshold
    md = F.max_dist_expr
    if md is not None:
        ubs = [nm for nm, c in _calls(md) if nm.startswith('ub_euclidean') or nm.startswith('euclidean_distance')]
        for nm in set(ubs):
            is_e = nm.endswith('_euclidean') and nm != 'ub_euclidean'
            ctx.check(is_e == (kind == 'euclidean'), 'R-VAR', F.file, F.name, 'pruning bound %s' % nm,
                      'a %s kernel takes its pruning bound from %s, the bound of the other inner distance' % (kind, nm), F.inner_line)
            is_nd = '_ndim' in nm
            ctx.check(is_nd == ('_ndim' in F.name), 'R-VAR', F.file, F.name, 'pruning bound dimensionality %s' % nm,
                      '%s uses %s: dimensionality mismatch' % (F.name, nm), F.inner_line)
    # returns
    for ev in _fold_returns(F.epilogue.events) + F.prologue.events:
        if ev[0] != 'return' or ev[2] is None:
            continue
        val = ev[2]
        path = ev[1]
        if val == ('num', float('inf')) or val == ('num', 0):
            ctx.held('R-DOM', '%s return %s' % (F.name, fmt(val)))
            continue
        if val[0] == 'call' and (dotted(val[1]) or '') == F.name + '_euclidean':
            # top-of-function dispatch `if (settings->inner_dist == 1) return X_euclidean(same arguments)`
            okd = len(path) == 1 and path[0][0] == 'bin' and path[0][1] == '==' and _mentions(path[0], {'inner_dist'}) and path[0][3] == ('num', 1)
            oka = [a for a in val[2]] == [('var', p) for p in F.amap.params]
            ctx.check(okd and oka, 'R-VAR', F.file, F.name, 'inner_dist dispatch',
                      'the dispatch to the euclidean sibling must be `inner_dist == 1` with the arguments passed through unchanged', ev[3].line)
            continue
        reads = [x for x in walk_expr(val) if x[0] == 'idx' and x[1] == ('var', F.arr)]
        is_ub = any(nm.startswith('ub_euclidean') for nm, c in _calls(val))
        roots = [c for nm, c in _calls(val) if nm == 'sqrt']
        if is_ub and not reads:
            # only_ub short-cut: must be the Euclidean distance itself (result domain)
            cls = _conv_class(val, set()) or ('squared' if any(nm == 'pow' for nm, c in _calls(val)) else 'identity')
            sq = any(nm == 'pow' for nm, c in _calls(val))
            F.only_ub_domain = 'internal' if sq else ('result' if not F.name.endswith('_euclidean') else None)
            ctx.check(not sq, 'R-DOM', F.file, F.name, 'only_ub return',
                      'asking for only the upper bound returns pow(ub_euclidean(...), 2): a value of the internal (squared) domain where the '
                      'Euclidean distance itself is the contract', ev[3].line)
            continue
        # DP result
        if kind == 'squared':
            bad = [x for x in reads if not any(x in list(walk_expr(r)) for r in roots)]
            ok = bool(roots) and not bad
            # psi_shortest style scalars: accept sqrt(var@...) too
            ctx.check(ok or (bool(roots) and not reads), 'R-DOM', F.file, F.name, 'result conversion',
                      'a squared-distance kernel must return sqrt(accumulated cost) on every DP exit; found %s' % fmt(val)[:200], ev[3].line)
        else:
            ctx.check(not roots, 'R-DOM', F.file, F.name, 'result conversion',
                      'a euclidean-distance kernel accumulates costs in the result domain; its result must not be rooted again: %s' % fmt(val)[:200], ev[3].line)
        # final over-threshold conversion: strict, result domain vs raw max_dist
        cmpd = False
        for x in walk_expr(val):
            if x[0] == 'cond':
                for c in _conj([x[1]]):
                    if c[0] == 'bin' and c[1] in ('>', '>=', '<', '<=') and _mentions(c, {'max_dist'}):
                        cmpd = True
                        strict = c[1] in ('>', '<')
                        rawside = c[3] if _mentions(c[3], {'max_dist'}) else c[2]
                        other = c[2] if rawside is c[3] else c[3]
                        conv = _conv_class(rawside, {'max_dist'})
                        rooted = any(nm == 'sqrt' for nm, cc in _calls(other)) or kind == 'euclidean'
                        ctx.check(strict, 'R-PRUNE', F.file, F.name, 'final threshold comparator',
                                  'a result equal to max_dist must be returned, only `result > max_dist` becomes infinity', ev[3].line)
                        ctx.check((conv == 'identity') == rooted, 'R-DOM', F.file, F.name, 'final threshold domain',
                                  'the final comparison mixes domains: result is %s, threshold is %s' %
                                  ('in the result domain' if rooted else 'an accumulated (squared) cost', 'max_dist as given' if conv == 'identity' else 'squared max_dist'), ev[3].line)
        ctx.check(cmpd, 'R-PRUNE', F.file, F.name, 'final threshold conversion', 'no final `result > max_dist -> infinity` conversion on the DP exit', ev[3].line)
    ctx.sample({'kernel': F.name, 'kind': kind, 'max_step': fmt(F.max_step_expr)[:120] if F.max_step_expr else None})


def _triple_pos(e):
    """e is `inner_dist_fns(...)[k]` (a function selected by position from the inner-distance triple) -> k."""
    if e[0] == 'idx' and e[2][0] == 'num' and e[1][0] == 'call' and (dotted(e[1][1]) or '').split('.')[-1] == 'inner_dist_fns':
        return e[2][1]
    return None


def tainted_settings_attrs(m):
    """Attributes of dtw.DTWSettings that some method overwrites with the Euclidean pruning bound."""
    mod = m.py('dtaidistance.dtw')
    out = {}
    for q, f in mod.funcs.items():
        if f.cls != 'DTWSettings':
            continue
        for s in walk_stmts(f.body):
            if s.k == 'assign' and s.target[0] == 'attr' and s.target[1] == ('var', 'self'):
                if any((dotted(c[1]) or '').split('.')[-1] in ('ub_euclidean', 'distance') for c in walk_expr(s.value) if c[0] == 'call'):
                    out[s.target[2]] = (q, s.line)
    return out


def rule_dom_py(ctx, m, F):
    """Python distance: thresholds in the internal domain (adj_*), result converted exactly once by position 1 of the
    inner-distance triple, only_ub returns the result domain, final conversion against the user's threshold."""
    if F.D is None:
        ctx.undecided('R-DOM', F.name, 'recurrence facts unavailable')
        return
    okD = F.D[0] == 'call' and _triple_pos(F.D[1]) == 0
    ctx.check(okD, 'R-DOM', F.file, F.name, 'point distance', 'the point distance must be position 0 of innerdistance.inner_dist_fns(...); found %s' % fmt(F.D)[:120], F.inner_line)
    for nm, e, attr in (('max_step', F.max_step_expr, 'MAXSTEP_I'), ('penalty', F.penalty_expr, 'PEN_I'), ('max_dist', F.max_dist_expr, 'MAXDIST_I')):
        if e is None:
            ctx.undecided('R-DOM', '%s %s' % (F.name, nm), 'threshold expression not found')
            continue
        a = F.amap(e)
        ctx.check(a == attr, 'R-DOM', F.file, F.name, '%s conversion' % nm,
                  'accumulated costs are in the internal domain; the %s used with them must be the converted settings value (adj_%s), found %s'
                  % (nm, nm, fmt(e)[:100]), F.inner_line)
    taint = tainted_settings_attrs(m)
    for ev in _fold_returns(F.epilogue.events) + F.prologue.events:
        if ev[0] != 'return' or ev[2] is None:
            continue
        val = ev[2]
        if val == ('num', float('inf')):
            ctx.held('R-DOM', '%s return inf' % F.name)
            continue
        if val[0] == 'call' and (dotted(val[1]) or '').split('.')[-1] in ('distance_fast',):
            continue
        reads = [x for x in walk_expr(val) if x[0] == 'idx' and x[1] == ('var', F.arr)]
        is_ub = any((dotted(c[1]) or '').split('.')[-1] in ('ub_euclidean',) for c in walk_expr(val) if c[0] == 'call')
        if is_ub and not reads:
            pos = _triple_pos(val[1]) if val[0] == 'call' else None
            F.only_ub_domain = 'internal' if pos == 2 else 'result'
            ctx.check(pos != 2, 'R-DOM', F.file, F.name, 'only_ub return',
                      'asking for only the upper bound returns inner_val(ub_euclidean(...)): a value of the internal (squared) domain where the '
                      'Euclidean distance itself is the contract', ev[3].line)
            continue
        ok = val[0] == 'call' and _triple_pos(val[1]) == 1 and len(val[2]) == 1
        inner_roots = ok and any(c[0] == 'call' and _triple_pos(c[1]) in (1, 2) for c in walk_expr(val[2][0]))
        ctx.check(ok and not inner_roots, 'R-DOM', F.file, F.name, 'result conversion',
                  'the DP exit must return result_fn(accumulated cost) with exactly one conversion; found %s' % fmt(val)[:160], ev[3].line)
        if not ok:
            continue
        body = val[2][0]
        cmpd = False
        for x in walk_expr(body):
            if x[0] == 'cond':
                for c in _conj([x[1]]):
                    o = orient(c, lambda e: e[0] != 'attr')
                    if o is not None and o[0] in ('>', '>=') and o[2][0] == 'attr':
                        cmpd = True
                        ctx.check(o[0] == '>', 'R-PRUNE', F.file, F.name, 'final threshold comparator',
                                  'a result equal to max_dist must be returned, only `d > max_dist` becomes infinity', ev[3].line)
                        at = o[2][2]
                        ctx.check(at.startswith('adj_'), 'R-DOM', F.file, F.name, 'final threshold domain',
                                  'the final comparison is made before result_fn, so the threshold must be the internal-domain value; found .%s' % at, ev[3].line)
                        if at in taint:
                            ctx.violation('R-DOM', F.file, F.name, 'final threshold provenance .%s' % at,
                                          'with use_pruning, %s overwrites .%s with inner_val(result(sum)) of the Euclidean bound (a lossy round trip); the final '
                                          '`d > %s -> inf` conversion then turns a DTW distance equal to the Euclidean distance into infinity. The C engine '
                                          'compares the result with the user\'s max_dist only' % (taint[at][0], at, at), ev[3].line)
                        else:
                            ctx.held('R-DOM', '%s final threshold provenance' % F.name)
        ctx.check(cmpd, 'R-PRUNE', F.file, F.name, 'final threshold conversion', 'no final `d > max_dist -> infinity` conversion on the DP exit', ev[3].line)


# ----------------------------------------------------------------------------------------------------- exits / result cell
def _abs_len_diff():
    return tmax(sub(V('L1'), V('L2')), sub(V('L2'), V('L1')))


def rule_length_diff_exit(ctx, name, file, events, amap, line, rule='R-REC'):
    """An early `return inf` guarded by |len1 - len2| > max_length_diff (strict) precedes the DP."""
    ok = False
    found_cmp = None
    for ev in events:
        if ev[0] != 'return' or ev[2] is None:
            continue
        v = ev[2]
        first = v[1][0] if v[0] == 'tuple' and v[1] else v
        if first != ('num', float('inf')):
            continue
        for c in _conj(ev[1]):
            if c[0] == 'bin' and c[1] in ('>', '>=', '<', '<='):
                try:
                    l, r = kernels.term(c[2], amap), kernels.term(c[3], amap)
                except sym.Unsupported:
                    continue
                op = c[1]
                if op in ('<', '<='):
                    l, r = r, l
                    op = '>' if op == '<' else '>='
                if sym.equivalent(l, _abs_len_diff(), BASE_DOM[:2], box=BOX)[0] == 'equal' and any(a.startswith('MAXLENDIFF') or a == 'max_length_diff' for a in sym.atoms(r)):
                    found_cmp = op
                    ok = op == '>'
    what = 'no early `return inf` guarded by `abs(len1 - len2) > max_length_diff` before the DP' if found_cmp is None else \
        'the length-difference exit uses `%s`: series whose length difference EQUALS max_length_diff must still be compared' % found_cmp
    ctx.check(ok, rule, file, name, 'max_length_diff exit', what + ': the routine disagrees with the distance-only routine, which returns infinity exactly when the difference exceeds max_length_diff', line)


def rule_result_cell(ctx, F):
    """Rolling-buffer kernels: without end relaxation the result is cell (len1-1, len2-1); with psi_2e the last-row scan
    covers columns [len2-1-psi_2e, len2-1] of the last row."""
    if F.split_last is None or F.off_var is None:
        ctx.undecided('R-PSI', '%s result cell' % F.name, 'recurrence facts unavailable')
        return
    amap = F.amap
    dom = BASE_DOM[:2] + PSI_DOM + ([sub(V('W'), C(1))] if F.lang != 'c' else [V('W')])
    off_last = V(F.off_var + '@last')
    want_rest = sub(V('L2'), off_last)           # position of column len2-1
    found = False
    for ev in F.epilogue.events:
        if ev[0] != 'return' or ev[2] is None:
            continue
        for x in walk_expr(ev[2]):
            if x[0] == 'idx' and x[1] == ('var', F.arr) and x[2][0] != 'slice':
                sp = F.split_last(norm_minmax(x[2]))
                if sp is None or sp[0] != 'cur':
                    continue
                # skip scan reads (index depends on a loop variable of the epilogue)
                if any(a.endswith('@epi') for a in sym.atoms(sp[1])):
                    continue
                found = True
                r = sym.equivalent(sp[1], want_rest, dom, box=PSI_BOX)
                if r[0] == 'differ':
                    ctx.violation('R-PSI', F.file, F.name, 'result cell', 'the DP result must be read at cell (len1-1, len2-1) of the last row; found in-row position %s '
                                  '(expected %s), e.g. at %s' % (sym.show(sp[1])[:120], sym.show(want_rest), _fmtw(r[1])), ev[3].line)
                elif r[0] == 'equal':
                    ctx.held('R-PSI', '%s result cell (len1-1, len2-1)' % F.name)
                else:
                    ctx.undecided('R-PSI', '%s result cell' % F.name, r[1])
    if not found:
        ctx.undecided('R-PSI', '%s result cell' % F.name, 'no direct read of the result cell found')
    # last-row scan range
    for ev in F.epilogue.events:
        if ev[0] == 'loop' and ev[2].k == 'for':
            lp = ev[2]
            rds = [x for st in walk_stmts(lp.body) for e in _exprs(st) for x in reads_of(e, F.arr)]
            if not rds:
                continue
            env2 = dict(ev[3])
            env2.pop(lp.var, None)
            idx0 = subst_expr(rds[0][2], env2)
            lo_e, hi_e = subst_expr(lp.lo, ev[3]), subst_expr(lp.hi, ev[3])
            sp_lo = F.split_last(norm_minmax(subst_expr(idx0, {lp.var: lo_e})))
            sp_hi = F.split_last(norm_minmax(subst_expr(idx0, {lp.var: hi_e})))
            if sp_lo is None or sp_hi is None:
                ctx.undecided('R-PSI', '%s psi_2e scan range' % F.name, 'unrecognised scan index')
                continue
            r1 = sym.equivalent(sp_lo[1], sub(want_rest, V('PSI2E')), dom, box=PSI_BOX)
            r2 = sym.equivalent(sp_hi[1], add(want_rest, C(1)), dom, box=PSI_BOX)
            ok = r1[0] == 'equal' and r2[0] == 'equal' and sp_lo[0] == 'cur'
            ctx.check(ok, 'R-PSI', F.file, F.name, 'psi_2e scan range',
                      'the end relaxation of series 2 must take the minimum over columns [len2-1-psi_2e, len2-1] of the last row; found in-row positions [%s, %s)'
                      % (sym.show(sp_lo[1])[:80], sym.show(sp_hi[1])[:80]), lp.line)
    if F.lang != 'c':
        for ev in F.epilogue.events:
            if ev[0] != 'return' or ev[2] is None:
                continue
            for x in walk_expr(ev[2]):
                if x[0] == 'idx' and x[1] == ('var', F.arr) and x[2][0] == 'slice':
                    sp_lo = F.split_last(norm_minmax(x[2][1]))
                    sp_hi = F.split_last(norm_minmax(x[2][2]))
                    ok = False
                    if sp_lo and sp_hi:
                        r1 = sym.equivalent(sp_lo[1], sub(want_rest, V('PSI2E')), dom, box=PSI_BOX)
                        r2 = sym.equivalent(sp_hi[1], add(want_rest, C(1)), dom, box=PSI_BOX)
                        ok = r1[0] == 'equal' and r2[0] == 'equal'
                    ctx.check(ok, 'R-PSI', F.file, F.name, 'psi_2e scan range',
                              'the end relaxation of series 2 must take the minimum over columns [len2-1-psi_2e, len2-1] of the last row', ev[3].line)
