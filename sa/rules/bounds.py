"""C09/C10/C11 facts: LB_Keogh envelope range, Euclidean distance shape, band laws, point distances, n-D siblings."""
from ..cfront import AnalysisError
from ..ir import fmt, walk_stmts, walk_expr, stmt_exprs, dotted
from .. import sym, kernels
from ..sym import var as V, const as C, add, sub, tmin, tmax
from ..symexec import Exec, Env, subst_expr, norm_minmax, assigned_vars
from . import kern


def _envelope_facts(name, body, params, lang, consts=None):
    """-> (lo term, hi term, facts dict) for the envelope of element i."""
    amap = kernels.AtomMap(lang, params, (params[-1],) if lang == 'c' else ())
    outer = None
    for s in body:
        if s.k == 'for':
            outer = s
    if outer is None:
        raise AnalysisError('unrecognised shape: no element loop in %s' % name)
    ex = Exec()
    env = Env(consts or {})
    env = ex.run(body[:body.index(outer)], env)
    if env is None:
        raise AnalysisError('unrecognised shape: %s returns before its loop' % name)
    hi_rows = kernels.term(subst_expr(outer.hi, env), amap)
    lenv = env.copy()
    lenv[outer.var] = ('var', 'i')
    for v in assigned_vars(outer.body):
        if v != outer.var:
            lenv[v] = ('var', v + '@prev')
    ex2 = Exec()
    out = ex2.run(outer.body, lenv)
    lo = hi = None
    if lang == 'c':
        loops = [e for e in ex2.events if e[0] == 'loop' and e[2].k == 'for']
        rng = set()
        for e in loops:
            lp = e[2]
            rng.add((norm_minmax(subst_expr(lp.lo, e[3])), norm_minmax(subst_expr(lp.hi, e[3]))))
        if len(rng) != 1:
            raise AnalysisError('unrecognised shape: envelope scans of %s use %d different ranges' % (name, len(rng)))
        lo_e, hi_e = list(rng)[0]
    else:
        sl = set()
        for v, val in (out or {}).items():
            for x in walk_expr(val):
                if x[0] == 'idx' and x[2][0] == 'slice' and x[1] == ('var', params[1]):
                    sl.add((norm_minmax(x[2][1]), norm_minmax(x[2][2])))
        if len(sl) != 1:
            raise AnalysisError('unrecognised shape: envelope slices of %s: %d' % (name, len(sl)))
        lo_e, hi_e = list(sl)[0]
    lo = kernels.term(lo_e, amap)
    hi = kernels.term(hi_e, amap)
    return lo, hi, hi_rows, outer, ex2, out


def rule_lb_keogh(ctx, m):
    pm = m.py('dtaidistance.dtw')
    f = pm.funcs.get('lb_keogh')
    if f is None:
        raise AnalysisError('anchor vanished: dtw.lb_keogh')
    copies = [('lb_keogh', f.body, f.args, 'py', pm.path, kernels.module_consts(pm))]
    for nm in ('lb_keogh', 'lb_keogh_euclidean'):
        cf = m.cfunc(nm)
        if cf is None:
            raise AnalysisError('anchor vanished: C %s' % nm)
        copies.append((nm, cf.body, [p[0] for p in cf.params], 'c', cf.file, None))
    for nm, body, params, lang, file, consts in copies:
        # python: skip the use_c delegation branch
        b = body
        lo, hi, rows, outer, ex2, out = _envelope_facts(nm, b, params, lang, consts)
        kern._equiv_cases(ctx, 'R-BAND', file, nm, 'envelope lower index', lo, kern.canon_lo(), lang, 'envelope lower index', outer.line)
        kern._equiv_cases(ctx, 'R-BAND', file, nm, 'envelope upper index', hi, kern.canon_hi(), lang, 'envelope upper index', outer.line)
        ctx.check(rows == V('L1'), 'R-BAND', file, nm, 'envelope rows', 'the bound sums over every element of series 1', outer.line)
        # comparisons: above the upper envelope / below the lower envelope, strict, distance to the violated envelope
        conds = []
        for s in outer.body:
            if s.k == 'if':
                cur = s
                while cur is not None and cur.k == 'if':
                    conds.append((cur.cond, cur.then))
                    cur = cur.els[0] if len(cur.els) == 1 and cur.els[0].k == 'if' else None
        pairs = [(c[1], fmt(c[2]), fmt(c[3])) for c, th in conds if c[0] == 'bin']
        ok = ('>', 'ci', 'ui') in pairs and ('<', 'ci', 'li') in pairs
        ctx.check(ok, 'R-BAND', file, nm, 'envelope comparisons', 'an element contributes only when strictly above the upper or strictly below the lower envelope; found %s' % pairs, outer.line)
        ctx.sample({'copy': '%s (%s)' % (nm, lang), 'envelope': [sym.show(lo)[:160], sym.show(hi)[:160]]})
    # python window default
    ok = any(s.k == 'if' and fmt(s.cond) == '(s.window is None)' for s in f.body)
    ctx.check(ok, 'R-BAND', pm.path, 'lb_keogh', 'window default', 'window=None must become max(len(s1), len(s2))', f.line)


ED_C = ['euclidean_distance', 'euclidean_distance_euclidean', 'euclidean_distance_ndim', 'euclidean_distance_ndim_euclidean']


def rule_euclidean(ctx, m):
    """Shape of the Euclidean distance: common prefix, padding with the LAST element of the shorter series, final root."""
    for nm in ED_C:
        f = m.cfunc(nm)
        if f is None:
            raise AnalysisError('anchor vanished: C %s' % nm)
        nd = '_ndim' in nm
        eu = nm.endswith('_euclidean')
        loops = [s for s in f.body if s.k == 'for']
        ok_n = any(s.k == 'decl' and s.name == 'n' and norm_minmax(s.init) in (('min', (('var', 'l1'), ('var', 'l2'))),) for s in f.body)
        ok_prefix = bool(loops) and loops[0].lo == ('num', 0) and loops[0].hi == ('var', 'n')
        br = [s for s in f.body if s.k == 'if' and fmt(s.cond) == '(l1 > l2)']
        ok_pad = False
        if br:
            b1 = br[0]
            b2 = b1.els[0] if len(b1.els) == 1 and b1.els[0].k == 'if' and fmt(b1.els[0].cond) == '(l1 < l2)' else None
            if b2 is not None:
                l1 = [s for s in b1.then if s.k == 'for']
                l2 = [s for s in b2.then if s.k == 'for']
                if l1 and l2:
                    okr = l1[0].lo == ('var', 'n') and l1[0].hi == ('var', 'l1') and l2[0].lo == ('var', 'n') and l2[0].hi == ('var', 'l2')
                    r1 = {fmt(x) for s in walk_stmts(l1[0].body) for e in stmt_exprs(s) for x in walk_expr(e) if x[0] == 'idx' and x[1] == ('var', 's2')}
                    r2 = {fmt(x) for s in walk_stmts(l2[0].body) for e in stmt_exprs(s) for x in walk_expr(e) if x[0] == 'idx' and x[1] == ('var', 's1')}
                    pad1 = all('(n - 1)' in r for r in r1) and bool(r1)
                    pad2 = all('(n - 1)' in r for r in r2) and bool(r2)
                    ok_pad = okr and pad1 and pad2
        ctx.check(ok_n and ok_prefix and ok_pad, 'R-PATH', f.file, nm, 'padding with the last element',
                  'the surplus elements of the longer series must be compared with element n-1 (n = min(l1, l2)) of the shorter one '
                  '(n ok=%s, prefix ok=%s, padding ok=%s)' % (ok_n, ok_prefix, ok_pad), f.line)
        roots = [s for s in walk_stmts(f.body) if s.k == 'assign' and s.value[0] == 'call' and dotted(s.value[1]) == 'sqrt']
        ret = [s for s in f.body if s.k == 'return']
        if not eu:
            ok = any(s.target == ('var', 'ub') and s.value[2] == (('var', 'ub'),) and s in f.body for s in roots) and bool(ret) and ret[-1].value == ('var', 'ub')
            ctx.check(ok, 'R-DOM', f.file, nm, 'final root', 'the squared variant must return sqrt(sum of squared differences)', f.line)
        else:
            ok = not any(s.target == ('var', 'ub') for s in roots) and bool(ret) and ret[-1].value == ('var', 'ub')
            ctx.check(ok, 'R-DOM', f.file, nm, 'no final root', 'the euclidean variant sums point distances and must not root the total', f.line)
    pm = m.py('dtaidistance.ed')
    f = pm.funcs.get('distance')
    if f is None:
        raise AnalysisError('anchor vanished: ed.distance')
    txt = [(s.k, fmt(s.target) if s.k == 'assign' else (fmt(s.cond) if s.k == 'if' else '')) for s in walk_stmts(f.body)]
    ok = False
    for s in f.body:
        if s.k == 'if' and fmt(s.cond) == '(len(s1) > len(s2))':
            a = any(t.k == 'assign' and fmt(t.target) == 'v2' and fmt(t.value) == 's2[(n - 1)]' for t in s.then)
            la = any(t.k == 'foreach' and fmt(t.iter) == 's1[n::]' for t in s.then)
            e = s.els[0] if len(s.els) == 1 and s.els[0].k == 'if' else None
            b = e is not None and fmt(e.cond) == '(len(s1) < len(s2))' and any(t.k == 'assign' and fmt(t.target) == 'v1' and fmt(t.value) == 's1[(n - 1)]' for t in e.then) \
                and any(t.k == 'foreach' and fmt(t.iter) == 's2[n::]' for t in e.then)
            ok = a and la and b
    nn = any(s.k == 'assign' and fmt(s.target) == 'n' and fmt(s.value) == 'min(len(s1), len(s2))' for s in f.body)
    ret = [s for s in f.body if s.k == 'return']
    okr = bool(ret) and fmt(ret[-1].value) == 'result_fn(ub)'
    trip = [s for s in f.body if s.k == 'assign' and s.target[0] == 'tuple' and fmt(s.value).startswith('innerdistance.inner_dist_fns(inner_dist=inner_dist, use_ndim=use_ndim)')]
    okt = bool(trip) and [x[1] for x in trip[0].target[1]][:2] == ['idist_fn', 'result_fn']
    ctx.check(ok and nn and okr and okt, 'R-PATH', pm.path, 'distance', 'padding with the last element',
              'ed.distance must compare surplus elements with the last element of the shorter series and return result_fn(sum) '
              '(padding=%s n=%s result=%s triple=%s)' % (ok, nn, okr, okt), f.line)


def rule_band_laws(ctx):
    """Laws of the band relation all copies were proved equal to: symmetry under swapping the series, monotone in the
    window, window 1 on equal lengths is the diagonal."""
    lo, hi = kern.canon_lo(), kern.canon_hi()
    dom = [sub(V('L1'), C(1)), sub(V('L2'), C(1)), sub(V('W'), C(1)), V('i'), sub(sub(V('L1'), V('i')), C(1)), V('j'), sub(sub(V('L2'), V('j')), C(1))]
    inb = sym.ite(('<=', lo, V('j')), sym.ite(('<', V('j'), hi), C(1), C(0)), C(0))
    swap = {'i': V('j'), 'j': V('i'), 'L1': V('L2'), 'L2': V('L1')}
    inb_s = sym.subst(inb, swap)
    r = sym.equivalent(inb, inb_s, dom, box=kern.BOX)
    ctx.check(r[0] == 'equal', 'R-BAND', 'scheme', 'band', 'symmetry', 'cell (i, j) is in the band of (s1, s2) iff (j, i) is in the band of (s2, s1): %s' % (r,), None, detail=str(r[1]))
    lo1 = sym.subst(lo, {'W': add(V('W'), C(1))})
    hi1 = sym.subst(hi, {'W': add(V('W'), C(1))})
    r1 = sym.equivalent(tmin(lo1, lo), lo1, dom[:5], box=kern.BOX)
    r2 = sym.equivalent(tmax(hi1, hi), hi1, dom[:5], box=kern.BOX)
    ctx.check(r1[0] == 'equal' and r2[0] == 'equal', 'R-BAND', 'scheme', 'band', 'monotone in window',
              'a larger window can only widen the band (lower limit non-increasing, upper limit non-decreasing): %s %s' % (r1, r2), None)
    eq = {'L2': V('L1'), 'W': C(1)}
    r3 = sym.equivalent(sym.subst(lo, eq), V('i'), [sub(V('L1'), C(1)), V('i'), sub(sub(V('L1'), V('i')), C(1))], box=kern.BOX)
    r4 = sym.equivalent(sym.subst(hi, eq), add(V('i'), C(1)), [sub(V('L1'), C(1)), V('i'), sub(sub(V('L1'), V('i')), C(1))], box=kern.BOX)
    ctx.check(r3[0] == 'equal' and r4[0] == 'equal', 'R-BAND', 'scheme', 'band', 'window 1 is the diagonal',
              'with window 1 on equal lengths only j = i is admissible (DTW = Euclidean distance): %s %s' % (r3, r4), None)


def rule_point_distance(ctx, m, ks):
    """Point distances are symmetric, non-negative forms: (x-y)*(x-y), |x-y|, sqrt(sum (x-y)^2)."""
    for F in ks:
        if F.lang != 'c':
            continue
        f = m.cfunc(F.name)
        inner = F.inner
        okforms = True
        found = 0
        for s in walk_stmts(inner.body):
            if s.k == 'assign' and s.target[0] == 'var' and s.target[1].split('#')[0] == 'd':
                v = s.value
                if s.d.get('aug') == '+':
                    v = v[3]
                if v == ('num', 0):
                    continue
                found += 1
                okforms = okforms and _sym_form(v)
        ctx.check(found >= 1 and okforms, 'R-REC', F.file, F.name, 'point distance form',
                  'the point distance must be a symmetric non-negative form ((x-y)*(x-y), fabs(x-y), sqrt of a sum of such squares)', F.inner_line)
    pm = m.py('dtaidistance.innerdistance')
    for cls in ('SquaredEuclidean', 'SquaredEuclideanNdim', 'Euclidean', 'EuclideanNdim'):
        g = pm.funcs.get(cls + '.inner_dist')
        if g is None:
            raise AnalysisError('anchor vanished: innerdistance.%s' % cls)
        ret = [s for s in g.body if s.k == 'return']
        t = fmt(ret[-1].value) if ret else ''
        ok = t in ('((x - y) ** 2)', 'np.sum(((x - y) ** 2))', 'abs((x - y))', 'np.sqrt(np.sum(np.power((x - y), 2)))')
        ctx.check(ok, 'R-REC', pm.path, cls + '.inner_dist', 'point distance form', 'symmetric non-negative point distance expected; found %s' % t, g.line)


def _sym_form(v):
    if v[0] == 'bin' and v[1] == '*' and v[2] == v[3] and v[2][0] == 'bin' and v[2][1] == '-':
        return True
    if v[0] == 'call' and dotted(v[1]) in ('fabs', 'sqrt'):
        a = v[2][0]
        if dotted(v[1]) == 'fabs':
            return a[0] == 'bin' and a[1] == '-'
        return a[0] == 'var' or _sym_form(a)
    return False


def rule_ndim_siblings(ctx, m):
    """1-D entry points that are designed as wrappers delegate to the n-D kernel with literal ndim = 1."""
    pairs = [('dtw_warping_paths', 'dtw_warping_paths_ndim', 8), ('dtw_warping_paths_euclidean', 'dtw_warping_paths_ndim_euclidean', 8),
             ('dtw_warping_paths_affinity', 'dtw_warping_paths_affinity_ndim', 9), ('dtw_warping_path', 'dtw_warping_path_ndim', 7)]
    for a, b, pos in pairs:
        f = m.cfunc(a)
        if f is None:
            raise AnalysisError('anchor vanished: C %s' % a)
        ret = [s for s in f.body if s.k == 'return']
        ok = len(f.body) == 1 and bool(ret) and ret[0].value[0] == 'call' and dotted(ret[0].value[1]) == b
        if ok:
            args = ret[0].value[2]
            pn = [p[0] for p in f.params]
            proto = m.cproto(b)
            bn = [p[0] for p in proto.params]
            k = bn.index('ndim')
            rest = [x for i, x in enumerate(args) if i != k]
            ok = args[k] == ('num', 1) and rest == [('var', p) for p in pn]
        ctx.check(ok, 'R-VAR', f.file, a, 'delegation with ndim = 1', '%s must return %s(<same arguments>, ndim = 1)' % (a, b), f.line)
    # dtw.distance_fast selects distance_ndim iff use_ndim
    pm = m.py('dtaidistance.dtw')
    f = pm.funcs.get('distance_fast')
    ok = False
    for s in f.body:
        if s.k == 'if' and fmt(s.cond) == '(s.use_ndim is False)':
            a = [fmt(t.value)[:len('dtw_cc.distance(')] for t in s.then if t.k == 'assign']
            b = [fmt(t.value)[:len('dtw_cc.distance_ndim(')] for t in s.els if t.k == 'assign']
            ok = a == ['dtw_cc.distance('] and b == ['dtw_cc.distance_ndim(']
    ctx.check(ok, 'R-VAR', pm.path, 'distance_fast', 'n-D selection', 'distance_fast must call dtw_cc.distance_ndim exactly when use_ndim is set', f.line)
