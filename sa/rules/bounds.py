"""C09/C10/C11 facts: LB_Keogh envelope range, Euclidean distance shape, band laws, point distances, n-D siblings."""
import os
from ..cfront import AnalysisError
from ..ir import fmt, walk_stmts, walk_expr, stmt_exprs, dotted, aug_rhs
from .. import sym, kernels
from ..sym import var as V, const as C, add, sub, tmin, tmax
from ..symexec import Exec, Env, subst_expr, norm_minmax, assigned_vars
from . import kern


class _EnvelopeMismatch(Exception):
    def __init__(self, ranges, line):
        Exception.__init__(self, 'envelope ranges differ')
        self.ranges, self.line = ranges, line


def _envelope_facts(name, body, params, lang, consts=None):
    """-> (lo term, hi term, facts dict) for the envelope of element i."""
    amap = kernels.AtomMap(lang, params, (params[-1],) if lang == 'c' else ())
    outer = None
    for s in body:
        if s.k == 'for':
            outer = s
    if outer is None:
        raise AnalysisError('unrecognised shape: no element loop in %s' % name)
    ex = Exec()
    env = Env(consts or {})
    env = ex.run(body[:body.index(outer)], env)
    if env is None:
        raise AnalysisError('unrecognised shape: %s returns before its loop' % name)
    hi_rows = kernels.term(subst_expr(outer.hi, env), amap)
    lenv = env.copy()
    lenv[outer.var] = ('var', 'i')
    for v in assigned_vars(outer.body):
        if v != outer.var:
            lenv[v] = ('var', v + '@prev')
    ex2 = Exec()
    out = ex2.run(outer.body, lenv)
    lo = hi = None
    if lang == 'c':
        loops = [e for e in ex2.events if e[0] == 'loop' and e[2].k == 'for']
        rng = set()
        for e in loops:
            lp = e[2]
            rng.add((norm_minmax(subst_expr(lp.lo, e[3])), norm_minmax(subst_expr(lp.hi, e[3]))))
        if len(rng) > 1:
            raise _EnvelopeMismatch(sorted(rng, key=repr), loops[0][2].line)
        if len(rng) != 1:
            raise AnalysisError('unrecognised shape: no envelope scan in %s' % name)
        lo_e, hi_e = list(rng)[0]
    else:
        sl = set()
        for v, val in (out or {}).items():
            for x in walk_expr(val):
                if x[0] == 'idx' and x[2][0] == 'slice' and x[1] == ('var', params[1]):
                    sl.add((norm_minmax(x[2][1]), norm_minmax(x[2][2])))
        if not sl:
            # the envelope as explicit running extrema (the form the C copies use)
            scans = _py_scans(outer.body, params[1])
            ex2.scan_facts = scans
            sl = {(norm_minmax(subst_expr(sc['lo'], out or lenv)), norm_minmax(subst_expr(sc['hi'], out or lenv))) for sc in scans}
        if len(sl) != 1:
            raise AnalysisError('unrecognised shape: envelope slices of %s: %d' % (name, len(sl)))
        lo_e, hi_e = list(sl)[0]
    lo = kernels.term(lo_e, amap)
    hi = kernels.term(hi_e, amap)
    return lo, hi, hi_rows, outer, ex2, out


def _py_scans(body, s2name):
    """Running-extremum scans over elements of series `s2name` in the loops of `body`: one dict per scan with kind ('max'/'min'), the accumulator
    compared against (`cmp`), the accumulator assigned (`acc`), whether it is the else-arm of another scan (`chained`), the initial value (`init`:
    'elem' when it is an element of the scanned range or the one just before it, 'inf+' / 'inf-', None) and the effective index range lo/hi."""
    from ..canon import same
    INFS = (('num', float('inf')), ('var', 'inf'), ('attr', ('var', 'np'), 'inf'), ('attr', ('var', 'math'), 'inf'))
    res = []
    for bi, lp in enumerate(body):
        if lp.k != 'for':
            continue
        el = ('idx', ('var', s2name), ('var', lp.var))
        alias = {t.target for t in lp.body if t.k == 'assign' and t.target[0] == 'var' and t.value == el}

        def is_elem(e):
            return e == el or e in alias
        found = []

        def visit(st, chained):
            if st.k != 'if' or st.cond[0] != 'bin' or st.cond[1] not in ('<', '<='):
                return
            a, b = st.cond[2], st.cond[3]
            kind = 'max' if is_elem(b) and a[0] == 'var' else 'min' if is_elem(a) and b[0] == 'var' else None
            if kind and len(st.then) == 1 and st.then[0].k == 'assign' and st.then[0].target[0] == 'var' and is_elem(st.then[0].value):
                found.append({'kind': kind, 'cmp': a if kind == 'max' else b, 'acc': st.then[0].target, 'chained': chained, 'line': st.line})
                if len(st.els) == 1:
                    visit(st.els[0], True)
        for st in lp.body:
            visit(st, False)
        for sc in found:
            init = None
            lo = lp.lo
            for t in body[:bi]:
                if t.k == 'assign' and t.target == sc['acc']:
                    v = t.value
                    init = None
                    lo = lp.lo
                    if v[0] == 'idx' and v[1] == ('var', s2name) and v[2][0] != 'slice':
                        if same(('bin', '+', v[2], ('num', 1)), lp.lo):
                            init, lo = 'elem', v[2]
                        elif same(v[2], lp.lo):
                            init = 'elem'
                    elif v in INFS:
                        init = 'inf+'
                    elif v == ('num', float('-inf')) or (v[0] == 'un' and v[1] == 'neg' and v[2] in INFS):
                        init = 'inf-'
            sc.update(init=init, lo=lo, hi=lp.hi)
            res.append(sc)
    return res


def rule_lb_keogh(ctx, m):
    pm = m.py('dtaidistance.dtw')
    f = pm.funcs.get('lb_keogh')
    if f is None:
        raise AnalysisError('anchor vanished: dtw.lb_keogh')
    copies = [('lb_keogh', f.body, f.args, 'py', pm.path, kernels.module_consts(pm))]
    for nm in ('lb_keogh', 'lb_keogh_euclidean'):
        cf = m.cfunc(nm)
        if cf is None:
            raise AnalysisError('anchor vanished: C %s' % nm)
        copies.append((nm, cf.body, [p[0] for p in cf.params], 'c', cf.file, None))
    for nm, body, params, lang, file, consts in copies:
        # python: skip the use_c delegation branch
        b = body
        try:
            lo, hi, rows, outer, ex2, out = _envelope_facts(nm, b, params, lang, consts)
        except _EnvelopeMismatch as exn:
            ctx.violation('R-BAND', file, nm, 'envelope scans over one window',
                          'the upper and the lower envelope of an element must be the maximum and the minimum over the SAME window of series 2; the scans run over %s -- '
                          'an element left out of one extremum makes the bound exceed the DTW distance' % ' and '.join('[%s, %s)' % (fmt(a), fmt(b_)) for a, b_ in exn.ranges), exn.line)
            continue
        kern._equiv_cases(ctx, 'R-BAND', file, nm, 'envelope lower index', lo, kern.canon_lo(), lang, 'envelope lower index', outer.line)
        kern._equiv_cases(ctx, 'R-BAND', file, nm, 'envelope upper index', hi, kern.canon_hi(), lang, 'envelope upper index', outer.line)
        ctx.check(rows == V('L1'), 'R-BAND', file, nm, 'envelope rows', 'the bound sums over every element of series 1', outer.line)
        # comparisons: above the upper envelope / below the lower envelope, strict, distance to the violated envelope
        conds = []
        for s in outer.body:
            if s.k == 'if':
                cur = s
                while cur is not None and cur.k == 'if':
                    conds.append((cur.cond, cur.then))
                    cur = cur.els[0] if len(cur.els) == 1 and cur.els[0].k == 'if' else None
        # roles, not spellings: upper / lower = the locals holding the maximum / minimum of the envelope window, elem = the element of series 1
        INFS = (('num', float('inf')), ('var', 'inf'), ('attr', ('var', 'np'), 'inf'))
        role = {}
        for s_ in walk_stmts(outer.body):
            if s_.k == 'decl' and s_.init is not None:
                s_ = type(s_)('assign', s_.line, target=('var', s_.name), value=s_.init, aug=None)        # a declaration with initialiser is an assignment
            if s_.k == 'assign' and s_.target[0] == 'var':
                v = s_.value
                callee = (dotted(v[1]) or '').split('.')[-1] if v[0] == 'call' else ''
                s2name = params[2 if lang == 'c' else 1]
                win_vars = {fmt(t_.target) for t_ in walk_stmts(outer.body) if t_.k == 'assign' and t_.target[0] == 'var' and t_.value[0] == 'idx' and t_.value[1] == ('var', s2name)}
                # the envelope extreme is taken over a window (subscript / slice) of the second series, directly or through a local holding that window
                over_env = v[0] == 'call' and any((x[0] == 'idx' and x[1] == ('var', s2name)) or (x[0] == 'var' and x[1] in win_vars) for a_ in v[2] for x in walk_expr(a_))
                if ('max' in callee and over_env) or v == ('un', 'neg', ('num', float('inf'))) or v == ('num', float('-inf')) or (v[0] == 'un' and v[1] == 'neg' and v[2] in INFS):
                    role.setdefault('upper', fmt(s_.target))
                elif ('min' in callee and over_env) or v in INFS:
                    role.setdefault('lower', fmt(s_.target))
                elif v[0] == 'idx' and v[1] == ('var', params[0]):
                    role.setdefault('elem', fmt(s_.target))
        for sc in getattr(ex2, 'scan_facts', None) or []:
            side = 'upper' if sc['kind'] == 'max' else 'lower'
            role[side] = fmt(sc['acc'])
            want = ('elem', 'inf-') if sc['kind'] == 'max' else ('elem', 'inf+')
            ok_scan = sc['cmp'] == sc['acc'] and sc['init'] in want and not (sc['chained'] and sc['init'] != 'elem')
            ctx.check(ok_scan, 'R-BAND', file, nm, '%s envelope scan' % side,
                      'the running %s of the envelope window must compare each element with the accumulator it updates, starting from an element of the window or %s '
                      '(an else-chained pair of scans only from an element); found: compares with %s, updates %s, start %s%s -- the envelope is then not the extremum of the '
                      'window and the bound can exceed the DTW distance' % ('maximum' if sc['kind'] == 'max' else 'minimum', '-inf' if sc['kind'] == 'max' else '+inf',
                                                                       fmt(sc['cmp']), fmt(sc['acc']), sc['init'], ', chained' if sc['chained'] else ''), sc['line'])
        elem = role.get('elem')
        pairs = []
        for c, th in conds:
            if c[0] == 'bin' and c[1] in ('<', '>', '<=', '>='):
                op, l, r = c[1], fmt(c[2]), fmt(c[3])
                if elem is None and c[2][0] == 'idx' and c[2][1] == ('var', params[0]):
                    elem = l
                if r == elem or (elem is None and c[3][0] == 'idx' and c[3][1] == ('var', params[0])):
                    op, l, r = {'<': '>', '>': '<', '<=': '>=', '>=': '<='}[op], r, l
                    elem = elem or l
                pairs.append((op, l, r))
        ok = elem is not None and ('>', elem, role.get('upper')) in pairs and ('<', elem, role.get('lower')) in pairs
        ctx.check(ok, 'R-BAND', file, nm, 'envelope comparisons', 'an element contributes only when strictly above the upper or strictly below the lower envelope; found %s' % pairs, outer.line)
        ctx.sample({'copy': '%s (%s)' % (nm, lang), 'envelope': [sym.show(lo)[:160], sym.show(hi)[:160]]})
    # python window default
    ok = any(s.k == 'if' and fmt(s.cond) == '(s.window is None)' for s in f.body)
    ctx.check(ok, 'R-BAND', pm.path, 'lb_keogh', 'window default', 'window=None must become max(len(s1), len(s2))', f.line)


ED_C = ['euclidean_distance', 'euclidean_distance_euclidean', 'euclidean_distance_ndim', 'euclidean_distance_ndim_euclidean']


def _sum_loops(name, body, lang, s1n, s2n, l1e, l2e, ndim=None):
    """Summary of a Euclidean-distance routine: the accumulating loops in execution order as
    (path conditions, lo term, hi term, {index terms of the reads of series 1}, {... of series 2}, loop stmt) with the loop variable as atom `k`,
    plus the return events.  Python `for a, b in zip(s1, s2)` / `for a in s1[n:]` loops are read as index ranges."""
    def atom(e):
        if e == l1e:
            return 'L1'
        if e == l2e:
            return 'L2'
        if e[0] == 'var':
            return e[1]
        return None

    def term(e):
        return sym.from_ir(norm_minmax(e), atom=atom)
    loops = []

    def reads_in(stmts, env):
        r1, r2 = set(), set()

        def scan(e):
            for x in walk_expr(e):
                if x[0] == 'idx' and x[1] == ('var', s1n) and x[2][0] != 'slice':
                    r1.add(x[2])
                if x[0] == 'idx' and x[1] == ('var', s2n) and x[2][0] != 'slice':
                    r2.add(x[2])

        def on_loop(lp, env_, ex_):
            if lp.k == 'for':
                e2 = env_.copy()
                e2[lp.var] = ('var', lp.var)
                a, b = reads_in(lp.body, e2)
                r1.update(a)
                r2.update(b)
            return None
        ex = Exec(on_loop=on_loop)
        out = ex.run(stmts, env.copy())
        for ev in ex.events:
            for c in ev[1]:
                scan(c)
            for x in ev[2:]:
                if isinstance(x, tuple):
                    scan(x)
        for v in (out or {}).values():
            if isinstance(v, tuple):
                scan(v)
        return r1, r2

    def on_loop(lp, env, ex):
        e2 = env.copy()
        if lp.k == 'for':
            lo, hi = subst_expr(lp.lo, env), subst_expr(lp.hi, env)
            e2[lp.var] = ('var', 'k')
        elif lp.k == 'foreach':
            it = subst_expr(lp.iter, env)
            K = ('var', 'k')

            def series_range(x):
                """(series name, lo, hi) of an iterated series / tail slice"""
                if x == ('var', s1n):
                    return s1n, ('num', 0), l1e
                if x == ('var', s2n):
                    return s2n, ('num', 0), l2e
                if x[0] == 'idx' and x[2][0] == 'slice' and x[1] in (('var', s1n), ('var', s2n)) and x[2][2] is None and x[2][3] is None:
                    return x[1][1], (x[2][1] if x[2][1] is not None else ('num', 0)), (l1e if x[1][1] == s1n else l2e)
                return None
            if it[0] == 'call' and dotted(it[1]) == 'zip' and len(it[2]) == 2 and lp.target[0] == 'tuple' and len(lp.target[1]) == 2:
                a, b = series_range(it[2][0]), series_range(it[2][1])
                if a is None or b is None or a[1] != b[1]:
                    return None
                lo, hi = a[1], ('min', (a[2], b[2]))
                for tv, sr in zip(lp.target[1], (a, b)):
                    if tv[0] == 'var':
                        e2[tv[1]] = ('idx', ('var', sr[0]), K)
            else:
                a = series_range(it)
                if a is None or lp.target[0] != 'var':
                    return None
                lo, hi = a[1], a[2]
                e2[lp.target[1]] = ('idx', ('var', a[0]), K)
        else:
            return None
        r1, r2 = reads_in(lp.body, e2)
        try:
            loops.append((tuple(ex.path), term(lo), term(hi), set(r1), set(r2), lp))
        except sym.Unsupported as exn:
            raise AnalysisError('unrecognised shape: loop bounds / subscripts of %s: %s' % (name, exn))
        return None
    ex = Exec(on_loop=on_loop)
    ex.run(body, Env())
    return loops, ex.returns, term


def rule_euclidean(ctx, m):
    """Shape of the Euclidean distance, decided on a loop summary: the common prefix [0, min(l1, l2)) pairs element k with element k; the
    surplus [n, l) of the longer series is paired with the LAST element n-1 of the shorter one; the squared variants return the root of the sum."""
    L1, L2 = V('L1'), V('L2')
    n_t = tmin(L1, L2)
    DOMN = [sub(L1, C(1)), sub(L2, C(1))]
    BOXN = {'L1': range(1, 7), 'L2': range(1, 7), 'k': range(0, 7), 'NDIM': range(1, 4), 'd': range(0, 3)}

    def eq(a, b, dom=()):
        return sym.equivalent(a, b, DOMN + list(dom), box=BOXN)[0] == 'equal'

    def path_dom(path, term):
        """the path conditions as constraints (t >= 0), when they are comparisons of lengths"""
        from .iterspace import _neg_constraint
        out = []
        for c in kern._conj(path):
            t = _neg_constraint(('un', 'not', c), lambda e: None) if False else None
            cc, neg = c, False
            while cc[0] == 'un' and cc[1] == 'not':
                cc, neg = cc[2], not neg
            if cc[0] == 'bin' and cc[1] in ('<', '<=', '>', '>=', '==', '!='):
                try:
                    a, b = term(cc[2]), term(cc[3])
                except sym.Unsupported:
                    continue
                op = cc[1]
                if neg:
                    op = {'<': '>=', '<=': '>', '>': '<=', '>=': '<', '==': '!=', '!=': '=='}[op]
                if op == '<':
                    out.append(sub(sub(b, a), C(1)))
                elif op == '<=':
                    out.append(sub(b, a))
                elif op == '>':
                    out.append(sub(sub(a, b), C(1)))
                elif op == '>=':
                    out.append(sub(a, b))
        return out

    def decide(name, file, line, loops, term, nd):
        """-> (prefix ok, padding ok, detail)"""
        kt = V('k')

        def item(t, dom):
            """subscript term -> item index term (1-D: itself; n-D: (t - d) / ndim for the dimension atom d)"""
            if not nd:
                return t
            # t = item * NDIM + d : recognise by substituting candidates
            for cand in (kt, sub(n_t, C(1)), sub(L1, C(1)), sub(L2, C(1))):
                pass
            return t
        msgs = []
        pre = [lp for lp in loops if not path_dom(lp[0], term)]
        ok_prefix = False
        for (path, lo, hi, r1, r2, st) in pre:
            if eq(lo, C(0)) and eq(hi, n_t):
                ok_prefix = _reads_are(r1, kt, nd, eq, (), term) and _reads_are(r2, kt, nd, eq, (), term)
        pads = {'l1>l2': False, 'l1<l2': False}
        for (path, lo, hi, r1, r2, st) in loops:
            dom = path_dom(path, term)
            if not dom:
                continue
            if sym.equivalent(tmax(sub(L1, L2), C(0)), sub(L1, L2), DOMN + dom, box=BOXN)[0] == 'equal' and not eq(L1, L2, dom):
                # l1 > l2 on this path: surplus of series 1 against the last element of series 2
                okp = eq(lo, L2, dom) and eq(hi, L1, dom) and _reads_are(r1, kt, nd, eq, dom, term) and _reads_are(r2, sub(L2, C(1)), nd, eq, dom, term)
                pads['l1>l2'] = pads['l1>l2'] or okp
                if not okp:
                    msgs.append('surplus loop at line %s (l1 > l2): range [%s, %s), reads s1[%s] s2[%s]' % (st.line, sym.show(lo), sym.show(hi), ', '.join(sorted(map(fmt, r1))), ', '.join(sorted(map(fmt, r2)))))
            elif sym.equivalent(tmax(sub(L2, L1), C(0)), sub(L2, L1), DOMN + dom, box=BOXN)[0] == 'equal' and not eq(L1, L2, dom):
                okp = eq(lo, L1, dom) and eq(hi, L2, dom) and _reads_are(r2, kt, nd, eq, dom, term) and _reads_are(r1, sub(L1, C(1)), nd, eq, dom, term)
                pads['l1<l2'] = pads['l1<l2'] or okp
                if not okp:
                    msgs.append('surplus loop at line %s (l1 < l2): range [%s, %s), reads s1[%s] s2[%s]' % (st.line, sym.show(lo), sym.show(hi), ', '.join(sorted(map(fmt, r1))), ', '.join(sorted(map(fmt, r2)))))
        return ok_prefix, all(pads.values()) and not msgs, '; '.join(msgs)

    for nm in ED_C:
        f = m.cfunc(nm)
        if f is None:
            raise AnalysisError('anchor vanished: C %s' % nm)
        nd = '_ndim' in nm
        eu = nm.endswith('_euclidean')
        pn = [p[0] for p in f.params]
        s1n, l1n, s2n, l2n = pn[0], pn[1], pn[2], pn[3]
        loops, rets, term = _sum_loops(nm, f.body, 'c', s1n, s2n, ('var', l1n), ('var', l2n))
        ok_prefix, ok_pad, detail = decide(nm, f.file, f.line, loops, term, nd)
        if not (ok_prefix and ok_pad):
            # the loop summary reads the series through their parameters: a body that reaches them through locals of its own (row pointers, a
            # `shorter` / `longer` pair, an extracted accumulator) which the normal form could not remove is not summarised faithfully -- no verdict
            from ..alpha import surviving_new_locals
            extra = surviving_new_locals(os.path.basename(f.file), nm, pn, f.body)
            if any(x[0] == 'idx' and x[1][0] == 'cond' for st_ in walk_stmts(f.body) for e_ in stmt_exprs(st_) for x in walk_expr(e_)):
                extra = set(extra) | {'<series selected by a conditional expression>'}
            if extra:
                # decide the restructured body case by case: with l1 > l2, l1 < l2 or l1 == l2 fixed, every test on the lengths folds, the
                # `shorter` / `longer` selections become plain aliases of the parameters and the normal form removes them; the summary of each
                # specialised body is then compared with what the case asks for.  No verdict when a pointer local survives in some case.
                verdict = _euclid_by_cases(nm, f, pn, nd, eq, term)
                if verdict[0] == 'undecided':
                    ctx.undecided('R-PATH', '%s padding with the last element' % nm, 'restructured around new locals %s: %s' % (sorted(extra), verdict[1]))
                    continue
                ok_prefix = ok_pad = verdict[0] == 'ok'
                detail = verdict[1]
        ctx.check(ok_prefix and ok_pad, 'R-PATH', f.file, nm, 'padding with the last element',
                  'the common prefix [0, min(l1, l2)) pairs element k with element k and the surplus elements of the longer series must be compared with element n-1 '
                  '(n = min(l1, l2)) of the shorter one (prefix ok=%s, padding ok=%s) %s' % (ok_prefix, ok_pad, detail), f.line)
        # the value returned: sqrt(accumulated sum) for the squared kind, the sum itself for the euclidean kind
        vals = [v for p_, v, st in rets if v is not None]
        rooted = [v for v in vals if v[0] == 'call' and dotted(v[1]) in ('sqrt', 'sqrtf', 'sqrtl') and len(v[2]) == 1 and v[2][0][0] == 'var' and '@' in v[2][0][1]]
        plain = [v for v in vals if v[0] == 'var' and '@' in v[1]]
        if not eu:
            ctx.check(bool(vals) and len(rooted) == len(vals), 'R-DOM', f.file, nm, 'final root', 'the squared variant must return sqrt(sum of squared differences)', f.line)
        else:
            ctx.check(bool(vals) and len(plain) == len(vals), 'R-DOM', f.file, nm, 'no final root', 'the euclidean variant sums point distances and must not root the total', f.line)
    pm = m.py('dtaidistance.ed')
    f = pm.funcs.get('distance')
    if f is None:
        raise AnalysisError('anchor vanished: ed.distance')
    s1n, s2n = f.args[0], f.args[1]
    l1e, l2e = ('call', ('var', 'len'), (('var', s1n),), ()), ('call', ('var', 'len'), (('var', s2n),), ())
    loops, rets, term = _sum_loops('ed.distance', f.body, 'py', s1n, s2n, l1e, l2e)
    ok_prefix, ok_pad, detail = decide('distance', pm.path, f.line, loops, term, False)
    # result_fn(sum) with (point distance, result, ...) = inner_dist_fns(inner_dist=..., use_ndim=...): positions 0 and 1 of the same triple
    vals = [v for p_, v, st in rets if v is not None]
    okr = bool(vals)
    trip = None
    for v in vals:
        c = v[1] if v[0] == 'call' else None
        if not (c is not None and c[0] == 'idx' and c[2] == ('num', 1) and c[1][0] == 'call' and (dotted(c[1][1]) or '').endswith('inner_dist_fns')
                and len(v[2]) == 1 and v[2][0][0] == 'var' and '@' in v[2][0][1]):
            okr = False
        else:
            trip = c[1]
    okt = False
    if trip is not None:
        # arguments bound against the signature of inner_dist_fns (given by keyword or by position)
        from ..pyres import bind_args
        tgt_ = m.py('dtaidistance.innerdistance').funcs.get('inner_dist_fns')
        try:
            kws, _x1, _x2 = bind_args(tgt_, False, trip)
        except Exception:   # noqa
            kws = dict((k_, v_) for k_, v_ in trip[3])
        okt = kws.get('inner_dist') == ('var', 'inner_dist') and kws.get('use_ndim') == ('var', 'use_ndim')
        # the summand is position 0 of the same triple
        used0 = any(x[0] == 'call' and x[1] == ('idx', trip, ('num', 0)) for lp in loops for s_ in walk_stmts(lp[5].body) for e_ in stmt_exprs(s_)
                    for x in walk_expr(subst_expr(e_, _single_defs(f))))
        okt = okt and used0
    ctx.check(ok_prefix and ok_pad and okr and okt, 'R-PATH', pm.path, 'distance', 'padding with the last element',
              'ed.distance must pair the common prefix element-wise, compare surplus elements with the last element of the shorter series and return result_fn(sum) '
              '(prefix=%s padding=%s result=%s triple=%s) %s' % (ok_prefix, ok_pad, okr, okt, detail), f.line)


def _single_defs(f):
    """locals of f with exactly one definition -> that definition (tuple-unpacked calls become subscripts of the call)"""
    defs = {}
    for s in walk_stmts(f.body):
        if s.k == 'assign' and s.target[0] == 'var':
            defs.setdefault(s.target[1], []).append(s.value)
        elif s.k == 'assign' and s.target[0] == 'tuple':
            for i_, t in enumerate(s.target[1]):
                if t[0] == 'var':
                    defs.setdefault(t[1], []).append(('idx', s.value, ('num', i_)) if s.value[0] != 'tuple' else s.value[1][i_])
    return {k_: v_[0] for k_, v_ in defs.items() if len(v_) == 1}



def _fold_lengths(body, truth):
    """body with every `if` / conditional expression whose test `truth(cond)` decides (True / False) replaced by the arm taken"""
    from ..ir import S

    def fe(e):
        if not isinstance(e, tuple) or not e:
            return e
        if e[0] == 'cond':
            t = truth(e[1])
            if t is True:
                return fe(e[2])
            if t is False:
                return fe(e[3])
        return tuple(fe(x) if isinstance(x, tuple) else x for x in e)

    def fs(stmts):
        out = []
        for st in stmts:
            if st.k == 'if':
                t = truth(st.cond)
                if t is True:
                    out.extend(fs(st.then))
                    continue
                if t is False:
                    out.extend(fs(st.els or []))
                    continue
            d = {}
            for k_, v_ in st.d.items():
                if k_ in ('body', 'then', 'els', 'init', 'inc') and isinstance(v_, list):
                    d[k_] = fs(v_)
                elif isinstance(v_, tuple) and v_ and isinstance(v_[0], str):
                    d[k_] = fe(v_)
                else:
                    d[k_] = v_
            out.append(S(st.k, st.line, **d))
        return out
    return fs(body)


def _euclid_by_cases(nm, f, pn, nd, eq, term0):
    """-> ('ok' | 'bad' | 'undecided', detail).  See the call site in rule_euclidean."""
    from .. import alpha
    from ..canon import split_cond_assigns
    L1, L2 = V('L1'), V('L2')
    s1n, l1n, s2n, l2n = pn[0], pn[1], pn[2], pn[3]
    def length_terms(body):
        """lterm(e) for `body`: expressions over the lengths and the scalars defined exactly once from them (n = MIN(l1, l2), lmax = MAX(l1, l2), ..)"""
        defs, cnt = {}, {}
        for st in walk_stmts(body):
            v = st.name if st.k == 'decl' else (st.target[1] if st.k == 'assign' and st.target[0] == 'var' else None)
            val = (st.init if st.k == 'decl' else st.value) if v is not None else None
            if val is not None:
                cnt[v] = cnt.get(v, 0) + 1
                defs[v] = val
            if st.k == 'for':
                cnt[st.var] = cnt.get(st.var, 0) + 2

        def lterm(e):
            def atom(x):
                if x == ('var', l1n):
                    return 'L1'
                if x == ('var', l2n):
                    return 'L2'
                if x[0] == 'var' and cnt.get(x[1]) == 1 and x[1] in defs and x[1] not in pn:
                    t = lterm(defs[x[1]])
                    if set(sym.atoms(t)) <= {'L1', 'L2'}:
                        return t
                raise sym.Unsupported('not a length')
            return sym.from_ir(norm_minmax(e), atom=atom)
        return lterm

    cases = {'l1 > l2': [sub(sub(L1, L2), C(1))], 'l1 < l2': [sub(sub(L2, L1), C(1))], 'l1 == l2': [sub(L1, L2), sub(L2, L1)]}
    msgs = []
    for cname, cdom in cases.items():
        def truth(c, cdom=cdom):
            lterm = LT[0]
            neg = False
            while c[0] == 'un' and c[1] == 'not':
                c, neg = c[2], not neg
            if not (c[0] == 'bin' and c[1] in ('<', '<=', '>', '>=', '==', '!=')):
                return None
            try:
                t = sym.ite((c[1], lterm(c[2]), lterm(c[3])), C(1), C(0))
            except sym.Unsupported:
                return None
            if eq(t, C(1), cdom):
                return not neg
            if eq(t, C(0), cdom):
                return neg
            return None
        body = f.body
        LT = [None]
        for _round in range(4):        # folding one test can leave a scalar with a single definition, which lets the next test fold
            LT[0] = length_terms(body)
            nb = _fold_lengths(body, truth)
            same = len(list(walk_stmts(nb))) == len(list(walk_stmts(body)))
            body = nb
            if same:
                break
        try:
            body = alpha.absorb_new_locals(os.path.basename(f.file), nm, pn, split_cond_assigns(body))
        except Exception as exn:       # noqa
            return 'undecided', 'case %s: normal form failed (%s)' % (cname, exn)
        # a pointer local that still stands between the parameters and the reads makes the summary unfaithful
        read_vars = {x[1] for st in walk_stmts(body) for k_, e_ in enumerate(stmt_exprs(st)) for x in walk_expr(e_)
                     if x[0] == 'var' and not (st.k == 'assign' and k_ == 0 and e_ == st.target)}
        for st in walk_stmts(body):
            val = st.init if st.k == 'decl' else (st.value if st.k == 'assign' and st.target[0] == 'var' else None)
            if val is None or (st.name if st.k == 'decl' else st.target[1]) not in read_vars:
                continue
            w = val
            while w[0] == 'cast':
                w = w[-1]
            if w in (('var', s1n), ('var', s2n)) or (w[0] == 'un' and w[1] == 'addr') or (w[0] == 'cond' and any(x in (('var', s1n), ('var', s2n)) for x in walk_expr(w))) \
                    or (w[0] == 'bin' and w[1] in ('+', '-') and any(x in (('var', s1n), ('var', s2n)) for x in (w[2], w[3]))):
                return 'undecided', 'case %s: the pointer local `%s` survives the normal form' % (cname, st.name if st.k == 'decl' else fmt(st.target))
        if any(x[0] == 'idx' and x[1][0] == 'cond' for st_ in walk_stmts(body) for e_ in stmt_exprs(st_) for x in walk_expr(e_)):
            return 'undecided', 'case %s: a series is still selected by a conditional expression' % cname
        try:
            loops, rets, term = _sum_loops(nm, body, 'c', s1n, s2n, ('var', l1n), ('var', l2n))
        except AnalysisError as exn:
            return 'undecided', 'case %s: %s' % (cname, exn)
        kt = V('k')
        n_pre = n_pad = 0
        for (path, lo, hi, r1, r2, st) in loops:
            if any(True for _ in kern._conj(path)):
                return 'undecided', 'case %s: the loop at line %s stays under a condition that does not fold' % (cname, st.line)
            if eq(tmax(sub(hi, lo), C(0)), C(0), cdom):
                continue                # empty in this case
            if not r1 and not r2:
                continue                # not an accumulating loop over the series
            shown = 'loop at line %s over [%s, %s) reads s1[%s] s2[%s]' % (st.line, sym.show(lo), sym.show(hi), ', '.join(sorted(map(fmt, r1))), ', '.join(sorted(map(fmt, r2))))
            if eq(lo, C(0), cdom) and eq(hi, tmin(L1, L2), cdom):
                n_pre += 1
                if not (_reads_are(r1, kt, nd, eq, cdom, term) and _reads_are(r2, kt, nd, eq, cdom, term)):
                    msgs.append('%s: prefix %s' % (cname, shown))
            elif cname == 'l1 > l2' and eq(lo, L2, cdom) and eq(hi, L1, cdom):
                n_pad += 1
                if not (_reads_are(r1, kt, nd, eq, cdom, term) and _reads_are(r2, sub(L2, C(1)), nd, eq, cdom, term)):
                    msgs.append('%s: surplus %s, wanted s1[k] against s2[l2-1]' % (cname, shown))
            elif cname == 'l1 < l2' and eq(lo, L1, cdom) and eq(hi, L2, cdom):
                n_pad += 1
                if not (_reads_are(r2, kt, nd, eq, cdom, term) and _reads_are(r1, sub(L1, C(1)), nd, eq, cdom, term)):
                    msgs.append('%s: surplus %s, wanted s2[k] against s1[l1-1]' % (cname, shown))
            else:
                msgs.append('%s: unexpected %s' % (cname, shown))
        if n_pre != 1:
            msgs.append('%s: %d prefix loops over [0, min(l1, l2))' % (cname, n_pre))
        if n_pad != (0 if cname == 'l1 == l2' else 1):
            msgs.append('%s: %d surplus loops' % (cname, n_pad))
    return ('bad', 'decided per case of the length comparison -- ' + '; '.join(msgs)) if msgs else ('ok', '')


def _reads_are(reads, want_item, nd, eq, dom, term=None, ndim='ndim'):
    """Every subscript (IR) in `reads` addresses item `want_item`: 1-D: subscript == item; n-D: subscript == item * ndim + d with d a plain variable
    (the dimension counter)."""
    if not reads:
        return False
    for e in reads:
        try:
            if not nd:
                if not eq(term(e), want_item, dom):
                    return False
                continue
            adds = _flat_add(e)
            prods = [a for a in adds if a[0] == 'bin' and a[1] == '*' and ('var', ndim) in (a[2], a[3])]
            rest = [a for a in adds if a not in prods]
            if len(prods) != 1 or len(rest) != 1 or rest[0][0] != 'var':
                return False
            item = prods[0][3] if prods[0][2] == ('var', ndim) else prods[0][2]
            if not eq(term(item), want_item, dom):
                return False
        except sym.Unsupported:
            return False
    return True


def _flat_add(e):
    if e[0] == 'bin' and e[1] == '+':
        return _flat_add(e[2]) + _flat_add(e[3])
    if e[0] == 'cast':
        return _flat_add(e[-1])
    return [e]



def rule_band_laws(ctx):
    """Laws of the band relation all copies were proved equal to: symmetry under swapping the series, monotone in the
    window, window 1 on equal lengths is the diagonal."""
    lo, hi = kern.canon_lo(), kern.canon_hi()
    dom = [sub(V('L1'), C(1)), sub(V('L2'), C(1)), sub(V('W'), C(1)), V('i'), sub(sub(V('L1'), V('i')), C(1)), V('j'), sub(sub(V('L2'), V('j')), C(1))]
    inb = sym.ite(('<=', lo, V('j')), sym.ite(('<', V('j'), hi), C(1), C(0)), C(0))
    swap = {'i': V('j'), 'j': V('i'), 'L1': V('L2'), 'L2': V('L1')}
    inb_s = sym.subst(inb, swap)
    r = sym.equivalent(inb, inb_s, dom, box=kern.BOX)
    ctx.check(r[0] == 'equal', 'R-BAND', 'scheme', 'band', 'symmetry', 'cell (i, j) is in the band of (s1, s2) iff (j, i) is in the band of (s2, s1): %s' % (r,), None, detail=str(r[1]))
    lo1 = sym.subst(lo, {'W': add(V('W'), C(1))})
    hi1 = sym.subst(hi, {'W': add(V('W'), C(1))})
    r1 = sym.equivalent(tmin(lo1, lo), lo1, dom[:5], box=kern.BOX)
    r2 = sym.equivalent(tmax(hi1, hi), hi1, dom[:5], box=kern.BOX)
    ctx.check(r1[0] == 'equal' and r2[0] == 'equal', 'R-BAND', 'scheme', 'band', 'monotone in window',
              'a larger window can only widen the band (lower limit non-increasing, upper limit non-decreasing): %s %s' % (r1, r2), None)
    eq = {'L2': V('L1'), 'W': C(1)}
    r3 = sym.equivalent(sym.subst(lo, eq), V('i'), [sub(V('L1'), C(1)), V('i'), sub(sub(V('L1'), V('i')), C(1))], box=kern.BOX)
    r4 = sym.equivalent(sym.subst(hi, eq), add(V('i'), C(1)), [sub(V('L1'), C(1)), V('i'), sub(sub(V('L1'), V('i')), C(1))], box=kern.BOX)
    ctx.check(r3[0] == 'equal' and r4[0] == 'equal', 'R-BAND', 'scheme', 'band', 'window 1 is the diagonal',
              'with window 1 on equal lengths only j = i is admissible (DTW = Euclidean distance): %s %s' % (r3, r4), None)


def rule_point_distance(ctx, m, ks):
    """Point distances are symmetric, non-negative forms: (x-y)*(x-y), |x-y|, sqrt(sum (x-y)^2)."""
    for F in ks:
        if F.lang != 'c':
            continue
        f = m.cfunc(F.name)
        inner = F.inner
        okforms = True
        found = 0
        for s in walk_stmts(inner.body):
            if s.k == 'assign' and s.target[0] == 'var' and s.target[1].split('#')[0] == 'd':
                v = s.value
                if s.d.get('aug') == '+':
                    v = aug_rhs(s)
                if v == ('num', 0):
                    continue
                found += 1
                okforms = okforms and _sym_form(v)
        ctx.check(found >= 1 and okforms, 'R-REC', F.file, F.name, 'point distance form',
                  'the point distance must be a symmetric non-negative form ((x-y)*(x-y), fabs(x-y), sqrt of a sum of such squares)', F.inner_line)
    pm = m.py('dtaidistance.innerdistance')
    for cls in ('SquaredEuclidean', 'SquaredEuclideanNdim', 'Euclidean', 'EuclideanNdim'):
        g = pm.funcs.get(cls + '.inner_dist')
        if g is None:
            raise AnalysisError('anchor vanished: innerdistance.%s' % cls)
        ret = [s for s in g.body if s.k == 'return']
        t = fmt(ret[-1].value) if ret else ''
        ok = t in ('((x - y) ** 2)', 'np.sum(((x - y) ** 2))', 'abs((x - y))', 'np.sqrt(np.sum(np.power((x - y), 2)))')
        ctx.check(ok, 'R-REC', pm.path, cls + '.inner_dist', 'point distance form', 'symmetric non-negative point distance expected; found %s' % t, g.line)


def _sym_form(v):
    if v[0] == 'bin' and v[1] == '*' and v[2] == v[3] and v[2][0] == 'bin' and v[2][1] == '-':
        return True
    if v[0] == 'call' and dotted(v[1]) in ('fabs', 'sqrt'):
        a = v[2][0]
        if dotted(v[1]) == 'fabs':
            return a[0] == 'bin' and a[1] == '-'
        return a[0] == 'var' or _sym_form(a)
    return False


def rule_ndim_siblings(ctx, m):
    """1-D entry points that are designed as wrappers delegate to the n-D kernel with literal ndim = 1."""
    pairs = [('dtw_warping_paths', 'dtw_warping_paths_ndim', 8), ('dtw_warping_paths_euclidean', 'dtw_warping_paths_ndim_euclidean', 8),
             ('dtw_warping_paths_affinity', 'dtw_warping_paths_affinity_ndim', 9), ('dtw_warping_path', 'dtw_warping_path_ndim', 7)]
    for a, b, pos in pairs:
        f = m.cfunc(a)
        if f is None:
            raise AnalysisError('anchor vanished: C %s' % a)
        ret = [s for s in f.body if s.k == 'return']
        ok = len(f.body) == 1 and bool(ret) and ret[0].value[0] == 'call' and dotted(ret[0].value[1]) == b
        if ok:
            args = ret[0].value[2]
            pn = [p[0] for p in f.params]
            proto = m.cproto(b)
            bn = [p[0] for p in proto.params]
            k = bn.index('ndim')
            rest = [x for i, x in enumerate(args) if i != k]
            ok = args[k] == ('num', 1) and rest == [('var', p) for p in pn]
        ctx.check(ok, 'R-VAR', f.file, a, 'delegation with ndim = 1', '%s must return %s(<same arguments>, ndim = 1)' % (a, b), f.line)
    # dtw.distance_fast selects distance_ndim iff use_ndim
    pm = m.py('dtaidistance.dtw')
    f = pm.funcs.get('distance_fast')
    # decided on the returned value with the use_ndim attribute fixed to False / True
    from ..symexec import peval_fields
    from ..inline import map_expr
    ex = Exec()
    ex.run(f.body, Env())
    rets_p = [(p_, v) for p_, v, st in ex.returns if v is not None and st.k == 'return']

    def fixed(e, val):
        def f_(x):
            if x[0] == 'bin' and x[1] in ('is', 'isnot', '==', '!=') and x[2][0] == 'attr' and x[2][2] == 'use_ndim' and x[3][0] == 'bool':
                return ('bool', (val is x[3][1]) == (x[1] in ('is', '==')))
            return x
        e = map_expr(e, f_)
        e = map_expr(e, lambda x: ('bool', val) if x[0] == 'attr' and x[2] == 'use_ndim' else x)
        return peval_fields(e, {})

    def callee(e):
        cs = [dotted(x[1]) for x in walk_expr(e) if x[0] == 'call' and (dotted(x[1]) or '').startswith('dtw_cc.')]
        return cs
    def reached(val):
        """callees of the returns that can be reached with use_ndim fixed to val"""
        out = []
        for p_, v in rets_p:
            if any(fixed(c, val) == ('bool', False) for c in p_):
                continue
            out.extend(callee(fixed(v, val)))
        return out
    ok = bool(rets_p) and reached(False) == ['dtw_cc.distance'] and reached(True) == ['dtw_cc.distance_ndim']
    ctx.check(ok, 'R-VAR', pm.path, 'distance_fast', 'n-D selection', 'distance_fast must call dtw_cc.distance_ndim exactly when use_ndim is set', f.line)
