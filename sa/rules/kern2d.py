"""Kernel rules for the full-matrix Python kernels (dtw.warping_paths, dtw.warping_paths_affinity, dp.dp)."""
from ..cfront import AnalysisError
from ..ir import fmt, walk_expr, walk_stmts, dotted, orient
from .. import sym, kernels
from ..sym import var as V, const as C, add, sub, tmin
from ..symexec import subst_expr, norm_minmax, reads_of
from . import kern


def load(m, mod, fn, consts=None, nonnull=()):
    from .. import symexec
    pm = m.py(mod)
    pf = pm.funcs.get(fn)
    if pf is None:
        raise AnalysisError('anchor vanished: %s.%s' % (mod, fn))
    cs = kernels.module_consts(pm)
    cs.update(consts or {})
    old = set(symexec.NONNULL)
    symexec.NONNULL.update(nonnull)
    try:
        F = kernels.extract_distance_kernel(fn, pf.body, pf.args, 'py', consts=cs)
    finally:
        symexec.NONNULL.clear()
        symexec.NONNULL.update(old)
    F.file = pm.path
    F.func = pf
    return F


def _flat_sum(e):
    """-> list of (sign, addend)."""
    if e[0] == 'bin' and e[1] == '+':
        return _flat_sum(e[2]) + _flat_sum(e[3])
    if e[0] == 'bin' and e[1] == '-':
        return _flat_sum(e[2]) + [(-s, a) for s, a in _flat_sum(e[3])]
    return [(1, e)]


def preds(F, store, amap, kind='min'):
    """Predecessors of one DP store -> {(di, dj): [(sign, extra addend)...]}, common addends, or raises AnalysisError."""
    arr = F.arr
    tgt = store[2]
    if tgt[2][0] != 'tuple' or len(tgt[2][1]) != 2:
        raise AnalysisError('unrecognised shape: DP store index of %s is not 2-D' % F.name)
    R, Cc = [kernels.term(x, amap) for x in tgt[2][1]]
    value = norm_minmax(store[3])
    node = None
    for x in walk_expr(value):
        if x[0] == kind and len(x[1]) >= 3 and sum(1 for a in x[1] if reads_of(a, arr)) >= 3:
            node = x
            break
    if node is None:
        return None, None, value
    out = {}
    for a in node[1]:
        adds = _flat_sum(a)
        rds = [(s, t) for s, t in adds if t[0] == 'idx' and t[1] == ('var', arr)]
        if len(rds) != 1 or rds[0][0] != 1:
            return None, None, value
        rd = rds[0][1]
        if rd[2][0] != 'tuple':
            return None, None, value
        r, c = [kernels.term(x, amap) for x in rd[2][1]]
        dr, dc = sub(r, R), sub(c, Cc)
        if not (sym.is_const(dr) and sym.is_const(dc)):
            return None, None, value
        out[(dr[2], dc[2])] = [(s, t) for s, t in adds if t is not rd]
    return out, node, value


def rule_rec_dtw2d(ctx, F):
    amap = F.amap
    st = F.store
    tgt = st[2]
    R, Cc = [kernels.term(x, amap) for x in tgt[2][1]]
    ctx.check(R == add(V('i'), C(1)) and Cc == add(V('j'), C(1)), 'R-REC', F.file, F.name, 'matrix map',
              'cell (i, j) must be stored at [i + 1, j + 1]; found [%s, %s]' % (sym.show(R), sym.show(Cc)), st[4].line)
    p, node, value = preds(F, st, amap)
    if p is None:
        ctx.violation('R-REC', F.file, F.name, 'DP value', 'the DP value is not d + min(three predecessors): %s' % fmt(value)[:300], st[4].line)
        return
    got = {k: sorted(fmt(t) for s, t in v) for k, v in p.items()}
    pen = None
    shape = {}
    for k, v in p.items():
        shape[k] = len(v)
        for s_, t in v:
            pen = t
    want = {(-1, -1): 0, (-1, 0): 1, (0, -1): 1}
    ctx.check(shape == want, 'R-REC', F.file, F.name, 'DP predecessors',
              'predecessor set {(di,dj): extra addends} is %s; the DTW recurrence requires the diagonal without and the two '
              'non-diagonal steps with the penalty' % sorted(got.items()), st[4].line, detail=str(sorted(got.items())))
    exs = [tuple(v) for k, v in p.items() if v]
    if len(exs) == 2:
        ctx.check(exs[0] == exs[1], 'R-REC', F.file, F.name, 'penalty symmetric', 'the two non-diagonal steps use different penalties', st[4].line)
        F.penalty_expr = exs[0][0][1]
    # D + min(...)
    ok = value[0] == 'bin' and value[1] == '+' and (value[2] is node or value[3] is node or value[2] == node or value[3] == node)
    ctx.check(ok, 'R-REC', F.file, F.name, 'DP value shape', 'the DP value must be `d + min(...)`; found %s' % fmt(value)[:200], st[4].line)
    if ok:
        F.D = value[3] if value[2] == node else value[2]
    guard = [e for e in F.col.events if e[0] == 'continue']
    okg = False
    for g in guard:
        for c in kern._conj(g[1][-1:]):
            o = orient(c, F.D)
            if o is not None and o[0] == '>':
                okg = True
                F.max_step_expr = o[2]
    ctx.check(okg, 'R-REC', F.file, F.name, 'max_step guard', 'no guard `d > max_step -> skip cell` before the DP store', F.inner_line)
    # allocation shape (r + 1, c + 1) filled with inf
    al = F.env0.get(F.arr)
    oka = False
    if al is not None and al[0] == 'call' and (dotted(al[1]) or '').endswith('full') and len(al[2]) >= 2 and al[2][0][0] in ('tuple', 'list'):
        dims = [kernels.term(x, amap) for x in al[2][0][1]]
        oka = dims == [add(V('L1'), C(1)), add(V('L2'), C(1))] and al[2][1] == ('num', float('inf'))
    ctx.check(oka, 'R-REC', F.file, F.name, 'matrix allocation', 'the matrix must be allocated as (len1 + 1) x (len2 + 1) filled with infinity; found %s' % (fmt(al)[:120] if al else None), F.outer_line)
    ctx.sample({'kernel': F.name, 'predecessors': sorted((list(k), v) for k, v in got.items())})


def rule_psi2d(ctx, F, extreme='argmin'):
    """Roles of the four psi entries in a full-matrix kernel."""
    arr = F.arr
    amap = F.amap
    zero_loops = []
    for ev in F.prologue.events:
        if ev[0] == 'loop' and ev[2].k == 'for':
            lp = ev[2]
            for st in lp.body:
                if st.k == 'assign' and st.target[0] == 'idx' and st.target[1] == ('var', arr) and subst_expr(st.value, ev[3]) == ('num', 0) \
                        and st.target[2][0] == 'tuple' and len(st.target[2][1]) == 2:
                    hi = kernels.term(subst_expr(lp.hi, ev[3]), amap)
                    a, b = st.target[2][1]
                    role = None
                    if a == ('num', 0) and b == ('var', lp.var):
                        role = 'row'
                    elif b == ('num', 0) and a == ('var', lp.var):
                        role = 'col'
                    zero_loops.append((role, hi, lp))
    roles = {r: h for r, h, lp in zero_loops}
    ok = roles.get('row') == add(V('PSI2B'), C(1)) and roles.get('col') == add(V('PSI1B'), C(1)) and len(zero_loops) == 2
    ctx.check(ok, 'R-PSI', F.file, F.name, 'psi begin relaxation',
              'the first ROW must be zeroed over [0, psi_2b + 1) (series 2) and the first COLUMN over [0, psi_1b + 1) (series 1); found %s'
              % [(r, sym.show(h)) for r, h, lp in zero_loops], F.outer_line)
    # end relaxation: slices of the matrix in the epilogue
    slices = []
    for ev in F.epilogue.events:
        exprs = [ev[2], ev[3]] if ev[0] == 'store' else ([ev[2]] if ev[0] == 'return' and ev[2] is not None else [])
        for e in exprs:
            for x in walk_expr(e):
                if x[0] == 'idx' and x[2][0] == 'tuple' and len(x[2][1]) == 2 and _base_is(x[1], arr):
                    a, b = x[2][1]
                    if a[0] == 'slice' and b[0] != 'slice':
                        slices.append(('col', a, x))
                    elif b[0] == 'slice' and a[0] != 'slice':
                        slices.append(('row', b, x))
    seen = {}
    for role, sl, x in slices:
        names = set()
        for y in walk_expr(sl):
            nm = amap(y) if y[0] in ('idx', 'attr', 'call', 'var') else None
            if isinstance(nm, str) and nm.startswith('PSI'):
                names.add(nm)
        if names:
            seen.setdefault(role, set()).update(names)
    ok = seen.get('col') == {'PSI1E'} and seen.get('row') == {'PSI2E'}
    ctx.check(ok, 'R-PSI', F.file, F.name, 'psi end relaxation',
              'the last COLUMN must be scanned over psi_1e rows and the last ROW over psi_2e columns; found %s' % {k: sorted(v) for k, v in seen.items()},
              F.outer_line)
    # psi_neg: stores of -1 only into such slices and only under psi_neg
    for ev in F.epilogue.events:
        if ev[0] == 'store' and ev[3] == ('num', -1):
            conj = kern._conj(ev[1])
            okn = any(c == ('var', 'psi_neg') for c in conj)
            ctx.check(okn, 'R-PSI', F.file, F.name, 'psi_neg marking %s' % fmt(ev[2])[:60], 'cells are marked -1 without psi_neg being requested', ev[4].line)


def rule_end_cell2d(ctx, F):
    """Full-matrix kernel: every value read from the matrix as a single cell after the DP loops (the result without end relaxation, the anchor of the
    relaxation slices) sits in the column of the last in-band cell of the last row, min(len2, len2 + window - 1) in matrix coordinates."""
    amap = F.amap
    want = tmin(V('L2'), sub(add(V('L2'), V('W')), C(1)))
    n = 0
    seen = set()
    for ev in F.epilogue.events:
        exprs = [ev[2], ev[3]] if ev[0] == 'store' else ([ev[2]] if ev[0] == 'return' and ev[2] is not None else [])
        for e in exprs:
            for x in walk_expr(e):
                if x[0] == 'idx' and x[2][0] == 'tuple' and len(x[2][1]) == 2 and _base_is(x[1], F.arr):
                    a, b = x[2][1]
                    cols = []
                    if b[0] != 'slice' and a[0] != 'slice':
                        cols.append(b)
                    elif a[0] == 'slice' and b[0] != 'slice':
                        cols.append(b)                    # last-column scan: its column
                    for cexp in cols:
                        if cexp in seen:
                            continue
                        seen.add(cexp)
                        try:
                            t = kernels.term(norm_minmax(cexp), amap)
                        except Exception:  # noqa
                            ctx.undecided('R-PSI', '%s end cell column %s' % (F.name, fmt(cexp)[:60]), 'not a term over the lengths and the window')
                            continue
                        if not (sym.atoms(t) <= {'L1', 'L2', 'W'}):
                            continue
                        n += 1
                        r = sym.equivalent(t, want, kern.BASE_DOM[:2] + [sub(V('W'), C(1))], box=kern.BOX)
                        ctx.check(r[0] == 'equal', 'R-PSI', F.file, F.name, 'end cell column',
                                  'the result is read in column %s of the matrix; the last in-band cell of the last row is in column min(len2, len2 + window - 1)%s'
                                  % (sym.show(t), (' -- they differ at %s' % (r[1],)) if r[0] == 'differ' else ''), ev[-1].line if hasattr(ev[-1], 'line') else F.outer_line)
    return n


def _base_is(b, arr):
    while b[0] == 'call' and len(b[2]) == 1:
        b = b[2][0]
    return b == ('var', arr)


def rule_dom_py2d(ctx, m, F, keep_int_repr):
    """warping_paths specialised on keep_int_repr: matrix and distance are in one domain, final compare in that domain."""
    taint = kern.tainted_settings_attrs(m)
    for nm, e, attr in (('max_step', F.max_step_expr, 'MAXSTEP_I'), ('penalty', F.penalty_expr, 'PEN_I'), ('max_dist', F.max_dist_expr, 'MAXDIST_I')):
        if e is None:
            ctx.undecided('R-DOM', '%s %s' % (F.name, nm), 'threshold expression not found')
            continue
        ctx.check(F.amap(e) == attr, 'R-DOM', F.file, F.name, '%s conversion' % nm,
                  'accumulated costs are in the internal domain; the %s used with them must be adj_%s, found %s' % (nm, nm, fmt(e)[:100]), F.inner_line)
    for ev in F.epilogue.events:
        if ev[0] != 'return' or ev[2] is None or ev[2][0] != 'tuple' or len(ev[2][1]) != 2:
            continue
        d, mat = ev[2][1]
        conv_m = mat[0] == 'call' and kern._triple_pos(mat[1]) == 1
        ctx.check(conv_m == (not keep_int_repr), 'R-DOM', F.file, F.name, 'matrix conversion [keep_int_repr=%s]' % keep_int_repr,
                  'the returned matrix must be result_fn(matrix) iff keep_int_repr is false', ev[3].line)
        # every matrix read feeding d goes through the converted matrix iff not keep_int_repr
        rds = [x for x in walk_expr(d) if x[0] == 'idx' and _base_is(x[1], F.arr)]
        conv_r = [x for x in rds if x[1][0] == 'call' and kern._triple_pos(x[1][1]) == 1]
        ctx.check((len(conv_r) == len(rds)) if not keep_int_repr else (not conv_r), 'R-DOM', F.file, F.name,
                  'distance domain [keep_int_repr=%s]' % keep_int_repr,
                  'the returned distance must be read from the matrix in the domain that is returned', ev[3].line)
        cm = False
        for x in walk_expr(d):
            if x[0] == 'cond':
                for c in kern._conj([x[1]]):
                    o = orient(c, lambda e: e[0] != 'attr')
                    if o is not None and o[0] in ('>', '>=') and o[2][0] == 'attr':
                        cm = True
                        at = o[2][2]
                        ctx.check(o[0] == '>', 'R-PRUNE', F.file, F.name, 'final threshold comparator [keep_int_repr=%s]' % keep_int_repr,
                                  'only `d > max_dist` may become infinity', ev[3].line)
                        ctx.check(at.startswith('adj_') == keep_int_repr, 'R-DOM', F.file, F.name, 'final threshold domain [keep_int_repr=%s]' % keep_int_repr,
                                  'the final comparison mixes domains: distance is in the %s domain, threshold is .%s' % ('internal' if keep_int_repr else 'result', at), ev[3].line)
                        if at in taint:
                            ctx.violation('R-DOM', F.file, F.name, 'final threshold provenance .%s' % at,
                                          'with use_pruning, %s overwrites .%s with inner_val(result(sum)) of the Euclidean bound (lossy round trip); the final '
                                          'conversion then turns a DTW distance equal to the Euclidean distance into infinity' % (taint[at][0], at), ev[3].line)
        ctx.check(cm, 'R-PRUNE', F.file, F.name, 'final threshold conversion [keep_int_repr=%s]' % keep_int_repr, 'no final `d > max_dist -> infinity` conversion', ev[3].line)


# ------------------------------------------------------------------------------------------ Needleman-Wunsch (dp.dp)
def rule_rec_nw(ctx, F):
    amap = F.amap
    st = F.store
    R, Cc = [kernels.term(x, amap) for x in st[2][2][1]]
    ctx.check(R == add(V('i'), C(1)) and Cc == add(V('j'), C(1)), 'R-REC', F.file, F.name, 'matrix map',
              'cell (i, j) must be stored at [i + 1, j + 1]; found [%s, %s]' % (sym.show(R), sym.show(Cc)), st[4].line)
    p, node, value = preds(F, st, amap)
    if p is None or value != node:
        ctx.violation('R-REC', F.file, F.name, 'DP value', 'the score is not the minimum of three predecessor scores: %s' % fmt(value)[:300], st[4].line)
        return

    def comp(t):
        """Which component of fn(s1[i], s2[j]) an addend is: 0 (substitution), 1 (indel), 'pen', or None."""
        for x in walk_expr(t):
            if x[0] == 'idx' and x[2][0] == 'num' and x[1][0] == 'call' and x[1][1] == ('var', 'fn'):
                return x[2][1]
        if any(y == ('var', 'penalty') for y in walk_expr(t)):
            return 'pen'
        return None
    got = {k: sorted(str(comp(t)) for s_, t in v) for k, v in p.items()}
    want = {(-1, -1): ['0'], (-1, 0): ['1', 'pen'], (0, -1): ['1', 'pen']}
    ctx.check(got == want, 'R-REC', F.file, F.name, 'DP predecessors',
              'predecessor costs are %s; Needleman-Wunsch requires substitution cost on the diagonal and the indel cost (+ penalty) on the two gap moves'
              % sorted(got.items()), st[4].line, detail=str(sorted(got.items())))
    # the cost function is applied to (symbol of s1 at the row, symbol of s2 at the column), in this order (substitution matrices need not be symmetric)
    calls = []
    for x in walk_expr(value if value is not None else st[3]):
        if x[0] == 'call' and x[1] == ('var', 'fn') and x not in calls:
            calls.append(x)
    for x in walk_expr(st[3]):
        if x[0] == 'call' and x[1] == ('var', 'fn') and x not in calls:
            calls.append(x)
    okc = bool(calls)
    for c in calls:
        a = c[2]
        good = len(a) == 2 and all(y[0] == 'idx' and y[1][0] == 'var' for y in a)
        if good:
            try:
                ti, tj = kernels.term(a[0][2], amap), kernels.term(a[1][2], amap)
            except Exception:  # noqa
                ti = tj = None
            good = (a[0][1][1], ti) == ('s1', V('i')) and (a[1][1][1], tj) == ('s2', V('j'))
        okc = okc and good
    ctx.check(okc, 'R-REC', F.file, F.name, 'cost arguments',
              'cell (i, j) must be scored with fn(s1[i], s2[j]); found %s' % [fmt(c)[:60] for c in calls], st[4].line)
    ctx.sample({'kernel': F.name, 'predecessors': sorted((list(k), v) for k, v in got.items())})
    return p


# ------------------------------------------------------------------------------------------ affinity (Python)
def affinity_facts(F):
    """Normalised recurrence facts of an affinity kernel's stores (Python or C share this)."""
    raise NotImplementedError
