"""Small table/encoding rules (R-TAB) and single-site structural facts that several properties share."""
from ..cfront import AnalysisError
from ..ir import fmt, walk_stmts, walk_expr, stmt_exprs, dotted
from ..model import calls_in
from ..symexec import fold_bool, norm_minmax, peval_fields as _peval


def _func(m, mod, q):
    pm = m.py(mod)
    f = pm.funcs.get(q)
    if f is None:
        raise AnalysisError('anchor vanished: %s.%s' % (mod, q))
    return pm, f


def rule_settings_defaults(ctx, m):
    """DTWSettings.for_dtw: window None -> max(len(s1), len(s2)); split_psi returns (1b, 1e, 2b, 2e) in tuple order;
    __init__ establishes adj_* = inner_val(*) by position 2 of the triple."""
    pm, f = _func(m, 'dtaidistance.dtw', 'DTWSettings.for_dtw')
    ok = False
    for s in f.body:
        if s.k == 'if' and fmt(s.cond) == '(settings.window is None)':
            for t in s.then:
                if t.k == 'assign' and fmt(t.target) == 'settings.window' and fmt(t.value) in ('max(len(s1), len(s2))', 'max(len(s2), len(s1))'):
                    ok = True
    ctx.check(ok, 'R-BAND', pm.path, 'DTWSettings.for_dtw', 'window default', 'window=None must become max(len(s1), len(s2)) (no band)', f.line)
    calls = [c for s, c in calls_in(f.body) if fmt(c[1]) == 'settings.set_max_dist']
    ctx.check(len(calls) == 1 and fmt(calls[0]) == 'settings.set_max_dist(s1, s2)', 'R-FWD', pm.path, 'DTWSettings.for_dtw', 'pruning bound installed',
              'for_dtw must install the Euclidean pruning bound with set_max_dist(s1, s2)', f.line)
    pm, g = _func(m, 'dtaidistance.dtw', 'DTWSettings.split_psi')
    # decided on the symbolic result, whatever the shape of the code: for an int psi the four returned values are psi itself, for a 4-sequence they
    # are its elements 0..3 in the order (begin series 1, end series 1, begin series 2, end series 2)
    from ..symexec import Exec, Env
    ex = Exec()
    ex.run(g.body, Env())
    PSI = ('attr', ('var', 'self'), 'psi')

    def truth(c, case):
        if c[0] == 'bin' and c[1] in ('isnot', 'notin', '!='):
            pos = truth(('bin', {'isnot': 'is', 'notin': 'in', '!=': '=='}[c[1]], c[2], c[3]), case)
            return None if pos is None else (not pos)
        t = fmt(c).replace('(', '').replace(')', '').replace('[', '').replace(']', '')
        if t.startswith('type') and t.endswith('is int'):
            return case == 'int'
        if t.startswith('type') and ' in ' in t and 'tuple' in t:
            return case == 'seq'
        if t.startswith('isinstance') and 'int' in t and 'tuple' not in t:
            return case == 'int'
        if t.startswith('isinstance') and 'tuple' in t:
            return case == 'seq'
        return None

    def simp(e, case):
        if isinstance(e, tuple) and e and e[0] == 'cond':
            tv = truth(e[1], case)
            if tv is True:
                return simp(e[2], case)
            if tv is False:
                return simp(e[3], case)
        if isinstance(e, tuple):
            return tuple(simp(x, case) if isinstance(x, tuple) else x for x in e)
        return e

    def result(case):
        outs = []
        for path, val, st in ex.returns:
            feasible = True
            for c in path:
                neg = False
                cc = c
                while cc[0] == 'un' and cc[1] == 'not':
                    cc, neg = cc[2], not neg
                tv = truth(cc, case)
                if tv is not None and (tv != (not neg)):
                    feasible = False
            if feasible and val is not None:
                outs.append(simp(val, case))
        return outs
    r_int, r_seq = result('int'), result('seq')
    ok1 = len(r_int) == 1 and r_int[0] == ('tuple', (PSI, PSI, PSI, PSI))
    ok2 = len(r_seq) == 1 and r_seq[0] == ('tuple', tuple(('idx', PSI, ('num', k)) for k in range(4)))
    ctx.check(ok1 and ok2, 'R-PSI', pm.path, 'DTWSettings.split_psi', 'psi tuple order',
              'a psi 4-tuple is (begin series1, end series1, begin series2, end series2) and an integer applies to all four; symbolic results: int -> %s, sequence -> %s'
              % ([fmt(x)[:80] for x in r_int], [fmt(x)[:120] for x in r_seq]), g.line)
    pm, init = _func(m, 'dtaidistance.dtw', 'DTWSettings.__init__')
    trip = [s for s in init.body if s.k == 'assign' and s.target[0] == 'tuple' and (dotted(s.value[1]) or '').endswith('inner_dist_fns') if s.value[0] == 'call']
    iv = trip[0].target[1][2] if trip and len(trip[0].target[1]) == 3 else None
    for attr, src in (('adj_max_step', 'max_step'), ('adj_max_dist', 'max_dist'), ('adj_penalty', 'penalty')):
        st = [s for s in walk_stmts(init.body) if s.k == 'assign' and s.target == ('attr', ('var', 'self'), attr)]
        conv = [s for s in st if s.value[0] == 'call' and s.value[1] == iv and s.value[2] == (('attr', ('var', 'self'), src),)]
        off = [s for s in st if s.value in (('num', float('inf')), ('num', 0), ('var', 'inf'))]
        ctx.check(iv is not None and len(conv) == 1 and len(off) == 1 and len(st) == 2, 'R-DOM', pm.path, 'DTWSettings.__init__', '%s conversion' % attr,
                  '%s must be inner_val(%s) (position 2 of the inner-distance triple) or the neutral value when the option is off' % (attr, src), init.line)


def rule_adj_stores(ctx, m):
    """Every store to an internal-domain attribute (adj_max_dist, adj_max_step, adj_penalty) of dtw.DTWSettings, in any method, is either a
    neutral constant or a value converted with the third member of the inner-distance triple (inner_val): the kernels compare these attributes
    with accumulated internal-domain costs."""
    mod = m.py('dtaidistance.dtw')
    n = 0
    for q, f in sorted(mod.funcs.items()):
        if f.cls != 'DTWSettings':
            continue
        ivs = set()
        for s in walk_stmts(f.body):
            if s.k == 'assign' and s.target[0] == 'tuple' and s.value[0] == 'call' and (dotted(s.value[1]) or '').endswith('inner_dist_fns') and len(s.target[1]) == 3:
                ivs.add(s.target[1][2])
        for s in walk_stmts(f.body):
            if s.k == 'assign' and s.target[0] == 'attr' and s.target[1] == ('var', 'self') and s.target[2].startswith('adj_') and s.target[2] != 'adj_max_length_diff':
                n += 1
                v = s.value
                ok = v in (('num', float('inf')), ('num', 0), ('var', 'inf'), ('none',)) or (v[0] == 'call' and v[1] in ivs)
                ctx.check(ok, 'R-DOM', mod.path, q, 'store self.%s' % s.target[2],
                          'self.%s is compared with accumulated costs of the internal domain, but is set to %s, which is not converted with inner_val '
                          '(position 2 of inner_dist_fns): for the squared inner distance the threshold is too small / too large by a square' % (s.target[2], fmt(v)[:100]), s.line)
    ctx.count('stores to adj_* attributes', n)


def rule_inner_dist_table(ctx, m):
    """Encoder/decoder agreement for the inner distance: Python name -> class kind; to_c name -> int; pyx name/int -> int;
    C dispatch int -> kernel kind."""
    pm, f = _func(m, 'dtaidistance.innerdistance', 'to_c')
    enc = {}
    cur = f.body[0] if f.body else None
    while cur is not None and cur.k == 'if':
        c = cur.cond
        if c[0] == 'bin' and c[1] == '==' and c[3][0] == 'str' and cur.then and cur.then[0].k == 'return' and cur.then[0].value[0] == 'num':
            enc[c[3][1]] = cur.then[0].value[1]
        cur = cur.els[0] if len(cur.els) == 1 else None
    ctx.check(enc == {'squared euclidean': 0, 'euclidean': 1}, 'R-TAB', pm.path, 'to_c', 'inner_dist encoding', "to_c must encode 'squared euclidean' -> 0 and 'euclidean' -> 1; found %s" % enc, f.line)
    # pyx decoder
    pyx = m.pyx('dtw_cc')
    init = pyx.funcs.get('DTWSettings.__init__')
    dec = {}
    for s in walk_stmts(init.body):
        if s.k == 'if' and s.cond[0] == 'bin' and s.cond[1] == 'or':
            vals = [x[3][1] for x in (s.cond[2], s.cond[3]) if x[0] == 'bin' and x[1] == '==' and x[3][0] in ('str', 'num') and "kwargs['inner_dist']" in fmt(x[2])]
            st = [t for t in s.then if t.k == 'assign' and fmt(t.target) == 'self._settings.inner_dist']
            if len(vals) == 2 and st:
                for v in vals:
                    dec[v] = st[0].value[1]
    ctx.check(dec == {'squared euclidean': 0, 0: 0, 'euclidean': 1, 1: 1}, 'R-TAB', pyx.path, 'DTWSettings.__init__', 'inner_dist decoding',
              'the Cython settings must map both the name and the integer of each inner distance to the same integer; found %s' % dec, init.line)
    # Python classes by kind
    pm, cls = _func(m, 'dtaidistance.innerdistance', 'inner_dist_cls')
    table = {}
    cur = cls.body[0]
    while cur is not None and cur.k == 'if':
        c = cur.cond
        if c[0] == 'bin' and c[1] == '==' and c[3][0] == 'str':
            inner = cur.then[0] if cur.then and cur.then[0].k == 'if' else None
            if inner is not None and fmt(inner.cond) == 'use_ndim':
                table[(c[3][1], True)] = inner.then[0].value[1]
                table[(c[3][1], False)] = inner.els[0].value[1]
        cur = cur.els[0] if len(cur.els) == 1 else None
    kinds = {}
    for key, cname in table.items():
        g = pm.funcs.get('%s.inner_dist' % cname)
        r = pm.funcs.get('%s.result' % cname)
        v = pm.funcs.get('%s.inner_val' % cname)
        if g is None or r is None or v is None:
            kinds[key] = None
            continue
        gd = ' '.join(fmt(s.value) for s in g.body if s.k == 'return')
        rd = ' '.join(fmt(s.value) for s in walk_stmts(r.body) if s.k == 'return')
        vd = ' '.join(fmt(s.value) for s in v.body if s.k == 'return')
        sq = ('** 2' in gd and 'sqrt' not in gd and 'abs' not in gd)
        eu = ('abs(' in gd or 'sqrt' in gd)
        kind = 'squared' if sq and 'sqrt' in rd and vd in ('(x * x)', '(x ** 2)') else ('euclidean' if eu and rd == 'x' and vd == 'x' else None)
        vec = ('np.sum' in gd)
        kinds[key] = (kind, vec)
    want = {('squared euclidean', False): ('squared', False), ('squared euclidean', True): ('squared', True),
            ('euclidean', False): ('euclidean', False), ('euclidean', True): ('euclidean', True)}
    ctx.check(kinds == want, 'R-TAB', pm.path, 'inner_dist_cls', 'inner distance classes',
              'each (name, use_ndim) must select a class whose point distance / result / inner_val triple is consistent: squared -> ((x-y)^2, sqrt, x*x), '
              'euclidean -> (|x-y|, identity, identity), n-D variants summing over the vector; found %s' % kinds, cls.line)
    pm, fns = _func(m, 'dtaidistance.innerdistance', 'inner_dist_fns')
    ret = [s for s in fns.body if s.k == 'return']
    ok = bool(ret) and fmt(ret[-1].value) == '(use_cls.inner_dist, use_cls.result, use_cls.inner_val)'
    ctx.check(ok, 'R-TAB', pm.path, 'inner_dist_fns', 'triple order', 'the triple is (point distance, result, inner_val) by position', fns.line)
    # every in-package lookup of the table selects the entry with the caller's inner distance (the default is 'squared euclidean':
    # a lookup that omits the argument pairs the caller's point distance with the squared transform of penalty / max_step / max_dist)
    from ..pyfront import PY_MODULES
    from ..pyres import bind_args
    nlook = 0
    for mname in PY_MODULES:
        mod = m.py(mname)
        for q, f in sorted(mod.funcs.items()):
            for st, call in calls_in(f.body):
                d = dotted(call[1]) or ''
                last = d.split('.')[-1]
                if last not in ('inner_dist_fns', 'inner_dist_cls'):
                    continue
                target = pm.funcs.get(last)
                if target is None or any(k is None for k, _ in call[3]) or any(a[0] == 'star' for a in call[2]):
                    continue
                mapping, _, _ = bind_args(target, False, call)
                nlook += 1
                a = mapping.get('inner_dist')
                if a is not None and a[0] == 'var':
                    defs = [t.value for t in walk_stmts(f.body) if t.k == 'assign' and t.target == a]
                    if len(defs) == 1:
                        a = defs[0]         # a local holding the inner distance
                ok = a is not None and 'inner_dist' in fmt(a)
                ctx.check(ok, 'R-TAB', mod.path, q, 'lookup %s selects by inner_dist' % last,
                          'the inner-distance table is consulted with %s instead of the inner distance in effect: point distance and settings transform can '
                          'come from different table entries' % ('the default entry' if a is None else fmt(a)[:60]), st.line)
    ctx.count('inner-distance lookups', nlook)
    # C: kernel kind per dispatch target
    from .kern import kernel_kind
    ctx.count('inner-distance table entries', len(enc) + len(dec) + len(kinds))


def ckwargs_entries(f):
    """(key, value with the locals of c_kwargs resolved, line) for every entry of the dictionary c_kwargs returns"""
    from ..symexec import Exec, Env
    ex = Exec()
    ex.run(f.body, Env())
    out = []
    for path, val, st in ex.returns:
        if val is not None and val[0] == 'dict':
            for k, v in val[1]:
                if k is not None and k[0] == 'str':
                    out.append((k[1], v, st.line))
    return out


def _leaf_when(e, truth):
    """Leaf of a tree of conditional expressions with the tests decided by truth(atom) -> True / False / None (three-valued and/or/not)."""
    def ev(c):
        t = truth(c)
        if t is not None:
            return t
        if c[0] == 'un' and c[1] == 'not':
            v = ev(c[2])
            return None if v is None else (not v)
        if c[0] == 'bin' and c[1] in ('and', 'or'):
            a, b = ev(c[2]), ev(c[3])
            if c[1] == 'or':
                if a is True or b is True:
                    return True
                return False if (a is False and b is False) else None
            if a is False or b is False:
                return False
            return True if (a is True and b is True) else None
        return None
    while e is not None and e[0] == 'cond':
        v = ev(e[1])
        if v is None:
            return None
        e = e[2] if v else e[3]
    return e


def rule_none_zero_encoding(ctx, m):
    """'option off' is None in Python and 0 in C: every producer maps None -> 0 and the C kernels treat 0 as off."""
    pm, f = _func(m, 'dtaidistance.dtw', 'DTWSettings.c_kwargs')
    # decided on the returned dictionary with the locals resolved: an entry that depends on `self.K is None` must be 0 when K is None
    for key, val, line in ckwargs_entries(f):
        nones = {x[2] for x in walk_expr(val) if x[0] == 'bin' and x[1] in ('is', 'isnot') and x[3] == ('none',) and x[2][0] == 'attr' and x[2][1] == ('var', 'self')}
        for at in sorted(nones, key=repr):
            leaf = _leaf_when(val, lambda c, at=at: True if c == ('bin', 'is', at, ('none',)) else (False if c == ('bin', 'isnot', at, ('none',)) else None))
            ctx.check(leaf == ('num', 0), 'R-TAB', pm.path, 'DTWSettings.c_kwargs', 'None -> 0 for %s' % key, 'an unset option must be encoded as 0 for the C engine; found %s' % (fmt(leaf) if leaf is not None else 'an undecided value'), line)
    pm, g = _func(m, 'dtaidistance.dtw', 'distance_matrix')
    ok = False
    for s in walk_stmts(g.body):
        if s.k == 'foreach' and fmt(s.iter) == 'dist_opts.items()':
            for t in walk_stmts(s.body):
                if t.k == 'assign' and fmt(t.target) == 'dist_opts[k]' and t.value == ('num', 0):
                    ok = True
    ctx.check(ok, 'R-TAB', pm.path, 'distance_matrix', 'None -> 0 for the C matrix routines', 'options that are None must be passed as 0 to the C distance-matrix routines', g.line)
    pm, h = _func(m, 'dtaidistance.dtw', 'warping_path_args_to_c')
    get = pm.funcs.get('warping_path_args_to_c.<locals>.get')
    ok = get is not None and any(s.k == 'if' and fmt(s.cond) == '(value is None)' and s.then and s.then[0].k == 'return' and s.then[0].value == ('num', 0) for s in get.body)
    ctx.check(ok, 'R-TAB', pm.path, 'warping_path_args_to_c', 'None -> 0', 'missing options must be encoded as 0', h.line)
    # pyx: key -> field
    pyx = m.pyx('dtw_cc')
    init = pyx.funcs.get('DTWSettings.__init__')
    n = 0
    psi_fields = ['psi_1b', 'psi_1e', 'psi_2b', 'psi_2e']
    for s in init.body:
        if s.k == 'if' and s.cond[0] == 'bin' and s.cond[1] == 'in' and s.cond[2][0] == 'str':
            key = s.cond[2][1]
            for t in walk_stmts(s.then):
                if t.k == 'assign' and t.target[0] == 'attr' and fmt(t.target[1]) == 'self._settings':
                    fld = t.target[2]
                    n += 1
                    v = t.value
                    if key == 'psi':
                        ok = fld in psi_fields
                        if v[0] == 'idx' and v[2][0] == 'num' and fmt(v[1]) == "kwargs['psi']":
                            ok = ok and psi_fields[v[2][1]] == fld
                        elif v[0] == 'idx':
                            ok = ok and fmt(v) == "kwargs['psi']"
                        else:
                            ok = ok and v == ('num', 0)
                    elif key == 'inner_dist':
                        ok = fld == 'inner_dist'
                    else:
                        ok = fld == key and (fmt(v) == "kwargs['%s']" % key or v in (('num', 0), ('bool', False)))
                    ctx.check(ok, 'R-TAB', pyx.path, 'DTWSettings.__init__', 'key %s -> field %s = %s' % (key, fld, fmt(v)),
                              "kwargs['%s'] must be stored into the settings field of the same name (psi tuple positions -> psi_1b, psi_1e, psi_2b, psi_2e)" % key, t.line)
    ctx.count('pyx settings stores', n)
    # C side: 0 means off -- decided on the symbolic value each kernel prologue computes, with the option's field set to 0
    from . import kern as _kern
    from .. import kernels as _kernels, sym as _sym
    INFV = ('num', float('inf'))
    for F in _kern.load_kernels(m):
        if F.lang != 'c':
            continue
        sname = F.amap and sorted(F.amap.settings)[0]
        msgs = []
        nobl = 0
        for fld, extra in (('max_step', ()), ('max_dist', ('use_pruning', 'only_ub'))):
            atom = ('attr', ('var', sname), fld)
            locs = [(k, v) for k, v in F.env0.items() if isinstance(v, tuple) and any(x == atom for x in walk_expr(v))]
            for k, v in locs:
                nobl += 1
                r = _peval(v, {(sname, fld): 0, **{(sname, x): 0 for x in extra}})
                if r != INFV:
                    msgs.append('with settings->%s == 0 the local `%s` becomes %s, not INFINITY' % (fld, k, fmt(r)[:80]))
        # window: with W = 0 the column limits of the band must be those of the unconstrained band (W = max(l1, l2))
        lo_, _prev = _kern._rename_prev(F.lo)
        for what, got, want in (('upper', F.hi, _kern.canon_hi()), ('lower', _sym.subst(lo_, {'SC': _sym.const(0)}), _kern.canon_lo())):
            if any(a.endswith('@prev') for a in _sym.atoms(got)):
                continue
            nobl += 1
            res = _sym.equivalent(_sym.subst(got, {'W': _sym.const(0)}), _sym.subst(want, {'W': _sym.tmax(_sym.var('L1'), _sym.var('L2'))}), _kern.BASE_DOM, box=_kern.BOX)
            if res[0] == 'differ':
                msgs.append('with settings->window == 0 the %s column limit is not that of the unconstrained band (at %s)' % (what, res[1]))
            elif res[0] != 'equal':
                ctx.undecided('R-TAB', '%s window == 0 (%s limit)' % (F.name, what), res[1])
        atom = ('attr', ('var', sname), 'max_length_diff')
        rets = [(p_, v) for p_, v in F.early_returns if v == INFV and any(x == atom for c in p_ for x in walk_expr(c))]
        for p_, v in rets:
            nobl += 1
            conds = [fold_bool(_peval(c, {(sname, 'max_length_diff'): 0})) for c in p_]
            if not any(c == ('bool', False) for c in conds):
                msgs.append('with settings->max_length_diff == 0 the early `return INFINITY` is still reachable')
        if not rets:
            msgs.append('no early return depends on settings->max_length_diff')
        ctx.check(not msgs and nobl >= 5, 'R-TAB', F.file, F.name, '0 means off',
                  'window, max_step, max_dist and max_length_diff equal to 0 must switch the option off: %s' % ('; '.join(msgs) or 'only %d of the 5 option obligations found' % nobl), F.outer_line)
    from .wps import parts_defs
    f = m.cfunc('dtw_wps_parts')
    pdefs, praw = parts_defs(m)
    msgs = []
    for fld in ('max_step', 'max_dist'):
        v = praw.get(fld)
        if v is None:
            raise AnalysisError('anchor vanished: dtw_wps_parts no longer sets parts.%s' % fld)
        r = _peval(v, {('settings', fld): 0})
        if r != INFV:
            msgs.append('with settings->%s == 0 parts.%s becomes %s, not INFINITY' % (fld, fld, fmt(r)[:80]))
    v = praw.get('window')
    if v is None:
        raise AnalysisError('anchor vanished: dtw_wps_parts no longer sets parts.window')
    r = _peval(v, {('settings', 'window'): 0})
    try:
        t = _sym.from_ir(norm_minmax(r), atom=lambda e: {'l1': 'L1', 'l2': 'L2'}.get(e[1]) if e[0] == 'var' else None)
        big = _sym.tmax(_sym.var('L1'), _sym.var('L2'))
        res = _sym.equivalent(t, big, [_sym.sub(_sym.var('L1'), _sym.const(1)), _sym.sub(_sym.var('L2'), _sym.const(1))], box={'L1': range(1, 7), 'L2': range(1, 7)})
    except _sym.Unsupported:
        res = ('unknown', 'not a linear term')
    if res[0] == 'differ':
        msgs.append('with settings->window == 0 parts.window becomes %s, not max(l1, l2) (at %s)' % (fmt(r)[:80], res[1]))
    elif res[0] != 'equal':
        ctx.undecided('R-TAB', 'dtw_wps_parts window == 0', res[1])
    ctx.check(not msgs, 'R-TAB', f.file, 'dtw_wps_parts', '0 means off', 'window, max_step and max_dist equal to 0 must switch the option off: %s' % '; '.join(msgs), f.line)


def rule_matrix_conversion(ctx, m):
    """distances_array_to_matrix / distance_array_index."""
    pm, f = _func(m, 'dtaidistance.dtw', 'distances_array_to_matrix')
    txt = [(s.k, fmt(s.target) if s.k == 'assign' else '', fmt(s.value) if s.k in ('assign', 'expr') and s.value is not None else '') for s in walk_stmts(f.body)]
    alloc = any(k == 'assign' and t == 'dists_matrix' and v.startswith('np.full((nb_series, nb_series), inf') for k, t, v in txt)
    idxs = any(k == 'assign' and t == 'idxs' and v == '_distance_matrix_idxs(block, nb_series)' for k, t, v in txt)
    up = any(k == 'assign' and t == 'dists_matrix[idxs]' and v == 'dists' for k, t, v in txt)
    mir = False
    for s in f.body:
        if s.k == 'if' and fmt(s.cond) == 'not (only_triu)':
            a = any(t.k == 'assign' and fmt(t.target) == 'dists_matrix.T[idxs]' and fmt(t.value) == 'dists' for t in s.then)
            b = any(t.k == 'expr' and fmt(t.value) == 'np.fill_diagonal(dists_matrix, 0)' for t in s.then)
            mir = a and b and not s.els
    ctx.check(alloc and idxs and up and mir, 'R-ITER', pm.path, 'distances_array_to_matrix', 'square form',
              'the square form is an inf-filled n x n matrix with M[idxs] = dists and, unless only_triu, M.T[idxs] = dists and a zero diagonal '
              '(alloc=%s idxs=%s upper=%s mirror=%s)' % (alloc, idxs, up, mir), f.line)
    pm, g = _func(m, 'dtaidistance.dtw', 'distance_array_index')
    # symbolic: after the (a, b) swap the loop adds n - r - 1 for r in [0, min(a, b)) and the result adds max(a, b) - min(a, b) - 1
    from ..symexec import Exec, Env, subst_expr, assigned_vars
    from .iterspace import _run_until, _accumulator
    from .. import sym as _sym
    loop = [s for s in g.body if s.k == 'for']
    ok = swap = False
    if len(loop) == 1:
        lp = loop[0]
        pa, pb, pn = g.args[0], g.args[1], g.args[2]
        atom = lambda e: {pa: 'A', pb: 'B', pn: 'N'}.get(e[1], e[1]) if e[0] == 'var' else None
        T = lambda e: _sym.from_ir(norm_minmax(e), atom=atom)
        A, B, N = _sym.var('A'), _sym.var('B'), _sym.var('N')
        ex = Exec()
        env = Env()
        _run_until(ex, g.body, env, lp)
        benv = env.copy()
        for v_ in assigned_vars(lp.body):
            benv[v_] = ('var', v_ + '@in')
        benv[lp.var] = ('var', 'r')
        out = Exec().run(lp.body, benv)
        acc = _accumulator(out, assigned_vars(lp.body))
        dom = [A, B, _sym.sub(_sym.sub(N, A), _sym.const(1)), _sym.sub(_sym.sub(N, B), _sym.const(1))]
        box = {'A': range(0, 6), 'B': range(0, 6), 'N': range(1, 7), 'r': range(0, 6)}
        eq = lambda x, y: _sym.equivalent(x, y, dom, box=box)[0] == 'equal'
        try:
            lo_t, hi_t = T(subst_expr(lp.lo, env)), T(subst_expr(lp.hi, env))
            swap = eq(hi_t, _sym.tmin(A, B)) and eq(lo_t, _sym.const(0))
            if acc is not None:
                inc = _sym.sub(T(out[acc]), _sym.var(acc + '@in'))
                ok = eq(inc, _sym.sub(_sym.sub(N, _sym.var('r')), _sym.const(1))) and env.get(acc) == ('num', 0)
                # the value returned after the loop
                eenv = env.copy()
                eenv[acc] = ('var', acc + '@loop')
                eex = Exec()
                eex.run(g.body[g.body.index(lp) + 1:], eenv)
                rets = [v for p_, v, st_ in eex.returns if v is not None]
                want_tail = _sym.sub(_sym.sub(_sym.tmax(A, B), _sym.tmin(A, B)), _sym.const(1))
                ok = ok and len(rets) == 1 and eq(_sym.sub(T(rets[0]), _sym.var(acc + '@loop')), want_tail)
        except _sym.Unsupported:
            ok = False
    ctx.check(ok and swap, 'R-ITER', pm.path, 'distance_array_index', 'condensed index', 'the condensed index of (a, b), a < b, is sum_{r<a}(n - r - 1) + (b - a - 1)', g.line)


def rule_pyx_siblings(ctx, m):
    """Serial and OpenMP pyx entry points handle the same container kinds and reject unknown ones."""
    for fn in ('distance_matrix', 'distance_matrix_ndim'):
        shapes = {}
        for pyxname in ('dtw_cc', 'dtw_cc_omp'):
            mod = m.pyx(pyxname)
            f = mod.funcs.get(fn)
            if f is None:
                raise AnalysisError('anchor vanished: %s.%s' % (pyxname, fn))
            chain = None
            for s in f.body:
                if s.k == 'if' and fmt(s.cond).startswith('isinstance(cur, DTWSeriesPointers)'):
                    chain = s
            arms = []
            has_else_raise = False
            cur = chain
            while cur is not None:
                arms.append(fmt(cur.cond))
                if len(cur.els) == 1 and cur.els[0].k == 'if':
                    cur = cur.els[0]
                else:
                    has_else_raise = bool(cur.els) and cur.els[-1].k == 'raise'
                    cur = None
            shapes[pyxname] = (arms, has_else_raise)
            if has_else_raise:
                ctx.held('R-DSP', '%s.%s unknown container rejected' % (pyxname, fn))
            else:
                # not reachable through dtw_series_from_data/c_data_compat for the kinds this entry point is given: reported as a note only
                ctx.note('%s.%s: the dispatch over container kinds %s has no final `else: raise` (its sibling has one)' % (pyxname, fn, arms))
        ctx.check(shapes['dtw_cc'][0] == shapes['dtw_cc_omp'][0], 'R-DSP', m.pyx('dtw_cc_omp').path, fn, 'container kinds agree',
                  'serial and OpenMP entry points must handle the same container kinds: %s vs %s' % (shapes['dtw_cc'][0], shapes['dtw_cc_omp'][0]))


def rule_psi_asserts(ctx, m):
    """The C kernels state psi <= series length as an assert; no Python-side validation dominates the C call (assumption)."""
    names = ['dtw_distance', 'dtw_distance_ndim', 'dtw_distance_euclidean', 'dtw_distance_ndim_euclidean']
    for nm in names:
        f = m.cfunc(nm)
        if f is None:
            raise AnalysisError('anchor vanished: %s' % nm)
        asserts = [fmt(s.cond) for s in walk_stmts(f.body) if s.k == 'assert']
        ok = any(all(t in a for t in ('settings.psi_1b <= l1', 'settings.psi_1e <= l1', 'settings.psi_2b <= l2', 'settings.psi_2e <= l2')) for a in asserts)
        ctx.check(ok, 'R-CLAMP', f.file, nm, 'psi precondition assert', 'the kernel must state psi_1* <= l1 and psi_2* <= l2 (the only bound the later index arithmetic relies on)', f.line)
    ctx.assume('psi entries are bounded by the series lengths only through C asserts (compiled out with NDEBUG); no Python-side validation dominates the C call')
