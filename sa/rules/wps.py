"""Compact warping-paths layout (C04/C05/C08/C18): region-wise writer facts, pyx direct-matrix decision, back-tracking
step tables, affinity recurrence, negativize/positivize duality.

Compact layout: row ri of the DP (0-based) lives in buffer row ri+1; inside a row, position q holds column
q + delta(ri).  Every region loop fixes  delta(ri) = min_ci(ri) - wpsi_0(ri)  where wpsi_0 is the value wpsi is reset
to at the top of the row; the two advance in lock-step, so the relation holds for every cell written in the row.
"""
from ..cfront import AnalysisError
from ..ir import fmt, walk_stmts, walk_expr, stmt_exprs, dotted, sub_blocks, orient, aug_rhs
from .. import sym, kernels, symexec
from ..sym import var as V, const as C, add, sub, tmin, tmax, scale
from ..symexec import Exec, Env, subst_expr, norm_minmax, assigned_vars, reads_of
from . import kern
from ..canon import same, canon_expr
from ..model import calls_in
from .iterspace import paths_increments, _run_until as iterspace_run_until

INF = float('inf')


# ------------------------------------------------------------------------------------------ dtw_wps_parts
def parts_defs(m):
    """Field definitions of DTWWps as terms over L1, L2, W (window as given; 0 = off)."""
    f = m.cfunc('dtw_wps_parts')
    if f is None:
        raise AnalysisError('anchor vanished: dtw_wps_parts')
    symexec.STRUCTS.clear()
    symexec.STRUCTS.add('parts')
    symexec.ARRAYS.clear()
    ex = Exec()
    env = Env()
    ex.run(f.body, env)
    symexec.STRUCTS.clear()
    amap = kernels.AtomMap('c', [p[0] for p in f.params][:1] + ['l1', '_', 'l2', 'settings'], ('settings',))

    def am(e):
        if e[0] == 'var' and e[1] == 'l1':
            return 'L1'
        if e[0] == 'var' and e[1] == 'l2':
            return 'L2'
        if e[0] == 'attr' and e[1] == ('var', 'settings'):
            return kernels._SETTINGS_ATOM.get(e[2], 'S_' + e[2])
        if e[0] == 'var':
            return e[1]
        return None
    out = {}
    raw = {}
    for k, v in env.items():
        if k.startswith('parts.'):
            raw[k[6:]] = v
            try:
                out[k[6:]] = sym.from_ir(norm_minmax(v), atom=am)
            except sym.Unsupported:
                pass
    return out, raw


def _leaves(e, path=()):
    """(path conditions, leaf expression) for a tree of conditional expressions; a condition is (expr, polarity)."""
    if e[0] == 'cond':
        yield from _leaves(e[2], path + ((e[1], True),))
        yield from _leaves(e[3], path + ((e[1], False),))
    else:
        yield path, e


def rule_parts_domains(ctx, m):
    """dtw_wps_parts hands the compact writers their thresholds (max_dist, max_step, penalty).  The writers of the squared-distance kind
    (inner_dist == 0) accumulate squared costs, the euclidean kind plain ones: each threshold must be squared on exactly the paths with
    inner_dist == 0 (constants -- option off -- excepted)."""
    pdefs, praw = parts_defs(m)
    f = m.cfunc('dtw_wps_parts')
    for fld in ('max_dist', 'max_step', 'penalty'):
        e = praw.get(fld)
        if e is None:
            raise AnalysisError('anchor vanished: dtw_wps_parts no longer sets parts.%s' % fld)
        bad = []
        nl = 0
        for path, leaf in _leaves(e):
            if leaf[0] == 'num' or (leaf[0] == 'call' and (dotted(leaf[1]) or '') in ('__builtin_inff', '__builtin_huge_valf')):
                continue
            nl += 1
            cls = kern._conv_class(leaf, {fld})
            sq_path = None
            for c, pol in path:
                # a test of the two-valued flag: evaluate it for inner_dist = 0 (squared kind) and 1 (euclidean kind)
                if c[0] == 'bin' and c[1] in ('==', '!=') and c[2] == ('attr', ('var', 'settings'), 'inner_dist') and c[3][0] == 'num' and c[3][1] in (0, 1):
                    true_for_0 = (c[3][1] == 0) == (c[1] == '==')
                    sq_path = true_for_0 if pol else not true_for_0
            if sq_path is None:
                bad.append('`%s` does not depend on inner_dist' % fmt(leaf)[:60])
            elif (cls == 'squared') != sq_path:
                bad.append('for inner_dist %s 0 the value is `%s` (%s)' % ('==' if sq_path else '!=', fmt(leaf)[:60], cls))
        ctx.check(nl >= 2 and not bad, 'R-DOM', f.file, 'dtw_wps_parts', 'domain of parts.%s' % fld,
                  'parts.%s must be pow(settings->%s, 2) exactly when inner_dist == 0 (squared costs) and the plain value otherwise: %s' % (fld, fld, '; '.join(bad) or 'too few paths'), f.line)


class PAtoms:
    """Atom map inside a writer/reader: p.f -> 'P_f', l1 -> L1, l2 -> L2, settings fields."""

    def __init__(self, l1='l1', l2='l2', pvar='p', svar='settings'):
        self.l1, self.l2, self.p, self.s = l1, l2, pvar, svar

    def __call__(self, e):
        if e[0] == 'var':
            if e[1] == self.l1:
                return 'L1'
            if e[1] == self.l2:
                return 'L2'
            return e[1]
        if e[0] == 'attr' and e[1] == ('var', self.p):
            return 'P_' + e[2]
        if e[0] == 'attr' and e[1] == ('var', self.s):
            return kernels._SETTINGS_ATOM.get(e[2], 'S_' + e[2])
        return None


def expand_parts(t, pdefs):
    mp = {}
    for a in sym.atoms(t):
        if a.startswith('P_') and a[2:] in pdefs:
            mp[a] = pdefs[a[2:]]
    return sym.subst(t, mp) if mp else t


# ------------------------------------------------------------------------------------------ writer regions
class Region:
    pass


def _top_assigns(body, var):
    return [s for s in body if s.k == 'assign' and s.target == ('var', var)]


def _is_dp_loop(s):
    """A `for` whose body both stores into wps and reads wps (the DP column loop)."""
    if s.k != 'for':
        return False
    st = any(t.k == 'assign' and t.target[0] == 'idx' and t.target[1] == ('var', 'wps') for t in s.body) or \
        any(t.k == 'assign' and t.target[0] == 'idx' and t.target[1] == ('var', 'wps') for t in walk_stmts(s.body))
    rd = any(reads_of(e, 'wps') for t in walk_stmts(s.body) for e in stmt_exprs(t) if not (t.k == 'assign' and e is t.target))
    return st and rd


def analyse_writer(m, fname):
    """-> list of Region facts + prologue/epilogue info for one compact writer."""
    f = m.cfunc(fname)
    if f is None:
        raise AnalysisError('anchor vanished: C function %s' % fname)
    symexec.STRUCTS.clear()
    symexec.STRUCTS.add('p')
    symexec.ARRAYS.clear()
    symexec.ARRAYS.add('wps')
    amap = PAtoms()
    regions = []
    env = Env()
    pre = Exec()
    body = f.body
    # region loops: top-level `for` over the row variable containing an inner loop with a DP store into wps
    idxs = []
    for i, s in enumerate(body):
        if s.k == 'for':
            if any(_is_dp_loop(t) for t in s.body):
                idxs.append(i)
    if len(idxs) != 4:
        raise AnalysisError('unrecognised shape: %s has %d region loops (expected 4: A, B, C, D)' % (fname, len(idxs)))
    rowvar = body[idxs[0]].var
    pos = 0
    info = {'func': f, 'prologue_events': None}
    names = 'ABCD'
    for k, i in enumerate(idxs):
        ex = Exec(havoc_tag='pre%d' % k)
        env = ex.run(body[pos:i], env)
        if env is None:
            raise AnalysisError('unrecognised shape: %s leaves before region %s' % (fname, names[k]))
        if k == 0:
            info['prologue'] = ex
            info['prologue_env'] = env.copy()
        loop = body[i]
        R = Region()
        R.name = names[k]
        R.loop = loop
        R.fname = fname
        R.file = f.file
        R.entry = env.copy()
        R.lo_e = subst_expr(loop.lo, env)
        R.hi_e = subst_expr(loop.hi, env)
        R.lo = sym.from_ir(norm_minmax(R.lo_e), atom=amap)
        R.hi = sym.from_ir(norm_minmax(R.hi_e), atom=amap)
        # classify row-carried variables
        R.steps = {}
        top = loop.body
        for v in assigned_vars(top) - {loop.var}:
            ta = _top_assigns(top, v)
            alla = [s for s in walk_stmts(top) if s.k == 'assign' and s.target == ('var', v)]
            if len(ta) == 1 and len(alla) == 1 and ta[0].d.get('aug') == '+' and not (set(x[1] for x in walk_expr(aug_rhs(ta[0])) if x[0] == 'var') & assigned_vars(top)):
                R.steps[v] = aug_rhs(ta[0])
        # entry env for one iteration: affine vars at iteration ri: v_in + step*(ri - lo)
        ienv = env.copy()
        ienv[loop.var] = ('var', 'ri')
        for v, st in R.steps.items():
            vin = env.get(v, ('var', v))
            ienv[v] = ('bin', '+', vin, ('bin', '*', st, ('bin', '-', ('var', 'ri'), R.lo_e)))
        # keep the two row bases symbolic (their closed form is checked separately)
        rb = [v for v in R.steps if R.steps[v] == ('attr', ('var', 'p'), 'width')]
        R.rowbase = rb[0] if len(rb) == 1 else None
        copies = [s for s in top if s.k == 'assign' and s.target[0] == 'var' and R.rowbase and s.value == ('var', R.rowbase) and s.d.get('aug') is None]
        R.prevbase = copies[0].target[1] if len(copies) == 1 else None
        if R.rowbase is None or R.prevbase is None:
            raise AnalysisError('unrecognised shape: row bases of region %s in %s' % (R.name, fname))
        ienv[R.rowbase] = ('var', 'RW')
        ienv[R.prevbase] = ('var', 'RWP')
        # invariant: prevbase == rowbase - width at region entry, both updated only by the closing pair
        R.base_inv_entry = (env.get(R.prevbase), env.get(R.rowbase))
        others = assigned_vars(top) - set(R.steps) - {loop.var, R.prevbase}
        for v in others:
            ienv[v] = ('var', v + '@row')
        # locate the main column loop: the inner `for` containing the DP store
        main = None
        for s in top:
            if _is_dp_loop(s):
                main = s
        if main is None or main not in top:
            raise AnalysisError('unrecognised shape: main column loop of region %s in %s' % (R.name, fname))
        R.main = main
        mi = top.index(main)
        colvar = main.var
        R.colvar = colvar
        # pre-loop part of the row body; lock-step skip loops are summarised
        R.skip_loops = []

        def on_loop(s, e, exe):
            if s.k == 'for' and s.var == colvar and s.lo is None:
                # `for (; ci < X; ci++) { ...; wpsi++ }`  lock-step skip
                R.skip_loops.append((s, e.copy(), tuple(exe.path)))
                others_ = assigned_vars(s.body)
                e[colvar] = ('var', colvar + '@skip')
                for w in others_:
                    inc = paths_increments(s.body, w)
                    if inc == {1}:
                        e[w] = ('bin', '+', e.get(w, ('var', w)), ('bin', '-', ('var', colvar + '@skip'), e.get(colvar + '@before', e.get(colvar, ('var', colvar)))))
                    else:
                        e[w] = ('var', w + '@skip')
                return 'handled'
            return None
        rex = Exec(on_loop=on_loop, havoc_tag='row')
        # remember ci before skip
        renv = ienv.copy()
        stmts_pre = top[:mi]
        # we need ci's value before any skip loop: execute statement by statement
        renv = rex.run(stmts_pre, renv)
        if renv is None:
            raise AnalysisError('unrecognised shape: region %s of %s leaves before its column loop' % (R.name, fname))
        R.row_pre = rex
        R.renv = renv.copy()
        # wpsi_0 and min_ci: the values assigned at the top of the row (before the skip)
        w0 = c0 = None
        tmp = ienv.copy()
        Exec().run([s for s in stmts_pre if s.k in ('assign', 'decl')], tmp)
        R.wvar = None
        for s in main.body:
            pass
        # the position variable: the var incremented in lock-step with the column variable in the main loop
        cands = [v for v in assigned_vars(main.body) if paths_increments(main.body, v) == {1} and v != colvar]
        # store subscripts may go through a local holding the position (`cur = base + pos; wps[cur] = ...`): read them with such locals resolved
        ldefs = {}
        for t in main.body:
            if t.k == 'assign' and t.target[0] == 'var' and t.d.get('aug') is None:
                ldefs.setdefault(t.target[1], []).append(t.value)
        ldefs = {k_: v_[0] for k_, v_ in ldefs.items() if len(v_) == 1 and len([1 for t in walk_stmts(main.body) if t.k == 'assign' and t.target == ('var', k_)]) == 1}
        def _tgt(t):
            return subst_expr(t.target, ldefs)
        posvars = [v for v in cands if any(x == ('var', v) for t in walk_stmts(main.body) if t.k == 'assign' and t.target[0] == 'idx' for x in walk_expr(_tgt(t)))]
        R.lockstep = paths_increments(main.body, posvars[0]) if len(posvars) == 1 else None
        if len(posvars) != 1:
            # lock-step broken or position variable not unique: report through the rule
            allpos = [v for v in assigned_vars(main.body) if v not in ldefs and any(x == ('var', v) for t in walk_stmts(main.body) if t.k == 'assign' and t.target[0] == 'idx' for x in walk_expr(_tgt(t)))]
            R.wvar = allpos[0] if allpos else None
            R.lockstep = paths_increments(main.body, R.wvar) if R.wvar else None
        else:
            R.wvar = posvars[0]
        R.w0_e = tmp.get(R.wvar)
        R.c0_e = tmp.get(colvar)
        if R.w0_e is None or R.c0_e is None:
            raise AnalysisError('unrecognised shape: region %s of %s does not reset %s/%s at the top of the row' % (R.name, fname, R.wvar, colvar))
        R.w0 = sym.from_ir(norm_minmax(R.w0_e), atom=amap)
        R.c0 = sym.from_ir(norm_minmax(R.c0_e), atom=amap)
        R.delta = sub(R.c0, R.w0)
        R.hi_col_e = subst_expr(main.hi, renv)
        R.hi_col = sym.from_ir(norm_minmax(R.hi_col_e), atom=amap)
        # column loop body with ci = j, wpsi = w0 + (j - c0)
        cenv = renv.copy()
        cenv[colvar] = ('var', 'j')
        cenv[R.wvar] = ('var', 'Q')        # Q = position of column j in this row
        for v in assigned_vars(main.body) - {colvar, R.wvar}:
            cenv[v] = ('var', v + '@in')
        cex = Exec(havoc_tag='col')
        R.col_env = cex.run(main.body, cenv)
        R.col = cex
        R.cenv_in = cenv
        # post part
        penv = renv.copy()
        for v in assigned_vars(main.body):
            penv[v] = ('var', v + '@out')
        pex = Exec(havoc_tag='post')
        R.penv = pex.run(top[mi + 1:], penv)
        R.row_post = pex
        regions.append(R)
        # summarise the loop effect on env for the next region
        trip = ('bin', '-', R.hi_e, R.lo_e)
        for v in assigned_vars([loop]):
            if v in R.steps:
                env[v] = ('bin', '+', env.get(v, ('var', v)), ('bin', '*', R.steps[v], trip))
            elif v == R.prevbase:
                env[v] = ('bin', '-', env[R.rowbase], ('attr', ('var', 'p'), 'width')) if False else ('var', v + '@after' + R.name)
            else:
                env[v] = ('var', v + '@after' + R.name)
        env[loop.var] = R.hi_e
        pos = i + 1
    eex = Exec(havoc_tag='epi')
    eenv = env.copy()
    eex.run(body[pos:], eenv)
    info['epilogue'] = eex
    info['regions'] = regions
    info['amap'] = amap
    symexec.ARRAYS.clear()
    return info


def _pos_split(idx_e, amap):
    """index expr over RW / RWP / Q -> ('cur'|'prev', offset term relative to Q) or None."""
    try:
        t = sym.from_ir(norm_minmax(idx_e), atom=amap)
    except sym.Unsupported:
        return None
    if t[0] != 'lin':
        return None
    co = dict(t[1])
    row = None
    if co.get('RW') == 1 and 'RWP' not in co:
        row = 'cur'
    elif co.get('RWP') == 1 and 'RW' not in co:
        row = 'prev'
    else:
        return None
    if co.get('Q') != 1:
        return row, None
    rest = sym._lin({a: k for a, k in co.items() if a not in ('RW', 'RWP', 'Q')}, t[2])
    return row, rest



# ------------------------------------------------------------------------------------------ regime enumeration
PARTS_FIELDS = ['window', 'width', 'ldiff', 'ldiffr', 'ldiffc', 'ri1', 'ri2', 'ri3', 'overlap_left_ri', 'overlap_right_ri']
_REGIMES = {}


def regimes(pdefs, window_off):
    """Split the (L1, L2, W) space into cells in which every dtw_wps_parts field is a linear form.
    -> list of (constraints as FM rows, {P_field: linear term}).  window_off: W == 0 encoding."""
    key = (id(pdefs), window_off)
    if key in _REGIMES:
        return _REGIMES[key]
    base = [sub(V('L1'), C(1)), sub(V('L2'), C(1))]
    fields = {}
    for f in PARTS_FIELDS:
        t = pdefs[f]
        if window_off:
            t = sym.subst(t, {'W': C(0)})
        fields[f] = t
    if not window_off:
        base.append(sub(V('W'), C(1)))
    out = []
    sym.BUDGET[0] = 10 ** 9

    def rec(cons, fs, depth):
        if not sym._feasible(cons):
            return
        fs2 = {k: sym._simplify(v, cons) for k, v in fs.items()}
        nonlin = [k for k in PARTS_FIELDS if fs2[k][0] != 'lin']
        if not nonlin:
            out.append((list(cons), {'P_' + k: v for k, v in fs2.items()}))
            return
        if depth > 30:
            raise sym.Unsupported('regime split too deep')
        sp = sym._pick_split(fs2[nonlin[0]], cons)
        if sp is None:
            raise sym.Unsupported('no split for parts field %s' % nonlin[0])
        p_, q_ = sp
        d = sub(q_, p_)
        rec(cons + [sym._ge0(d)], fs2, depth + 1)
        rec(cons + [sym._ge0(add(scale(d, -1), C(-1)))], fs2, depth + 1)
    rec([sym._ge0(b) for b in base], fields, 0)
    _REGIMES[key] = out
    return out


def _eval_parts(pdefs, val):
    v = dict(val)
    for f in PARTS_FIELDS:
        v['P_' + f] = sym.evaluate(pdefs[f], val)
    return v


def decide_equal(pdefs, a, b, guards=(), extra_atoms=('ri',), box=None):
    """Decide a == b for all L1, L2 >= 1, all W >= 0 (0 = window off) and all integer values of extra_atoms satisfying the
    guards (terms that must be >= 0), where a, b, guards may mention the P_* atoms of dtw_wps_parts.
    -> ('equal', n_regimes) | ('differ', witness) | ('unknown', reason)"""
    from itertools import product
    box = box or {'L1': range(1, 7), 'L2': range(1, 7), 'W': range(0, 8), 'ri': range(0, 6), 'j': range(0, 6)}
    extra_atoms = list(extra_atoms)
    need_parts = [f for f in PARTS_FIELDS if ('P_' + f) in (sym.atoms(a) | sym.atoms(b) | set().union(*[sym.atoms(g) for g in guards]) if guards else sym.atoms(a) | sym.atoms(b))]
    import hashlib
    first, nfail, hh = None, 0, hashlib.sha1()
    for l1, l2, w in product(box['L1'], box['L2'], box['W']):
        base = {'L1': l1, 'L2': l2, 'W': w}
        for f in need_parts:
            base['P_' + f] = sym.evaluate(pdefs[f], base)
        for vals in product(*[box[n] for n in extra_atoms]):
            val = dict(base)
            val.update(zip(extra_atoms, vals))
            if any(sym.evaluate(g, val) < 0 for g in guards):
                continue
            va, vb = sym.evaluate(a, val), sym.evaluate(b, val)
            if va != vb:
                if first is None:
                    first = ({k: val[k] for k in ['L1', 'L2', 'W'] + extra_atoms}, va, vb)
                nfail += 1
                hh.update(repr((l1, l2, w, vals, va, vb)).encode())
    if first is not None:
        # the whole box is enumerated: the fingerprint of the failing set identifies *which* inputs fail
        return ('differ', first[0], first[1], first[2], '%d:%s' % (nfail, hh.hexdigest()[:10]))
    n = 0
    try:
        for off in (False, True):
            for cons, lin in regimes(pdefs, off):
                sw = {'W': C(0)} if off else {}
                a2 = sym.subst(sym.subst(a, lin), sw) if sw else sym.subst(a, lin)
                b2 = sym.subst(sym.subst(b, lin), sw) if sw else sym.subst(b, lin)
                cs = list(cons)
                bad = False
                for g in guards:
                    g2 = sym.subst(g, lin)
                    if sw:
                        g2 = sym.subst(g2, sw)
                    if g2[0] != 'lin':
                        g2 = sym._simplify(g2, cs)
                    if g2[0] != 'lin':
                        # non-linear guard: fold it into the compared terms
                        a2 = sym.ite(('<=', C(0), g2), a2, C(0))
                        b2 = sym.ite(('<=', C(0), g2), b2, C(0))
                        continue
                    cs.append(sym._ge0(g2))
                sym.BUDGET[0] = sym.PROOF_BUDGET[0]
                if not sym._prove_equal(a2, b2, cs):
                    return ('unknown', 'differ on a rationally feasible cell of a regime, no integer witness in the box')
                n += 1
    except sym.Unsupported as e:
        return ('unknown', str(e))
    return ('equal', n)


WRITERS = ['dtw_warping_paths_ndim', 'dtw_warping_paths_ndim_euclidean']
AFF_WRITERS = ['dtw_warping_paths_affinity_ndim', 'dtw_warping_paths_affinity_ndim_euclidean']

REGION_DOM = [sub(V('L1'), C(1)), sub(V('L2'), C(1)), V('W'), V('ri'), sub(sub(V('L1'), V('ri')), C(1))]
RBOX = {'L1': range(1, 6), 'L2': range(1, 6), 'W': range(0, 7), 'ri': range(0, 5), 'j': range(0, 5)}


def rule_wps_writers(ctx, m, affinity=False, tier='quick'):
    pdefs, praw = parts_defs(m)
    names = AFF_WRITERS if affinity else WRITERS
    for fname in names:
        if m.cfunc(fname) is None:
            if affinity and fname.endswith('_euclidean'):
                continue
            raise AnalysisError('anchor vanished: C function %s' % fname)
        info = analyse_writer(m, fname)
        f = info['func']
        amap = info['amap']
        regs = info['regions']
        # row ranges contiguous: [0, ri1) [ri1, ri2) [ri2, ri3) [ri3, l1)
        want = [(C(0), V('P_ri1')), (V('P_ri1'), V('P_ri2')), (V('P_ri2'), V('P_ri3')), (V('P_ri3'), V('L1'))]
        for R, (wl, wh) in zip(regs, want):
            ctx.check(R.lo == wl and R.hi == wh, 'R-MAP', R.file, fname, 'region %s rows' % R.name,
                      'region %s must cover rows [%s, %s); found [%s, %s)' % (R.name, sym.show(wl), sym.show(wh), sym.show(R.lo), sym.show(R.hi)), R.loop.line)
        # row bases: initial values 0 / p.width, closing pair in every region, nothing else
        e0 = info['prologue_env']
        rb, pb = regs[0].rowbase, regs[0].prevbase
        ok0 = e0.get(pb) == ('num', 0) and e0.get(rb) == ('attr', ('var', 'p'), 'width')
        okp = True
        for R in regs:
            top = R.loop.body
            okp = okp and R.rowbase == rb and R.prevbase == pb and len(top) >= 2 and top[-1].k == 'assign' and top[-1].target == ('var', rb) and top[-1].d.get('aug') == '+' \
                and top[-2].k == 'assign' and top[-2].target == ('var', pb) and top[-2].value == ('var', rb) \
                and len([s for s in walk_stmts(top) if s.k == 'assign' and s.target in (('var', rb), ('var', pb))]) == 2
        ctx.check(ok0 and okp, 'R-MAP', f.file, fname, 'row bases',
                  'row base bookkeeping must be: prev = 0, cur = width before row 0, and `prev = cur; cur += width` as the last two statements of every row '
                  '(so cur = (ri + 1) * width, prev = ri * width)', f.line)
        for R in regs:
            _region_rules(ctx, R, amap, pdefs, affinity)
        if not affinity:
            # PrunedDTW vs psi-relaxation (same two obligations as for the rolling kernels, kern._prune_vs_psi)
            ecname = getattr(regs[0], 'ecv', None) or 'ec'
            eci = e0.get(ecname)
            okec = eci is not None and any(x == ('attr', ('var', 'settings'), 'psi_2b') for x in walk_expr(eci))
            ctx.check(okec, 'R-PRUNE', f.file, fname, 'initial end column vs psi_2b',
                      'pruning starts with end column %s = %s, but with psi_2b > 0 the first row has free starts up to column psi_2b: if cell (0, 0) exceeds max_dist the row is '
                      'abandoned before those cells are computed, and the pruned result differs from the unpruned one' % (ecname, fmt(eci) if eci is not None else None), f.line,
                      facts={'witness': {'PSI2B': 1}})
            for R in regs[:2]:
                guards = ' '.join(fmt(c) for s_, e_, path in R.skip_loops for c in path)
                okfree = bool(R.skip_loops)
                for s_, e_, path in R.skip_loops:
                    # value of the start column that the skip loop uses, as a term over (ri, psi_1b, carried sc)
                    def atom(x):
                        if x == ('var', 'ri'):
                            return 'ri'
                        if x == ('attr', ('var', 'settings'), 'psi_1b'):
                            return 'PSI1B'
                        if x[0] == 'var' and x[1].startswith('sc'):
                            return 'SC'
                        return None
                    try:
                        t = sym.from_ir(subst_expr(s_.hi, e_), atom=atom)
                        vals = [sym.evaluate(t, {'ri': r_, 'PSI1B': 2, 'SC': 1}) for r_ in (1, 2)]
                    except Exception:  # noqa
                        vals = [None]
                    okfree = okfree and vals == [0, 0]
                ctx.check(okfree, 'R-PRUNE', R.file, fname, 'region %s start column on free-start rows' % R.name,
                          'rows ri < psi_1b may start for free in column 0 (their first position is preset to 0), but the carried start column sc is applied to them '
                          'unconditionally (skip guarded by `%s`): the free start is skipped and the pruned result differs from the unpruned one' % guards[:80], R.loop.line,
                          facts={'witness': {'PSI1B': 2, 'ri': 1, 'sc': 1}})
        # band per region: inside the region's rows the column limits equal the documented band
        for R in regs:
            guards = [sub(V('ri'), R.lo), sub(sub(R.hi, V('ri')), C(1)), sub(sub(V('L1'), V('ri')), C(1))]
            weff = sym.ite(('==', V('W'), C(0)), tmax(V('L1'), V('L2')), V('W'))
            for nm, g, w in (('lower', R.c0, sym.subst(kern.canon_lo('ri'), {'W': weff})), ('upper', R.hi_col, sym.subst(kern.canon_hi('ri'), {'W': weff}))):
                r = decide_equal(pdefs, g, w, guards)
                inst = '%s region %s column %s limit' % (fname, R.name, nm)
                if r[0] == 'equal':
                    ctx.held('R-BAND', inst, 'proved in %d regimes of dtw_wps_parts' % r[1])
                elif r[0] == 'differ':
                    wv = r[1]
                    ctx.violation('R-BAND', R.file, fname, 'region %s column %s limit' % (R.name, nm),
                                  'in region %s the %s column limit of row ri is %s; the band of the documented scheme is %s: at %s they give %s vs %s'
                                  % (R.name, nm, sym.show(g), sym.show(kern.canon_lo('ri') if nm == 'lower' else kern.canon_hi('ri')), kern._fmtw(wv), r[2], r[3]),
                                  R.main.line, facts={'witness': wv, 'failset': r[4]})
                else:
                    ctx.undecided('R-BAND', inst, r[1])
        _continuity(ctx, fname, regs, pdefs)
        ctx.sample({'writer': fname, 'regions': [{'name': R.name, 'rows': [sym.show(R.lo), sym.show(R.hi)], 'min_ci': sym.show(R.c0), 'wpsi_0': sym.show(R.w0),
                                                   'delta': sym.show(R.delta), 'steps': {k: fmt(v) for k, v in R.steps.items()}} for R in regs]})


def _step_of(R, term_e):
    """Per-row increment of an expression over affine row variables (constant term)."""
    # evaluate derivative wrt ri of the term
    t = sym.from_ir(norm_minmax(term_e), atom=PAtoms())
    if t[0] != 'lin':
        return None
    co = dict(t[1])
    k = co.get('ri', 0)
    # products '(step)*(ri-lo)' appear as opaque atoms when step is symbolic; steps here are numeric for column variables
    return k


def _region_rules(ctx, R, amap, pdefs, affinity):
    fname = R.fname
    # lock-step
    ctx.check(R.lockstep == {1}, 'R-PATH', R.file, fname, 'region %s lock-step of %s and %s' % (R.name, R.wvar, R.colvar),
              'in region %s the buffer position `%s` must advance exactly once on every path through the column loop (normal, max_step `continue`); '
              'found increments %s: later cells of the row land in the wrong column' % (R.name, R.wvar, sorted(R.lockstep, key=str) if R.lockstep else None), R.main.line)
    for s, e, path in R.skip_loops:
        inc = paths_increments(s.body, R.wvar)
        st = [t for t in s.body if t.k == 'assign' and t.target[0] == 'idx' and t.target[1] == ('var', 'wps')]
        ok = inc == {1} and len(st) == 1 and st[0].value == ('num', -INF if affinity else INF)
        ctx.check(ok, 'R-PATH', R.file, fname, 'region %s prune-skip loop' % R.name,
                  'the loop skipping pruned columns must store %s and advance `%s` once per skipped column' % ('-inf' if affinity else 'inf', R.wvar), s.line)
    # per-row shift Delta = step(min_ci) - step(wpsi_0)
    a = _num_step(R, R.c0_e)
    b = _num_step(R, R.w0_e)
    if a is None or b is None:
        ctx.undecided('R-MAP', '%s region %s shift' % (fname, R.name), 'non-constant per-row steps')
        return
    Delta = a - b
    R.Delta = Delta
    # DP store(s)
    stores = [e for e in R.col.events if e[0] == 'store' and e[2][1] == ('var', 'wps') and reads_of(e[3], 'wps')]
    if not stores:
        ctx.violation('R-REC', R.file, fname, 'region %s DP store' % R.name, 'no DP store found in region %s' % R.name, R.main.line)
        return
    for st in stores:
        sp = _pos_split(st[2][2], amap)
        ok = sp is not None and sp[0] == 'cur' and sp[1] == C(0)
        ctx.check(ok, 'R-REC', R.file, fname, 'region %s store position' % R.name, 'the cell must be stored at (current row base) + %s; found %s' % (R.wvar, fmt(st[2][2])), st[4].line)
        value = norm_minmax(st[3])
        kind = 'max' if affinity else 'min'
        node = None
        for x in walk_expr(value):
            if x[0] == kind and len(x[1]) >= 3 and sum(1 for y in x[1] if reads_of(y, 'wps')) >= 3:
                node = x
                break
        if node is None:
            ctx.violation('R-REC', R.file, fname, 'region %s DP value' % R.name, 'the DP value is not built from %s(three predecessors): %s' % (kind, fmt(value)[:200]), st[4].line)
            continue
        got = {}
        pens = []
        for arg in node[1]:
            rd = arg
            pen = None
            if arg[0] == 'bin' and arg[1] in ('+', '-'):
                if arg[2][0] == 'idx' and arg[2][1] == ('var', 'wps'):
                    rd, pen = arg[2], (arg[1], arg[3])
                elif arg[3][0] == 'idx' and arg[3][1] == ('var', 'wps') and arg[1] == '+':
                    rd, pen = arg[3], ('+', arg[2])
            if not (rd[0] == 'idx' and rd[1] == ('var', 'wps')):
                got[fmt(arg)[:40]] = None
                continue
            sp = _pos_split(rd[2], amap)
            if sp is None or sp[1] is None or not sym.is_const(sp[1]):
                got[fmt(rd)[:40]] = None
                continue
            row, off = sp[0], sp[1][2]
            if row == 'cur':
                key = (0, off)
            else:
                key = (-1, off - Delta)     # position q in the previous row holds column q + delta(ri-1) = (q - Q) + j - Delta
            got[key] = pen
            if pen is not None:
                pens.append(pen)
        want_sign = '-' if affinity else '+'
        shape = {k: (v[0] if v else None) for k, v in got.items()}
        want = {(-1, -1): None, (-1, 0): want_sign, (0, -1): want_sign}
        ctx.check(shape == want, 'R-REC', R.file, fname, 'region %s predecessors' % R.name,
                  'region %s (per-row shift of the layout = %d): after inverting the position map the predecessors {(di, dj): penalty sign} are %s; the recurrence '
                  'requires %s' % (R.name, Delta, sorted(shape.items(), key=str), sorted(want.items())), st[4].line, detail=str(sorted(shape.items(), key=str)))
        if len(pens) == 2:
            ctx.check(pens[0] == pens[1] and pens[0][1] == ('attr', ('var', 'p'), 'penalty'), 'R-REC', R.file, fname, 'region %s penalty' % R.name,
                      'both non-diagonal steps must use p.penalty', st[4].line)
    # max_step guard path: store of +/-inf at the same position, then continue
    conts = [e for e in R.col.events if e[0] == 'continue']
    if not affinity:
        okc = len(conts) == 1
        if okc:
            cpath = conts[0][1]
            c = cpath[-1] if cpath else None
            oc = orient(c, ('attr', ('var', 'p'), 'max_step')) if c is not None else None
            okc = oc is not None and oc[0] == '<'          # p.max_step < d
            infst = [e for e in R.col.events if e[0] == 'store' and e[1] == cpath and e[3] == ('num', INF)]
            okc = okc and len(infst) == 1 and _pos_split(infst[0][2][2], amap) == ('cur', C(0))
        ctx.check(okc, 'R-REC', R.file, fname, 'region %s max_step guard' % R.name,
                  'a point distance above p.max_step must leave infinity in the cell (`d > p.max_step` -> store inf at the cell, advance, continue)', R.main.line)
    # suffix fill: for (i = RW + wpsi; i < RW + width; i++) wps[i] = inf
    okf = False
    for e in R.row_post.events:
        if e[0] == 'loop' and e[2].k == 'for':
            lp = e[2]
            st = [t for t in lp.body if t.k == 'assign' and t.target == ('idx', ('var', 'wps'), ('var', lp.var)) and t.value == ('num', -INF if affinity else INF)]
            lo_e = subst_expr(lp.lo, e[3])
            hi_e = subst_expr(lp.hi, e[3])
            if st and same(lo_e, ('bin', '+', ('var', 'RW'), ('var', R.wvar + '@out'))) and same(hi_e, ('bin', '+', ('var', 'RW'), ('attr', ('var', 'p'), 'width'))):
                okf = True
    ctx.check(okf, 'R-PATH', R.file, fname, 'region %s suffix fill' % R.name,
              'after the column loop the rest of the row [cur + %s, cur + width) must be filled with %s' % (R.wvar, '-inf' if affinity else 'inf'), R.loop.line)
    # prefix fill: positions [0, wpsi_0) of the row
    if R.w0 == C(1):
        # position 0 is the first column: written by the prologue (regions A, B) or explicitly (region C)
        pre0 = [e for e in R.row_pre.events if e[0] == 'store' and e[2] == ('idx', ('var', 'wps'), ('var', 'RW'))]
        first_col_regions = R.name in ('A', 'B')
        okpf = first_col_regions or (len(pre0) == 1 and pre0[0][3] == ('num', -INF if affinity else INF))
        ctx.check(okpf, 'R-PATH', R.file, fname, 'region %s prefix fill' % R.name, 'position 0 of every row in region %s must be set to infinity (it lies left of the band)' % R.name, R.loop.line)
    else:
        okpf = False
        for e in R.row_pre.events:
            if e[0] == 'loop' and e[2].k == 'for':
                lp = e[2]
                st = [t for t in lp.body if t.k == 'assign' and t.target == ('idx', ('var', 'wps'), ('var', lp.var)) and t.value == ('num', -INF if affinity else INF)]
                if st and subst_expr(lp.lo, e[3]) == ('var', 'RW') and norm_minmax(subst_expr(lp.hi, e[3])) == ('bin', '+', ('var', 'RW'), norm_minmax(R.w0_e)):
                    okpf = True
        ctx.check(okpf, 'R-PATH', R.file, fname, 'region %s prefix fill' % R.name, 'positions [0, %s) of every row in region %s must be filled with infinity' % (sym.show(R.w0), R.name), R.loop.line)
    # pruning block (non-affinity)
    if not affinity:
        F = kernels.Facts(name='%s region %s' % (fname, R.name), lang='c', file=R.file)
        F.arr = 'wps'
        F.store = stores[0]
        F.col = R.col
        F.col_env = R.col_env
        F.renv = R.renv
        F.penv = R.penv or {}
        F.inner = R.main
        F.inner_line = R.main.line
        F.outer_line = R.loop.line
        F.lo = V('sc@prev')
        # rule_prune looks for `j >= ec@prev`: map the row-entry names
        _prune_region(ctx, R, F)


def _num_step(R, e):
    """numeric per-row step of the value a row-top assignment gives to the column / position variable."""
    which = R.colvar if e is R.c0_e else R.wvar
    src = [s for s in R.loop.body if s.k == 'assign' and s.target == ('var', which)]
    if src:
        v = src[0].value
        if v[0] == 'num':
            return 0
        if v[0] == 'var':
            st = R.steps.get(v[1])
            if st is None:
                return 0 if v[1] not in assigned_vars(R.loop.body) else None
            return st[1] if st[0] == 'num' else None
    return _num_step_sym(R, e)


def _num_step_sym(R, e):
    t = sym.from_ir(norm_minmax(e), atom=PAtoms())
    # substitute ri -> ri + 1 and subtract
    try:
        t1 = sym.subst(t, {'ri': add(V('ri'), C(1))})
        d = sub(t1, t)
    except sym.Unsupported:
        return None
    # opaque products (k)*(ri - lo) with numeric k are folded by from_ir only when k is numeric
    if sym.is_const(d):
        return d[2]
    return None


def _prune_region(ctx, R, F):
    """PrunedDTW normal form inside a region (keeps on `cell <= max_dist`, i.e. prunes only on `>`)."""
    fname = R.fname
    brk = [e for e in R.col.events if e[0] == 'break']
    if len(brk) != 1:
        ctx.violation('R-PRUNE', R.file, fname, 'region %s prune break' % R.name, 'expected one early break in the column loop, found %d' % len(brk), R.main.line)
        return
    stored = F.store[2]
    path = brk[0][1]
    pc = None
    for c in path:
        k = kern._is_prune(c, stored)
        if k is not None:
            pc = (c, k)
    if pc is None:
        ctx.violation('R-PRUNE', R.file, fname, 'region %s prune condition' % R.name, 'the early break is not guarded by a comparison of the stored cell with p.max_dist', R.main.line)
        return
    c, k = pc
    # strictness: the break path must be `cell > max_dist`
    cc = c
    neg = False
    while cc[0] == 'un' and cc[1] == 'not':
        cc = cc[2]
        neg = not neg
    op = cc[1]
    if cc[3] == stored:
        op = {'<': '>', '<=': '>=', '>': '<', '>=': '<='}[op]
    if neg:
        op = {'<': '>=', '<=': '>', '>': '<=', '>=': '<'}[op]
    thr = cc[3] if cc[2] == stored else cc[2]
    thr_ok = thr == ('attr', ('var', 'p'), 'max_dist') or thr == R.entry.get('p.max_dist')
    ctx.check(op == '>' and thr_ok, 'R-PRUNE', R.file, fname, 'region %s prune comparator' % R.name,
              'a cell may be pruned only when `cell > p.max_dist`; found `cell %s %s`' % (op, fmt(thr)), brk[0][2].line)
    last = path[-1]
    # roles, not names: ec = the carried variable the break compares the column with; ec_next = the variable copied into it after the column loop;
    # sc = the carried bound of the skip loop; smaller_found = the flag guarding the sc update
    ol = orient(last, ('var', 'j'))
    okb = ol is not None and ol[0] == '>=' and ol[2][0] == 'var'
    ctx.check(okb, 'R-PRUNE', R.file, fname, 'region %s prune break guard' % R.name, 'the early break must be guarded by `ci >= ec` (ec carried from the previous row); found %s' % fmt(last)[:100], brk[0][2].line)
    ecv = ol[2][1].split('@')[0] if okb else None
    R.ecv = ecv
    env_out = R.col_env or {}
    j1 = ('bin', '+', ('var', 'j'), ('num', 1))

    def shape(v, on_prune, on_keep):
        if v is None or v[0] != 'cond':
            return False
        kk = kern._is_prune(v[1], stored)
        if kk == 'prune':
            return on_prune(v[2]) and on_keep(v[3])
        if kk == 'keep':
            return on_keep(v[2]) and on_prune(v[3])
        return False
    post = R.penv or {}
    pre = R.renv
    ecnv = None
    if ecv is not None:
        pv = post.get(ecv)
        if pv is not None and pv[0] == 'var' and pv[1].endswith('@out'):
            ecnv = pv[1][:-4]
    ctx.check(ecnv is not None, 'R-PRUNE', R.file, fname, 'region %s ec update' % R.name, '`ec = ec_next` after the column loop is missing', R.loop.line)
    ok = ecnv is not None and shape(env_out.get(ecnv), lambda x: x == ('var', ecnv + '@in'), lambda x: x == j1)
    ctx.check(ok, 'R-PRUNE', R.file, fname, 'region %s ec_next update' % R.name, 'ec_next must become ci + 1 exactly on kept cells', R.main.line)
    # sc: bound of the skip loop
    scv = None
    if len(R.skip_loops) == 1 and R.skip_loops[0][0].hi[0] == 'var':
        scv = R.skip_loops[0][0].hi[1]
    ctx.check(scv is not None, 'R-PRUNE', R.file, fname, 'region %s skip to sc' % R.name,
              'columns below the pruning start column sc must be skipped (filled with inf) before the column loop', R.loop.line)
    sfv = None
    ok = False
    if scv is not None:
        v = env_out.get(scv)
        if v is not None and v[0] == 'cond':
            kk = kern._is_prune(v[1], stored)
            inner_c = v[2] if kk == 'prune' else (v[3] if kk == 'keep' else None)
            other = v[3] if kk == 'prune' else v[2]
            if inner_c is not None and other == ('var', scv + '@in') and inner_c[0] == 'cond' and inner_c[1][0] == 'un' and inner_c[1][1] == 'not' \
                    and inner_c[1][2][0] == 'var' and inner_c[1][2][1].endswith('@in') and inner_c[2] == j1 and inner_c[3] == ('var', scv + '@in'):
                ok = True
                sfv = inner_c[1][2][1][:-3]
    ctx.check(ok, 'R-PRUNE', R.file, fname, 'region %s sc update' % R.name, 'start-column update must be `if pruned and no smaller value seen yet: sc = ci + 1`', R.main.line)
    ok = sfv is not None and shape(env_out.get(sfv), lambda x: x == ('var', sfv + '@in'), kern._truthy)
    ctx.check(ok, 'R-PRUNE', R.file, fname, 'region %s smaller_found update' % R.name, 'smaller_found must become true exactly on kept cells', R.main.line)
    okr = sfv is not None and ecnv is not None and kern._falsy(pre.get(sfv, ('none',))) and pre.get(ecnv) == ('var', 'ri')
    ctx.check(okr, 'R-PRUNE', R.file, fname, 'region %s row reset' % R.name, 'each row must start with smaller_found = false and ec_next = ri', R.loop.line)


def _continuity(ctx, fname, regs, pdefs):
    """The layout shift assumed by the first row of a region matches the last row of the previous non-empty region."""
    prev = [(None, C(-1), C(0), C(-1))]     # pseudo region for the top row: rows [-1, 0), delta = -1
    for R in regs:
        if getattr(R, 'Delta', None) is None:
            continue
        for (pn, plo, phi, pdelta) in prev:
            # previous region non-empty (plo < phi), this one non-empty (lo < hi), nothing in between (phi == lo)
            guards = [sub(sub(phi, plo), C(1)), sub(sub(R.hi, R.lo), C(1)), sub(phi, R.lo), sub(R.lo, phi)]
            d_here = sym.subst(R.delta, {'ri': R.lo})
            d_prev = sym.subst(pdelta, {'ri': sub(R.lo, C(1))})
            r = decide_equal(pdefs, sub(d_here, d_prev), C(R.Delta), guards, extra_atoms=())
            inst = '%s continuity %s -> %s' % (fname, pn or 'top row', R.name)
            if r[0] == 'equal':
                ctx.held('R-MAP', inst, 'proved in %d regimes' % r[1])
            elif r[0] == 'differ':
                wv = r[1]
                ctx.violation('R-MAP', R.file, fname, 'continuity %s -> %s' % (pn or 'top row', R.name),
                              'the first row of region %s reads its predecessors assuming the layout shifts by %d per row, but relative to the last row of %s it '
                              'shifts by %s (at %s): cells of the previous row are read one position off' % (R.name, R.Delta, pn or 'the top row', r[2], kern._fmtw(wv)),
                              R.loop.line, facts={'witness': wv, 'failset': r[4]})
            else:
                ctx.undecided('R-MAP', inst, r[1])
        prev.append((R.name, R.lo, R.hi, R.delta))


# ------------------------------------------------------------------------------------------ pyx direct-matrix decision
def rule_pyx_direct_matrix(ctx, m):
    mod = m.pyx('dtw_cc')
    for fn, writer, expander in (('warping_paths', 'dtw_warping_paths', 'dtw_expand_wps'), ('warping_paths_ndim', 'dtw_warping_paths_ndim', 'dtw_expand_wps'),
                                 ('warping_paths_affinity', 'dtw_warping_paths_affinity', 'dtw_expand_wps_affinity')):
        f = mod.funcs.get(fn)
        if f is None:
            raise AnalysisError('anchor vanished: dtw_cc.%s' % fn)
        # decided on one symbolic pass: the buffer handed to the writer is the caller's matrix exactly when  A: required length == rows*cols  and
        # B: required width == cols ; the expander runs (compact buffer -> caller's matrix) exactly when that is false
        from itertools import product as _product
        mat = ('var', f.args[0].name if hasattr(f.args[0], 'name') else f.args[0])
        shp = lambda k_: ('idx', ('attr', mat, 'shape'), ('num', k_))

        def atom_of(c):
            """('A'|'B', positive?) for an (in)equality between the required size and the matrix size"""
            if not (c[0] == 'bin' and c[1] in ('==', '!=')):
                return None
            for x, y in ((c[2], c[3]), (c[3], c[2])):
                if x[0] == 'call' and (dotted(x[1]) or '').endswith('dtw_settings_wps_length') and y in (('bin', '*', shp(0), shp(1)), ('bin', '*', shp(1), shp(0))):
                    return 'A', c[1] == '=='
                if x[0] == 'call' and (dotted(x[1]) or '').endswith('dtw_settings_wps_width') and y == shp(1):
                    return 'B', c[1] == '=='
            return None

        def ev(c, asg):
            if c[0] == 'bool':
                return c[1]
            if c[0] == 'un' and c[1] == 'not':
                v = ev(c[2], asg)
                return None if v is None else (not v)
            if c[0] == 'bin' and c[1] in ('and', 'or'):
                a_, b_ = ev(c[2], asg), ev(c[3], asg)
                if a_ is None or b_ is None:
                    return None
                return (a_ and b_) if c[1] == 'and' else (a_ or b_)
            at = atom_of(c)
            if at is None:
                return None
            return asg[at[0]] if at[1] else (not asg[at[0]])
        dex = Exec()
        dex.run(f.body, Env())
        wcalls = [(e, x) for e in dex.events for part in e[2:] if isinstance(part, tuple) for x in walk_expr(part)
                  if x[0] == 'call' and (dotted(x[1]) or '') == 'dtaidistancec_dtw.' + writer]
        ecalls = [(e, x) for e in dex.events for part in e[2:] if isinstance(part, tuple) for x in walk_expr(part)
                  if x[0] == 'call' and (dotted(x[1]) or '') == 'dtaidistancec_dtw.' + expander]
        # writer calls may also be the value of an assignment (d = writer(...)): look at the final environment as well
        for v_ in (dex.events and []) or []:
            pass
        okw = oke = okd = False
        detail = ''

        def leaf_under(e, asg):
            while e[0] == 'cond':
                v = ev(e[1], asg)
                if v is None:
                    return None
                e = e[2] if v else e[3]
            return e
        wr_args = None
        wr_stmt = None
        for s_ in walk_stmts(f.body):
            for e_ in stmt_exprs(s_):
                for x in walk_expr(e_):
                    if x[0] == 'call' and (dotted(x[1]) or '') == 'dtaidistancec_dtw.' + writer:
                        wr_args = x[2]
                        wr_stmt = s_
        # resolve the writer's buffer through the locals (view = wps; wps = matrix or compact buffer): the environment just before the call
        fenv = Env()
        if wr_stmt is not None:
            iterspace_run_until(Exec(), f.body, fenv, wr_stmt)
        if wr_args:
            buf = wr_args[0]
            base = buf[2][1] if buf[0] == 'un' and buf[1] == 'addr' and buf[2][0] == 'idx' else None
            seen_ = set()
            while base is not None and base[0] == 'var' and base[1] in fenv and base[1] not in seen_ and base != mat:
                seen_.add(base[1])
                base = fenv[base[1]]           # the view / local the buffer is reached through
            if base is not None:
                okw = True
                okd = True
                for a_, b_ in _product((True, False), repeat=2):
                    lf = leaf_under(base, {'A': a_, 'B': b_})
                    if lf is None or (lf == mat) != (a_ and b_):
                        okd = False
                        detail = 'with length-match=%s, width-match=%s the writer fills %s' % (a_, b_, fmt(lf)[:40] if lf is not None else '?')
        if len(ecalls) == 1:
            ev_, call_ = ecalls[0]
            oke = True
            for a_, b_ in _product((True, False), repeat=2):
                # conditions that do not mention the two size tests (argument checks made earlier) do not decide
                rel = [c_ for c_ in ev_[1] if any(atom_of(x) is not None for x in walk_expr(c_))]
                conds = [ev(c_, {'A': a_, 'B': b_}) for c_ in rel]
                taken = all(v is True for v in conds) if all(v is not None for v in conds) else None
                if taken is None or taken != (not (a_ and b_)):
                    oke = False
                    detail = detail or 'with length-match=%s, width-match=%s the expander is %s' % (a_, b_, 'called' if taken else 'not called')
            # expands the buffer the writer filled into the caller's matrix
            dst = call_[2][1] if len(call_[2]) > 1 else None
            oke = oke and dst is not None and dst[0] == 'un' and dst[1] == 'addr' and dst[2][0] == 'idx' and dst[2][1] == mat and wr_args is not None and call_[2][0] == subst_expr(wr_args[0], {}) 
        ctx.check(okw and oke and okd, 'R-MAP', mod.path, fn, 'direct-matrix decision',
                  'the caller\'s matrix may serve as the compact buffer only when required length == rows*cols and required width == cols; otherwise a compact '
                  'buffer is filled and expanded with %s exactly when that test is false (writer=%s expand=%s direct=%s) %s' % (expander, okw, oke, okd, detail), f.line)
        calls = [c for s in walk_stmts(f.body) for e in stmt_exprs(s) for c in walk_expr(e) if c[0] == 'call' and (dotted(c[1]) or '') == 'dtaidistancec_dtw.' + writer]
        ok = len(calls) == 1 and fmt(calls[0][2][0]) == '&(wps_view[(0, 0)])'
        ctx.check(ok, 'R-MAP', mod.path, fn, 'writer call', 'the writer must fill the chosen buffer (wps_view)', f.line)


# ------------------------------------------------------------------------------------------ back-tracking (Python)
def rule_best_path_py(ctx, m):
    pm = m.py('dtaidistance.dtw')
    f = pm.funcs.get('best_path')
    if f is None:
        raise AnalysisError('anchor vanished: dtw.best_path')
    loop = [s for s in f.body if s.k == 'while']
    if len(loop) != 1:
        raise AnalysisError('unrecognised shape: dtw.best_path loop')
    loop = loop[0]
    # roles: (i, j) from the loop guard `i > 0 and j > 0`; the selection variable and selector from `<c> = <argm>([3 candidates])`; the matrix is the first parameter
    lc_ = loop.cond
    gs = [orient(x, ('num', 0)) for x in (lc_[2], lc_[3])] if lc_[0] == 'bin' and lc_[1] == 'and' else [None]
    okg = all(g is not None and g[0] == '<' and g[2][0] == 'var' for g in gs)          # 0 < i and 0 < j
    ctx.check(okg, 'R-REC', pm.path, 'best_path', 'loop guard', 'back-tracking continues while i > 0 and j > 0', loop.line)
    if not okg:
        return
    iv, jv = gs[0][2][1], gs[1][2][1]
    mat = ('var', f.args[0])
    # one symbolic pass over the loop body: the selection `<selector>([three candidates])` with the candidates resolved to matrix reads, and the
    # position after the step as a function of the selected index
    from ..symexec import peval_fields
    bex = Exec()
    benv = bex.run(loop.body, Env())
    if benv is None:
        raise AnalysisError('unrecognised shape: dtw.best_path loop body always leaves')
    selcalls = []
    for v in list(benv.values()) + [c for e in bex.events for c in e[1]]:
        for x in walk_expr(v):
            if x[0] == 'call' and x[1][0] == 'var' and len(x[2]) == 1 and x[2][0][0] == 'list' and len(x[2][0][1]) == 3 and x not in selcalls:
                selcalls.append(x)
    cands = selcalls[0][2][0][1] if len(selcalls) == 1 else None
    selector = selcalls[0][1] if len(selcalls) == 1 else None
    table = {}
    penname = f.args[4] if len(f.args) > 4 else 'penalty'
    if cands is not None and len(cands) == 3:
        for k, cnd in enumerate(cands):
            rd = cnd
            pen = False
            if cnd[0] == 'bin' and cnd[1] == '+':
                rd, pen = cnd[2], cnd[3] == ('var', penname)
            if rd[0] == 'idx' and rd[1] == mat and rd[2][0] == 'tuple':
                off = []
                for comp, base in zip(rd[2][1], (iv, jv)):
                    if comp == ('var', base):
                        off.append(0)
                    elif comp == ('bin', '-', ('var', base), ('num', 1)):
                        off.append(-1)
                    else:
                        off.append(None)
                table[k] = (tuple(off), pen)
    moves = {}
    if len(selcalls) == 1:
        for kk in (0, 1, 2):
            def fix(e, kk=kk):
                # the selected index is kk: decide every comparison of the selection with a number
                def f_(x):
                    if x[0] == 'bin' and x[1] in ('==', '!=') and x[2] == selcalls[0] and x[3][0] == 'num':
                        return ('bool', (x[3][1] == kk) == (x[1] == '=='))
                    return x
                from ..inline import map_expr
                return peval_fields(map_expr(e, f_), {})
            d_ = []
            for nm_ in (iv, jv):
                v = fix(benv.get(nm_, ('var', nm_)))
                d_.append(0 if v == ('var', nm_) else (-1 if v == ('bin', '-', ('var', nm_), ('num', 1)) else None))
            moves[kk] = tuple(d_)
    want_tab = {0: ((-1, -1), False), 1: ((-1, 0), True), 2: ((0, -1), True)}
    okt = table == want_tab and moves == {k: v[0] for k, v in want_tab.items()}
    ctx.check(okt, 'R-REC', pm.path, 'best_path', 'step table',
              'candidate k of the argmin must be (diagonal, up + penalty, left + penalty) and choosing k must move to that same predecessor; candidates %s, moves %s'
              % (sorted(table.items()), sorted(moves.items(), key=str)), loop.line)
    skips = [s for s in walk_stmts(f.body) if s.k == 'if' and s.cond == ('bin', '!=', ('idx', mat, ('tuple', (('var', iv), ('var', jv)))), ('num', -1))]
    ctx.check(len(skips) == 2, 'R-REC', pm.path, 'best_path', 'relaxed cells skipped', 'cells marked -1 (psi relaxation) must not be appended to the path', f.line)
    # the selector is argmax exactly when use_max is set
    pex = Exec()
    penv = Env()
    iterspace_run_until(pex, f.body, penv, loop)
    selv = penv.get(selector[1]) if selector is not None and selector[0] == 'var' else None
    flag = f.args[3] if len(f.args) > 3 else 'use_max'
    ok = selv is not None and peval_fields(subst_expr(selv, {flag: ('bool', True)}), {}) == ('var', 'argmax') and \
        peval_fields(subst_expr(selv, {flag: ('bool', False)}), {}) == ('var', 'argmin')
    ctx.check(ok, 'R-REC', pm.path, 'best_path', 'extremum selection', 'argmin for distances, argmax only when use_max is requested', f.line)
    # best_path2: the three guarded moves
    g = pm.funcs.get('best_path2')
    if g is not None:
        lp = [s for s in g.body if s.k == 'while']
        okg = False
        if lp and lp[0].cond[0] == 'bin' and lp[0].cond[1] == 'and':
            g2 = [orient(x, ('num', 0)) for x in (lp[0].cond[2], lp[0].cond[3])]
            if all(g_ is not None and g_[0] == '<' and g_[2][0] == 'var' for g_ in g2):
                rv, cv_ = g2[0][2], g2[1][2]
                m1 = lambda v: ('bin', '-', v, ('num', 1))
                byarr = {}
                for s in walk_stmts(lp[0].body):
                    if s.k == 'if':
                        for x in walk_expr(s.cond):
                            if x[0] == 'idx' and x[1][0] == 'var':
                                byarr.setdefault(x[1], set()).add(x[2])
                okg = any(rd == {('tuple', (m1(rv), m1(cv_))), ('tuple', (m1(rv), cv_)), ('tuple', (rv, m1(cv_)))} for rd in byarr.values())
        ctx.check(okg, 'R-REC', pm.path, 'best_path2', 'step table', 'best_path2 must consider exactly the three DTW predecessors while r > 0 and c > 0', g.line)


# ------------------------------------------------------------------------------------------ back-tracking (C)
BP_FUNCS = ['dtw_best_path', 'dtw_best_path_customstart', 'dtw_best_path_isclose', 'dtw_best_path_affinity', 'dtw_best_path_prob']


def rule_best_path_c(ctx, m, tier='quick'):
    """Each back-tracking loop writes at most one path entry per iteration and strictly decreases rip + cip; moves update
    the buffer position consistently with the region's layout shift (diag: -(width + 1 - shift) ...)."""
    for fn in BP_FUNCS:
        f = m.cfunc(fn)
        if f is None:
            raise AnalysisError('anchor vanished: C function %s' % fn)
        loops = [s for s in walk_stmts(f.body) if s.k == 'while']
        ctx.check(len(loops) >= 3, 'R-ALLOC', f.file, fn, 'region loops', 'expected the three back-tracking loops (regions D, C, A-B), found %d' % len(loops), f.line)
        if len(loops) < 3:
            continue
        ro = _bt_roles(f, loops)
        outs = [pn for pn, pt in f.params if pt.replace(' ', '') in ('idx_t*', 'size_t*', 'ssize_t*', 'Py_ssize_t*')][:2]     # the two index arrays
        outs_v = tuple(('var', o) for o in outs)
        for li, lp in enumerate(loops):
            # writes per iteration
            def writes(stmts):
                res = set()

                def walk(ss, n):
                    accs = [n]
                    for s in ss:
                        nxt = []
                        for a in accs:
                            if s.k == 'assign' and s.target[0] == 'idx' and s.target[1] in outs_v:
                                nxt.append(a + 1)
                            elif s.k == 'if':
                                nxt.extend(walk(s.then, a))
                                nxt.extend(walk(s.els, a))
                            elif s.k in ('break', 'continue', 'return'):
                                res.add(a)
                            else:
                                nxt.append(a)
                        accs = nxt
                    return accs
                for a in walk(stmts, 0):
                    res.add(a)
                return res
            w = writes(lp.body)
            ctx.check(max(w) <= 2, 'R-ALLOC', f.file, fn, 'loop %d writes per step' % li,
                      'each back-tracking step may append one (i1, i2) pair; a path writes %s entries in one iteration' % max(w), lp.line)
            # progress: every path through the body decreases rip or cip (or leaves)
            dec = _progress(lp.body, (('var', ro['rip']), ('var', ro['cip'])))
            ctx.check(dec, 'R-ALLOC', f.file, fn, 'loop %d progress' % li,
                      'every iteration must decrease rip and/or cip (otherwise the index arrays of l1 + l2 entries overflow / the loop does not terminate)', lp.line)
        # the index counter
        idxw = [s for s in walk_stmts(f.body) if s.k == 'assign' and s.target[0] == 'idx' and outs_v and s.target[1] == outs_v[0]]
        cvar = idxw[0].target[2] if idxw else None
        cnt = [s for s in walk_stmts(f.body) if s.k == 'assign' and s.target == cvar and s.d.get('aug') == '+']
        ok = bool(idxw) and cvar is not None and cvar[0] == 'var' and all(s.target[2] == cvar for s in idxw) and len(cnt) >= len(idxw) - 1
        ctx.check(ok, 'R-ALLOC', f.file, fn, 'path counter', 'path entries must be written at i1[i], i2[i] with i advanced after each pair', f.line)
        ctx.sample({'back-tracker': fn, 'loops': len(loops)})


def _progress(body, movers=(('var', 'rip'), ('var', 'cip'))):
    """All fall-through paths decrease the row or the column counter."""
    ok = [True]

    def walk(ss, dec):
        accs = [dec]
        for s in ss:
            nxt = []
            for a in accs:
                if s.k == 'assign' and s.target in movers and s.d.get('aug') == '-':
                    nxt.append(True)
                elif s.k == 'if':
                    nxt.extend(walk(s.then, a))
                    nxt.extend(walk(s.els, a))
                elif s.k in ('break', 'return'):
                    pass
                elif s.k == 'continue':
                    if not a:
                        ok[0] = False
                else:
                    nxt.append(a)
            accs = nxt
        return accs
    for a in walk(body, False):
        if not a:
            ok[0] = False
    return ok[0]


# ------------------------------------------------------------------------------------------ bounds of compact positions
def rule_wps_bounds(ctx, m, tier='quick'):
    """Per region: every cell written in the column loop lies inside its row, 0 <= position < width."""
    pdefs, praw = parts_defs(m)
    for fname in WRITERS + AFF_WRITERS:
        info = analyse_writer(m, fname)
        for R in info['regions']:
            guards = [sub(V('ri'), R.lo), sub(sub(R.hi, V('ri')), C(1)), sub(sub(V('L1'), V('ri')), C(1)), sub(sub(R.hi_col, R.c0), C(1))]
            # cells blanked before the column loop by a lock-step skip loop `for (; ci < X; ci++) { wps[row + pos] = ...; pos++; }` (upper-triangle
            # mode): they occupy positions w0 .. w0 + (X - c0) - 1 of the row and must stay inside it as well
            for sl, senv, spath in R.skip_loops:
                if not any(t.k == 'assign' and t.target[0] == 'idx' for t in walk_stmts(sl.body)):
                    continue
                try:
                    X = sym.from_ir(norm_minmax(subst_expr(sl.hi, senv)), atom=info['amap'])
                except sym.Unsupported:
                    ctx.undecided('R-MAP', '%s region %s skip loop' % (fname, R.name), 'bound %s is not a linear term' % fmt(sl.hi))
                    continue
                free = [a for a in sym.atoms(X) if a not in ('ri', 'L1', 'L2', 'W') and not a.startswith('P_')]
                if free:
                    # a carried start column (PrunedDTW): bounded by the previous row's end column, which this rule does not track
                    ctx.undecided('R-MAP', '%s region %s skip loop' % (fname, R.name), 'bound depends on %s' % sorted(free))
                    continue
                g2 = guards[:3] + [sub(sub(X, R.c0), C(1))]
                last = sub(add(R.w0, sub(X, R.c0)), C(1))
                over = tmax(C(0), add(sub(last, V('P_width')), C(1)))
                r = decide_equal(pdefs, over, C(0), g2)
                inst = '%s region %s blanked prefix stays inside the row' % (fname, R.name)
                if r[0] == 'equal':
                    ctx.held('R-MAP', inst, 'proved in %d regimes' % r[1])
                elif r[0] == 'differ':
                    ctx.violation('R-MAP', R.file, fname, 'region %s blanked prefix bound' % R.name,
                                  'in region %s the loop that blanks the cells left of column %s (line %s) is not limited to the columns of the row: it writes %s position(s) beyond '
                                  'the end of the row (at %s) -- past the end of the matrix on the last rows' % (R.name, fmt(sl.hi), sl.line, r[2], kern._fmtw(r[1])),
                                  sl.line, facts={'witness': r[1], 'failset': r[4]})
                else:
                    ctx.undecided('R-MAP', inst, r[1])
            # positions written: Q(j) = w0 + (j - c0) for j in [c0, hi_col): the last one is w0 + hi_col - c0 - 1
            maxpos = sub(add(R.w0, sub(R.hi_col, R.c0)), C(1))
            over = tmax(C(0), add(sub(maxpos, V('P_width')), C(1)))       # > 0 iff the last position is >= width
            r = decide_equal(pdefs, over, C(0), guards)
            inst = '%s region %s last position < width' % (fname, R.name)
            if r[0] == 'equal':
                ctx.held('R-MAP', inst, 'proved in %d regimes' % r[1])
            elif r[0] == 'differ':
                wv = r[1]
                ctx.violation('R-MAP', R.file, fname, 'region %s position bound' % R.name,
                              'in region %s the last cell of row ri is written %s position(s) beyond the end of its row (at %s)' % (R.name, r[2], kern._fmtw(wv)),
                              R.main.line, facts={'witness': wv, 'failset': r[4]})
            else:
                ctx.undecided('R-MAP', inst, r[1])
            under = tmax(C(0), sub(C(0), R.w0))
            r = decide_equal(pdefs, under, C(0), guards[:3])
            if r[0] == 'equal':
                ctx.held('R-MAP', '%s region %s first position >= 0' % (fname, R.name))
            elif r[0] == 'differ':
                ctx.violation('R-MAP', R.file, fname, 'region %s first position' % R.name, 'the first cell of a row is written at a negative position (at %s)' % kern._fmtw(r[1]), R.main.line)
            else:
                ctx.undecided('R-MAP', '%s region %s first position >= 0' % (fname, R.name), r[1])
        ctx.count('compact writers bounded', 1)


# ------------------------------------------------------------------------------------------ affinity
def rule_affinity(ctx, m, tier='quick'):
    """Python warping_paths_affinity and the C region expansions carry the same recurrence."""
    from . import kern2d
    pm = m.py('dtaidistance.dtw')
    for triu in (False, True):
        F = kern2d.load(m, 'dtaidistance.dtw', 'warping_paths_affinity', consts={'only_triu': ('bool', triu), 'use_c': ('bool', False)})
        amap = F.amap
        if not triu:
            kern.rule_band(ctx, F)
        else:
            lo = F.lo
            want = sym.tmax(kern.canon_lo(), V('i'))
            kern._equiv_cases(ctx, 'R-BAND', F.file, F.name, 'band lower limit (only_triu)', lo, want, 'py', 'band lower limit only_triu', F.inner_line)
        if triu:
            continue
        # a store whose value is selected by a conditional expression on tau (the arm held in a local) counts as one store per arm
        F.stores = [st2 for st in F.stores for st2 in _split_on(st, 'tau')]
        ctx.check(len(F.stores) == 2, 'R-REC', F.file, F.name, 'two arms', 'the affinity recurrence has a below-tau and an above-tau arm', F.inner_line)
        arms = {}
        for st in F.stores:
            p, node, value = kern2d.preds(F, st, amap, kind='max')
            path = kern._conj(st[1])
            below = any(c[0] == 'bin' and c[1] in ('<', '<=') and c[3] == ('var', 'tau') for c in path)
            above = any(c[0] == 'un' and c[1] == 'not' and c[2][0] == 'bin' and c[2][1] in ('<', '<=') and c[2][3] == ('var', 'tau') for c in path)
            strict = not any((c[0] == 'bin' and c[1] == '<=' and c[3] == ('var', 'tau')) or (c[0] == 'un' and c[1] == 'not' and c[2][0] == 'bin' and c[2][1] == '<=' and c[2][3] == ('var', 'tau'))
                             for c in path)
            ctx.check((below or above) and strict, 'R-REC', F.file, F.name, 'affinity threshold comparator (%s)' % ('below' if below else 'above'),
                      'a point affinity takes the delta arm only when it is strictly below tau (`d < tau`; an affinity equal to tau is kept, as in the C engine); found path %s'
                      % [fmt(c)[:40] for c in path if 'tau' in fmt(c)], st[4].line)
            ok = False
            if p is None:
                ctx.violation('R-REC', F.file, F.name, 'affinity value', 'the affinity value is not built from max(three predecessors): %s' % fmt(value)[:200], st[4].line)
                continue
            shape = {k: [(s_, fmt(t)[-20:]) for s_, t in v] for k, v in p.items()}
            okp = set(p) == {(-1, -1), (-1, 0), (0, -1)} and p[(-1, -1)] == [] and all(len(p[k]) == 1 and p[k][0][0] == -1 and amap(p[k][0][1]) == 'PEN' for k in ((-1, 0), (0, -1)))
            ctx.check(okp, 'R-REC', F.file, F.name, 'affinity predecessors (%s tau)' % ('below' if below else 'above'),
                      'the best predecessor is max(diagonal, up - penalty, left - penalty); found %s' % sorted(shape.items()), st[4].line)
            # outer shape: max(0, delta + delta_factor * prev)  /  max(0, d + prev)
            outer_ok = value[0] == 'max' and ('num', 0) in value[1] and len(value[1]) == 2
            body = [x for x in value[1] if x != ('num', 0)][0] if outer_ok else None
            if below:
                ok = outer_ok and same(body, ('bin', '+', ('var', 'delta'), ('bin', '*', ('var', 'delta_factor'), node)))
                arms['below'] = ok
            elif above:
                ok = outer_ok and body[0] == 'bin' and body[1] == '+' and node in (body[2], body[3])
                if ok:
                    aff = body[2] if body[3] == node else body[3]
                    ok = 'exp' in fmt(aff) and 'gamma' in fmt(aff)
                arms['above'] = ok
            ctx.check(ok, 'R-REC', F.file, F.name, 'affinity arm (%s tau)' % ('below' if below else 'above'),
                      'below tau: max(0, delta + delta_factor * prev); otherwise max(0, exp(-gamma * diff^2) + prev); found %s' % fmt(value)[:160], st[4].line)
        al = F.env0.get(F.arr)
        ok = al is not None and fmt(al).startswith('np.full(((len(s1) + 1), (len(s2) + 1)), -inf')
        ctx.check(ok, 'R-REC', F.file, F.name, 'matrix allocation', 'the affinity matrix is (len1+1) x (len2+1) filled with -inf (cells outside the band are excluded)', F.outer_line)
        kern2d.rule_psi2d(ctx, F)
    # C writers
    rule_wps_writers(ctx, m, affinity=True, tier=tier)
    # the penalty subtracted from affinities is the user's penalty in both engines (Python uses settings.penalty as given)
    pdefs, praw = parts_defs(m)
    pen = praw.get('penalty')
    cls = kern._conv_class(pen, {'penalty'}) if pen is not None else None
    f0 = m.cfunc(AFF_WRITERS[0])
    ctx.check(cls == 'identity', 'R-DOM', f0.file if f0 else '', AFF_WRITERS[0], 'affinity penalty domain',
              'the affinity kernels subtract p.penalty, which dtw_wps_parts defines as %s: for the default inner distance that is the SQUARED penalty, while the '
              'Python affinity recurrence subtracts the penalty as given (affinities are not squared distances)' % (fmt(norm_minmax(pen))[:120] if pen else None),
              f0.line if f0 else None)
    for fname in AFF_WRITERS:
        f = m.cfunc(fname)
        if f is None:
            continue
        info = analyse_writer(m, fname)
        for R in info['regions']:
            _affinity_region(ctx, R, info['amap'])


def _split_on(st, name):
    """A store event whose value contains a conditional expression testing `name` -> one store event per branch (path extended)."""
    def first_cond(e):
        for x in walk_expr(e):
            if x[0] == 'cond' and any(y == ('var', name) for y in walk_expr(x[1])):
                return x
        return None
    c = first_cond(st[3])
    if c is None:
        return [st]
    out = []
    for test, val in ((c[1], c[2]), (('un', 'not', c[1]), c[3])):
        while test[0] == 'un' and test[1] == 'not' and test[2][0] == 'un' and test[2][1] == 'not':
            test = test[2][2]
        v = kern._replace(st[3], {c: val})
        out.extend(_split_on((st[0], tuple(st[1]) + (test,), st[2], v) + tuple(st[4:]), name))
    return out


def _affinity_region(ctx, R, amap):
    """The C macro expansion per region: tau test, clip at zero."""
    stores = [e for e in R.col.events if e[0] == 'store' and e[2][1] == ('var', 'wps') and reads_of(e[3], 'wps')]
    vals = [norm_minmax(e[3]) for e in stores]
    txt = ' | '.join(fmt(v)[:200] for v in vals)
    has_below = any('delta' in fmt(v) and 'delta_factor' in fmt(v) for v in vals)
    # the clip is the outermost operation of BOTH arms: value = max(0, arm) on the below-tau and on the above-tau path
    arm_vals = [norm_minmax(a[3]) for e in stores for a in _split_on(e, 'tau')]
    has_clip = bool(arm_vals) and all(v[0] == 'max' and any(x in (('num', 0), ('num', 0.0)) for x in v[1]) for v in arm_vals)
    taus = [c for e in stores for c in kern._conj(e[1]) if 'tau' in fmt(c)] + [x for v in vals for x in walk_expr(v) if x[0] == 'cond' and 'tau' in fmt(x[1])]
    ctx.check(bool(vals) and has_below and bool(taus), 'R-REC', R.file, R.fname, 'region %s affinity arms' % R.name,
              'the region must compute max(0, delta + delta_factor*prev) below tau and max(0, d + prev) otherwise; found %s' % txt[:300], R.main.line)
    ctx.check(has_clip, 'R-REC', R.file, R.fname, 'region %s clip at zero' % R.name,
              'affinity cells are clipped at 0 on both arms of the tau test; found arm values %s' % ' | '.join(fmt(v)[:120] for v in arm_vals), R.main.line)
    # the tau test: delta arm iff d < tau (strict), in every region alike and as in the Python engine
    cmps = []
    for c in taus:
        cc = c[1] if c[0] == 'cond' else c
        neg = False
        while cc[0] == 'un' and cc[1] == 'not':
            cc, neg = cc[2], not neg
        if cc[0] == 'bin' and cc[1] in ('<', '<=', '>', '>='):
            op = cc[1]
            if 'tau' in fmt(cc[2]) and 'tau' not in fmt(cc[3]):
                op = {'<': '>', '<=': '>=', '>': '<', '>=': '<='}[op]       # tau OP d  ->  d OP' tau
            if neg:
                op = {'<': '>=', '<=': '>', '>': '<=', '>=': '<'}[op]
            cmps.append(op)
    ctx.check(bool(cmps) and all(op in ('<', '>=') for op in cmps), 'R-REC', R.file, R.fname, 'region %s threshold comparator' % R.name,
              'the delta arm applies only to affinities strictly below tau (`d < tau`), an affinity equal to tau is kept; found comparators %s' % sorted(set(cmps)), R.main.line)


# ------------------------------------------------------------------------------------------ duality
def rule_dual(ctx, m):
    """dtw_wps_negativize / dtw_wps_positivize (and *_value) are duals: identical structure with >0 <-> <0 and
    INFINITY <-> -INFINITY, identical index arithmetic."""
    def norm_fn(name, flip):
        f = m.cfunc(name)
        if f is None:
            raise AnalysisError('anchor vanished: C function %s' % name)
        out = []

        def ex(e):
            if not isinstance(e, tuple):
                return e
            if e[0] == 'num' and isinstance(e[1], float) and abs(e[1]) == INF and flip:
                return ('num', -e[1])
            if e[0] == 'bin' and e[1] in ('<', '>', '<=', '>=') and ('num', 0) in (e[2], e[3]):
                # sign tests are read as `x OP 0` whichever way they are written; the dual flips OP
                o = orient(e, lambda y: y != ('num', 0))
                if o is not None:
                    op_ = {'<': '>', '>': '<', '<=': '>=', '>=': '<='}[o[0]] if flip else o[0]
                    return ('bin', op_, ex(o[1]), ('num', 0))
            if e[0] == 'call':
                nm = dotted(e[1]) or ''
                if flip:
                    nm = nm.replace('positivize', 'negativize')
                return ('call', ('var', nm), tuple(ex(a) for a in e[2]), ())
            return tuple(ex(a) if isinstance(a, tuple) else a for a in e)

        def st(stmts, depth):
            for s in stmts:
                if s.k == 'assign':
                    out.append((depth, 'assign', fmt(ex(s.target)), fmt(ex(s.value))))
                elif s.k == 'decl':
                    out.append((depth, 'decl', s.name, fmt(ex(s.init)) if s.init is not None else None))
                elif s.k == 'if':
                    out.append((depth, 'if', fmt(ex(s.cond))))
                    st(s.then, depth + 1)
                    out.append((depth, 'else'))
                    st(s.els, depth + 1)
                elif s.k == 'for':
                    out.append((depth, 'for', s.var, fmt(ex(s.lo)) if s.lo is not None else None, fmt(ex(s.hi))))
                    st(s.body, depth + 1)
                elif s.k in ('return', 'expr'):
                    out.append((depth, s.k, fmt(ex(s.value)) if s.value is not None else None))
                else:
                    out.append((depth, s.k))
        st(f.body, 0)
        return f, out
    for a, b in (('dtw_wps_negativize_value', 'dtw_wps_positivize_value'), ('dtw_wps_negativize', 'dtw_wps_positivize')):
        fa, na = norm_fn(a, False)
        fb, nb = norm_fn(b, True)
        diffs = []
        for i, (x, y) in enumerate(zip(na, nb)):
            if x != y:
                diffs.append((x, y))
        if len(na) != len(nb):
            diffs.append(('length %d' % len(na), 'length %d' % len(nb)))
        # the comparison is a contradiction rule between two copies of one text: it has a verdict only while the copies still have the same statement
        # skeleton (kinds and nesting); a copy that was restructured on its own (extracted helper, merged branches) cannot be compared leaf by leaf
        skel_a, skel_b = [(x[0], x[1]) for x in na], [(x[0], x[1]) for x in nb]
        if skel_a != skel_b:
            ctx.undecided('R-DUAL', '%s dual of %s' % (b, a), 'the two routines no longer have the same statement skeleton (%d vs %d statements): one was restructured on its own; '
                          'no leaf-by-leaf verdict' % (len(na), len(nb)))
            continue
        ctx.check(not diffs, 'R-DUAL', fb.file, b, 'dual of %s' % a,
                  '%s must be %s with `> 0` <-> `< 0` and +inf <-> -inf and otherwise identical index arithmetic; first difference: %s vs %s (%d differences)'
                  % (b, a, diffs[0][0] if diffs else '', diffs[0][1] if diffs else '', len(diffs)), fb.line)


def rule_wps_end_scans(ctx, m, affinity=False):
    """End relaxation of the cost-matrix writers: the last column is scanned over the last psi_1e + 1 rows, the last row over the last psi_2e + 1 columns
    -- one candidate per admissible end point, not one more.  Decided on the trip count of the two descending scans (`for (v = A; v > B; v--)`: A - B), told
    apart by the step of the position they walk (`wpsi -= p.width` = down a column, `wpsi -= 1` = along a row)."""
    def atom(x):
        if x == ('var', 'l1'):
            return 'L1'
        if x == ('var', 'l2'):
            return 'L2'
        if x[0] == 'attr' and x[2] in ('psi_1e', 'psi_2e'):
            return 'PSI1E' if x[2] == 'psi_1e' else 'PSI2E'
        return None
    n = 0
    for fname in (AFF_WRITERS if affinity else WRITERS):
        f = m.cfunc(fname)
        if f is None:
            raise AnalysisError('anchor vanished: C function %s' % fname)
        for lp in walk_stmts(f.body):
            if lp.k != 'loop' or lp.cond is None or len(lp.inc) != 1 or len(lp.init) != 1:
                continue
            inc, ini = lp.inc[0], lp.init[0]
            if not (inc.k == 'assign' and inc.target[0] == 'var' and inc.value == ('bin', '-', inc.target, ('num', 1)) and ini.k == 'assign' and ini.target == inc.target):
                continue
            v = inc.target
            o = orient(lp.cond, v)
            if o is None or o[0] not in ('>', '>='):
                continue
            steps = [aug_rhs(t) for t in lp.body if t.k == 'assign' and t.target == ('var', 'wpsi') and t.value[0] == 'bin' and t.value[1] == '-' and t.value[2] == t.target]
            steps = [t.value[3] for t in lp.body if t.k == 'assign' and t.target == ('var', 'wpsi') and t.value[0] == 'bin' and t.value[1] == '-' and t.value[2] == t.target]
            if len(steps) != 1:
                continue
            role = 'column' if steps[0] == ('attr', ('var', 'p'), 'width') else 'row' if steps[0] == ('num', 1) else None
            if role is None:
                continue
            try:
                a_t, b_t = sym.from_ir(norm_minmax(ini.value), atom=atom), sym.from_ir(norm_minmax(o[2]), atom=atom)
            except Exception:  # noqa
                ctx.undecided('R-PSI', '%s end scan of the last %s' % (fname, role), 'bounds are not terms over the lengths and psi')
                continue
            count = sub(a_t, b_t) if o[0] == '>' else add(sub(a_t, b_t), C(1))
            want = add(V('PSI1E' if role == 'column' else 'PSI2E'), C(1))
            n += 1
            ctx.check(count == want, 'R-PSI', f.file, fname, 'end scan of the last %s' % role,
                      'the end relaxation scans %s cells of the last %s; with psi_%se = p exactly p + 1 end points are admissible (%s)'
                      % (sym.show(count), role, '1' if role == 'column' else '2', sym.show(want)), lp.line)
    ctx.count('end-relaxation scans', n)
    return n


# ------------------------------------------------------------------------------------------ writer epilogue domains
def rule_wps_epilogue(ctx, m):
    """The compact writers return a distance in the requested domain and compare it with max_dist in one domain;
    the psi end-relaxation scans stay inside the band (F3, F39)."""
    for fname in WRITERS:
        info = analyse_writer(m, fname)
        f = info['func']
        regs = info['regions']
        kind = 'euclidean' if any(s.k == 'assign' and s.value[0] == 'call' and dotted(s.value[1]) == 'sqrt' and s.target == ('var', 'd')
                                  for s in walk_stmts(regs[0].main.body)) else 'squared'
        rets = [e for e in info['epilogue'].events if e[0] == 'return' and e[2] is not None]
        if not rets:
            raise AnalysisError('unrecognised shape: %s has no return after the regions' % fname)
        val = rets[-1][2]
        found = False
        for x in walk_expr(val):
            if x[0] == 'cond':
                for c in kern._conj([x[1]]):
                    oc = orient(c, lambda e: not kern._mentions(e, {'max_dist'}))
                    c = ('bin', oc[0], oc[1], oc[2]) if oc is not None else c
                    if oc is not None and c[1] in ('>', '>=') and kern._mentions(c[3], {'max_dist'}) and not kern._mentions(c[2], {'max_dist'}) \
                            and c[3] != ('num', 0) and kern._conv_class(c[3], {'max_dist'}) is not None and not any(y[0] == 'call' and (dotted(y[1]) or '').startswith('ub_euclidean') for y in walk_expr(c[3])):
                        found = True
                        a = c[2]
                        rooted = any(y[0] == 'call' and dotted(y[1]) == 'sqrt' for y in walk_expr(a))
                        thr_sq = kern._conv_class(c[3], {'max_dist'}) == 'squared'
                        ctx.check(c[1] == '>', 'R-PRUNE', f.file, fname, 'final threshold comparator', 'only `rvalue > max_dist` may become infinity', rets[-1][3].line)
                        value_sq = (kind == 'squared') and not rooted
                        ok = value_sq == thr_sq
                        ctx.check(ok, 'R-DOM', f.file, fname, 'final threshold domain',
                                  'the final over-threshold conversion compares values of different domains (result value %s, threshold %s): a true distance '
                                  'below max_dist can become infinity (or one above it stay finite)' % ('squared cost' if value_sq else 'distance', 'squared' if thr_sq else 'as given'),
                                  rets[-1][3].line)
        ctx.check(found, 'R-PRUNE', f.file, fname, 'final threshold conversion', 'no final `rvalue > max_dist -> infinity` conversion', f.line)
        # reaching definitions: the result cell must be addressed from the layout, not through the position variable left behind by
        # the last column loop (stale after an early `break` of the pruning block)
        stale = sorted({y[1] for y in walk_expr(val) if y[0] == 'var' and '@after' in y[1] and y[1].split('@')[0] in (regs[-1].wvar, regs[-1].colvar)})
        ctx.check(not stale, 'R-PSI', f.file, fname, 'result cell index',
                  'the returned distance is read at an index computed from %s, the value the column loop of the last row left behind: when that row was '
                  'abandoned early by the pruning block (max_dist / use_pruning) this addresses the last cell WRITTEN, not cell (l1-1, l2-1), and a smaller finite '
                  'number is returned where the Python engine returns infinity' % stale, rets[-1][3].line)
        # only_ub / pruning bound of the same kind
        for e in info['prologue'].events:
            if e[0] == 'return' and e[2] is not None and e[2][0] != 'call':
                v = e[2]
                sq = any(y[0] == 'call' and dotted(y[1]) == 'sqrt' for y in walk_expr(v))
                if kind == 'euclidean':
                    ctx.check(not sq, 'R-DOM', f.file, fname, 'only_ub return', 'the euclidean writer must return its Euclidean bound unrooted', e[3].line)
        ctx.sample({'writer': fname, 'kind': kind, 'return': fmt(val)[:200]})


# ------------------------------------------------------------------------------------------ readers of the compact layout
class RRegion:
    pass


def _lockstep_inner(loop):
    """inner `for` over a column variable with another variable incremented once per iteration -> (inner, colvar, posvar)"""
    for s in loop.body:
        if s.k == 'for':
            for v in assigned_vars(s.body):
                if v != s.var and paths_increments(s.body, v) == {1}:
                    # posvar must index wps somewhere in the loop body
                    uses = any(x[0] == 'idx' and x[1] == ('var', 'wps') and any(y == ('var', v) for y in walk_expr(x[2]))
                               for t in walk_stmts(s.body) for e in stmt_exprs(t) for x in walk_expr(e)) or \
                        any(t.k == 'return' and t.value is not None and any(y == ('var', v) for y in walk_expr(t.value)) for t in walk_stmts(s.body))
                    if uses:
                        return s, s.var, v
    return None


def analyse_reader(m, fname, pvar_is_pointer):
    """Region loops of a reader of the compact layout.  Returns list of RRegion with, per DP/buffer row variable `ri`:
    rows [lo, hi), column start c_init, position start w_init, column end, and the wps row base used."""
    f = m.cfunc(fname)
    if f is None:
        raise AnalysisError('anchor vanished: C function %s' % fname)
    symexec.STRUCTS.clear()
    symexec.ARRAYS.clear()
    symexec.ARRAYS.update({'wps', 'full'})
    amap = PAtoms()
    if not pvar_is_pointer:
        symexec.STRUCTS.add('p')
    out = []
    env = Env()

    def visit(stmts, env):
        ex = None
        i = 0
        while i < len(stmts):
            s = stmts[i]
            if s.k == 'for' and _lockstep_inner(s) is not None:
                out.append(_reader_region(f, s, env.copy(), amap))
                # summarise loop effect
                steps = out[-1].steps
                trip = ('bin', '-', out[-1].hi_e, out[-1].lo_e)
                for v in assigned_vars([s]):
                    if v in steps:
                        env[v] = ('bin', '+', env.get(v, ('var', v)), ('bin', '*', steps[v], trip))
                    else:
                        env[v] = ('var', v + '@after%d' % len(out))
            elif s.k == 'if' and any(t.k == 'for' and _lockstep_inner(t) is not None for t in walk_stmts(s.then)):
                # region guarded by `if (rbs < p.riK)`: analyse inside with the same env; effects on env are region-local except affine vars
                e2 = env.copy()
                visit(s.then, e2)
                for v in assigned_vars(s.then):
                    env[v] = e2.get(v, ('var', v + '@g'))
            else:
                if s.k == 'if' and not out:
                    # the copy of the top (border) row in front of the regions: `for (ci = ..; ci < HI; ci++) full[..] = wps[wpsi]; wpsi++`
                    for k_, t in enumerate(s.then):
                        if t.k == 'for' and any(u.k == 'assign' and u.target[0] == 'idx' and u.target[1] == ('var', 'full') and reads_of(u.value, 'wps') for u in t.body):
                            e3 = Exec(havoc_tag='rd').run(s.then[:k_], env.copy())
                            if e3 is not None:
                                f.top_copy = (subst_expr(t.lo, e3) if t.lo is not None else None, subst_expr(t.hi, e3), t)
                r = Exec(havoc_tag='rd').run([s], env)
                if r is None:
                    break
            i += 1
    f.top_copy = None
    visit(f.body, env)
    symexec.STRUCTS.clear()
    symexec.ARRAYS.clear()
    return f, out, amap


def _reader_region(f, loop, env, amap):
    R = RRegion()
    R.loop = loop
    R.fname = f.name
    R.file = f.file
    R.lo_e = subst_expr(loop.lo, env)
    R.hi_e = subst_expr(loop.hi, env)
    R.lo = sym.from_ir(norm_minmax(R.lo_e), atom=amap)
    R.hi = sym.from_ir(norm_minmax(R.hi_e), atom=amap)
    top = loop.body
    R.steps = {}
    for v in assigned_vars(top) - {loop.var}:
        ta = _top_assigns(top, v)
        alla = [s for s in walk_stmts(top) if s.k == 'assign' and s.target == ('var', v)]
        if len(ta) == 1 and len(alla) == 1 and ta[0].d.get('aug') == '+' and not (set(x[1] for x in walk_expr(aug_rhs(ta[0])) if x[0] == 'var') & assigned_vars(top)):
            R.steps[v] = aug_rhs(ta[0])
    ienv = env.copy()
    ienv[loop.var] = ('var', 'ri')
    for v, st in R.steps.items():
        vin = env.get(v, ('var', v))
        ienv[v] = ('bin', '+', vin, ('bin', '*', st, ('bin', '-', ('var', 'ri'), R.lo_e)))
    for v in assigned_vars(top) - set(R.steps) - {loop.var}:
        ienv[v] = ('var', v + '@row')
    inner, colvar, posvar = _lockstep_inner(loop)
    R.inner, R.colvar, R.posvar = inner, colvar, posvar
    mi = top.index(inner)
    ex = Exec(havoc_tag='row')
    renv = ex.run(top[:mi], ienv)
    if renv is None:
        # early returns before the inner loop on some path (dtw_wps_loc): run ignoring returns
        renv = ienv
    R.w_init_e = renv.get(posvar)
    R.c_init_e = subst_expr(inner.lo, renv) if inner.lo is not None else renv.get(colvar)
    R.hi_col_e = subst_expr(inner.hi, renv)
    R.w_init = sym.from_ir(norm_minmax(R.w_init_e), atom=amap)
    R.c_init = sym.from_ir(norm_minmax(R.c_init_e), atom=amap)
    R.hi_col = sym.from_ir(norm_minmax(R.hi_col_e), atom=amap)
    # the wps access inside the inner loop: row base
    cenv = renv.copy()
    cenv[colvar] = ('var', 'j')
    cenv[posvar] = ('var', 'Q')
    acc = None
    for t in walk_stmts(inner.body):
        for e in stmt_exprs(t):
            for x in walk_expr(e):
                if x[0] == 'idx' and x[1] == ('var', 'wps') and any(y == ('var', posvar) for y in walk_expr(x[2])):
                    acc = subst_expr(x[2], cenv)
    R.access = sym.from_ir(norm_minmax(acc), atom=amap) if acc is not None else None
    return R


READERS = [
    # (function, p is a pointer parameter, row variable counts buffer rows (DP row + 1), column variable counts matrix columns (DP col + 1))
    ('dtw_expand_wps_slice', False, False, False),
    ('dtw_expand_wps_slice_affinity', False, False, False),
    ('dtw_wps_loc', True, True, True),
    ('dtw_wps_max', True, True, True),
]


def rule_wps_readers(ctx, m, affinity=False):
    """Every reader of the compact layout uses, region by region, the writer's column <-> position map."""
    pdefs, praw = parts_defs(m)
    winfo = analyse_writer(m, WRITERS[0])
    wregs = winfo['regions']
    for R in wregs:
        # writer deltas need Delta for nothing here
        pass
    slice_atoms = ('rb', 're', 'cb', 'ce')
    for fname, pptr, bufrows, matcols in READERS:
        if affinity != ('affinity' in fname) and fname.startswith('dtw_expand'):
            continue
        f, rregs, amap = analyse_reader(m, fname, pptr)
        if len(rregs) != 4:
            # a reader that no longer walks the four regions row by row (a region replaced by a closed form) cannot be compared loop by loop: no verdict
            ctx.undecided('R-MAP', '%s reader regions' % fname, 'expected four region loops (A, B, C, D), found %d: the reader was restructured' % len(rregs))
        if fname.startswith('dtw_expand_wps_slice') and getattr(f, 'top_copy', None) is not None:
            # the border row of the slice: columns up to min(ce - 1, width - 1, len2) are copied (position q of row 0 is matrix column q)
            lo_e, hi_e, tl = f.top_copy
            try:
                hi_t = sym.from_ir(norm_minmax(hi_e), atom=amap)
            except Exception:  # noqa
                hi_t = None
            if hi_t is None:
                ctx.undecided('R-MAP', '%s top row copy' % fname, 'bound %s is not a term' % fmt(hi_e)[:80])
            else:
                ces = tmax(sub(V('ce'), C(1)), C(0))
                want = tmin(ces, tmin(sub(V('P_width'), C(1)), V('L2')))
                box0 = {'L1': range(1, 6), 'L2': range(1, 6), 'W': range(0, 5), 'rb': range(0, 2), 're': (3, 6), 'cb': range(0, 4), 'ce': (1, 3, 6)}
                r = decide_equal(pdefs, hi_t, want, [V('ce'), V('cb')], extra_atoms=('ce', 'cb'), box=box0)
                _report(ctx, r, 'R-MAP', f.file, fname, 'top row copy bound', '%s top row copy bound' % fname,
                        'the border row of the slice must be copied up to column min(ce - 1, width - 1, len2); the loop stops at %s' % sym.show(hi_t)[:100], tl.line)
        if len(rregs) != 4:
            continue
        for RR, WR in zip(rregs, wregs):
            ro = C(1) if bufrows else C(0)       # ri_reader = DP row + ro
            co = C(1) if matcols else C(0)
            dprow = sub(V('ri'), ro)
            extra = tuple(a for a in slice_atoms if a in (sym.atoms(RR.lo) | sym.atoms(RR.hi) | sym.atoms(RR.c_init) | sym.atoms(RR.w_init)))
            guards = [sub(V('ri'), RR.lo), sub(sub(RR.hi, V('ri')), C(1))] + [V(a) for a in extra]
            if 'rb' in extra and 're' in extra:
                guards.append(sub(V('re'), V('rb')))
            if 'cb' in extra and 'ce' in extra:
                guards.append(sub(V('ce'), V('cb')))
            box = {'L1': range(1, 6), 'L2': range(1, 6), 'W': range(0, 5), 'ri': range(0, 6), 'rb': range(0, 5), 're': (3, 6), 'cb': range(0, 4), 'ce': (3, 6)}
            # (i) reader rows lie inside the writer's region
            w_lo = sym.subst(WR.lo, {})
            inside = tmax(C(0), sub(WR.lo, dprow), add(sub(dprow, WR.hi), C(1)))
            r = decide_equal(pdefs, inside, C(0), guards, extra_atoms=('ri',) + extra, box=box)
            inst = '%s region %s rows inside the writer region' % (fname, WR.name)
            _report(ctx, r, 'R-MAP', RR.file, fname, 'region %s rows' % WR.name, inst,
                    'the %s loop of %s visits a row that the writer fills in a different region' % (WR.name, fname), RR.loop.line)
            # (ii) same column <-> position map: (c_init - co) - w_init == delta_writer(dp row)
            d_reader = sub(sub(RR.c_init, co), RR.w_init)
            d_writer = sym.subst(WR.delta, {'ri': dprow})
            r = decide_equal(pdefs, d_reader, d_writer, guards, extra_atoms=('ri',) + extra, box=box)
            inst = '%s region %s column/position map' % (fname, WR.name)
            _report(ctx, r, 'R-MAP', RR.file, fname, 'region %s map' % WR.name, inst,
                    'in region %s, %s reads position q of a row as column q + (%s) while the writer stored column q + (%s) there'
                    % (WR.name, fname, sym.show(d_reader)[:80], sym.show(WR.delta)[:80]), RR.loop.line)
            # (iv) readers that must see the whole row (maximum search, cell location) scan exactly the writer's band [c0, hi) of that row
            if fname in ('dtw_wps_max', 'dtw_wps_loc'):
                wfirst = sym.subst(WR.c0, {'ri': dprow})
                # the scan may begin at the filler / border cell in front of the band (position 0 of the row), never after the first in-band column
                for nm, rd, wr in (('first', tmax(sub(RR.c_init, co), wfirst), wfirst), ('end', sub(RR.hi_col, co), sym.subst(WR.hi_col, {'ri': dprow}))):
                    r = decide_equal(pdefs, rd, wr, guards, extra_atoms=('ri',) + extra, box=box)
                    inst = '%s region %s %s column' % (fname, WR.name, nm)
                    _report(ctx, r, 'R-MAP', RR.file, fname, 'region %s %s column' % (WR.name, nm), inst,
                            'in region %s the %s column scanned by %s (%s) differs from the %s in-band column the writer fills (%s): in-band cells are never visited'
                            % (WR.name, nm, fname, sym.show(rd)[:70], nm, sym.show(wr)[:70]), RR.loop.line)
            # (v) a slice expansion visits EVERY row of the writer's region that lies in the requested slice, and every in-band column of the slice in it:
            #     rows [max(rb-1, 0), max(re-1, 0)) x columns up to max(ce-1, 0), in DP coordinates (row / column 0 of the full matrix is the border)
            if fname.startswith('dtw_expand_wps_slice'):
                extra0, guards0 = extra, guards
                extra = tuple(sorted(set(extra) | {'rb', 're'}))
                guards = guards + [V(a) for a in extra if a not in extra0] + ([sub(V('re'), V('rb'))] if not {'rb', 're'} <= set(extra0) else [])
                rbs, res = tmax(sub(V('rb'), C(1)), C(0)), tmax(sub(V('re'), C(1)), C(0))
                w_lo, w_hi = tmax(rbs, WR.lo), tmin(res, WR.hi)
                cnt_r, cnt_w = tmax(C(0), sub(RR.hi, RR.lo)), tmax(C(0), sub(w_hi, w_lo))
                g0 = [g for g in guards if 'ri' not in sym.atoms(g)]
                r = decide_equal(pdefs, cnt_r, cnt_w, g0, extra_atoms=extra, box=box)
                inst = '%s region %s covers the slice rows' % (fname, WR.name)
                _report(ctx, r, 'R-MAP', RR.file, fname, 'region %s row coverage' % WR.name, inst,
                        'the %s loop of %s must visit exactly the rows of the writer\'s region %s inside the requested slice (%s rows), it visits %s: rows of the slice stay at '
                        'their infinity filler' % (WR.name, fname, WR.name, sym.show(cnt_w)[:80], sym.show(cnt_r)[:80]), RR.loop.line)
                if r[0] == 'equal':
                    r = decide_equal(pdefs, RR.lo, w_lo, g0 + [sub(sub(RR.hi, RR.lo), C(1))], extra_atoms=extra, box=box)
                    _report(ctx, r, 'R-MAP', RR.file, fname, 'region %s first row' % WR.name, '%s region %s first slice row' % (fname, WR.name),
                            'the %s loop of %s starts at row %s, the first row of region %s inside the slice is %s' % (WR.name, fname, sym.show(RR.lo)[:60], WR.name, sym.show(w_lo)[:60]),
                            RR.loop.line)
                extra, guards = extra0, guards0
            # (iii) the row base addresses buffer row (DP row + 1)
            if RR.access is not None and RR.access[0] == 'lin':
                co_ = dict(RR.access[1])
                okb = co_.get('Q') == 1
                ctx.check(okb, 'R-MAP', RR.file, fname, 'region %s access' % WR.name, 'the compact matrix must be read at (row base) + position', RR.loop.line)
        ctx.sample({'reader': fname, 'regions': [{'rows': [sym.show(r.lo)[:60], sym.show(r.hi)[:60]], 'c_init': sym.show(r.c_init)[:80], 'w_init': sym.show(r.w_init)[:80]} for r in rregs]})


def _report(ctx, r, rule, file, fname, construct, inst, what, line):
    if r[0] == 'equal':
        ctx.held(rule, inst, 'proved in %d regimes' % r[1])
    elif r[0] == 'differ':
        ctx.violation(rule, file, fname, construct, '%s: at %s the two sides are %s vs %s' % (what, kern._fmtw(r[1]), r[2], r[3]), line, facts={'witness': r[1], 'failset': r[4]})
    else:
        ctx.undecided(rule, inst, r[1])


# ------------------------------------------------------------------------------------------ back-tracking move tables (C)
def _bt_moves(body, ro):
    """Effect of one move arm on (position, row counter, column counter, row bases)."""
    mv = {'Q': 0, 'rip': 0, 'cip': 0, 'rowshift': False}
    for s in body:
        if s.k == 'assign' and s.target == ('var', ro['Q']):
            t = sym.from_ir(s.value, atom=lambda x: 'Q' if x == ('var', ro['Q']) else None)
            mv['Q'] = t[2] if t[0] == 'lin' and dict(t[1]).get('Q') == 1 else None
        for nm in ('rip', 'cip'):
            if s.k == 'assign' and s.target == ('var', ro[nm]):
                t = sym.from_ir(s.value, atom=lambda x, nm=nm: 'V' if x == ('var', ro[nm]) else None)
                if t[0] == 'lin' and dict(t[1]).get('V') == 1:
                    mv[nm] += t[2]
                else:
                    mv[nm] = None
        if s.k == 'assign' and s.target == ('var', ro['RW']) and s.value == ('var', ro['RWP']):
            mv['rowshift'] = True
    return mv


def _bt_roles(f, loops):
    """Role names of a back-tracker: row base of the current / previous row, in-row position, row and column counters -- found from the
    shape of the code (the guard `rip > .. and cip > 0`, the current-cell read wps[RW + Q], the move `RW = RWP`), not from the spelling."""
    roles = {}
    c = loops[0].cond
    if c[0] == 'bin' and c[1] == 'and':
        # `rip > X and cip > 0`: the counters are the greater sides
        g1, g2 = orient(c[2], lambda e: e[0] == 'var'), orient(c[3], lambda e: e[0] == 'var')
        if g1 is not None and g1[0] == '<' and g1[2][0] == 'var':
            g1 = ('>', g1[2], g1[1])            # both sides are variables: the counter is the greater one
        if g1 is not None and g2 is not None and g1[0] == '>' and g2[0] == '>':
            roles['rip'], roles['cip'] = g1[1][1], g2[1][1]
    # RW = RWP assignment inside the loop
    for s_ in walk_stmts(loops[0].body):
        if s_.k == 'assign' and s_.target[0] == 'var' and s_.value[0] == 'var' and s_.d.get('aug') is None:
            a, b = s_.target[1], s_.value[1]
            # confirm: some wps read uses a + X and some uses b + X
            ra = any(x[0] == 'idx' and x[1] == ('var', 'wps') and any(y == ('var', a) for y in walk_expr(x[2])) for t in walk_stmts(loops[0].body) for e in stmt_exprs(t) for x in walk_expr(e))
            rb_ = any(x[0] == 'idx' and x[1] == ('var', 'wps') and any(y == ('var', b) for y in walk_expr(x[2])) for t in walk_stmts(loops[0].body) for e in stmt_exprs(t) for x in walk_expr(e))
            if ra and rb_:
                roles['RW'], roles['RWP'] = a, b
                break
    if 'RW' in roles:
        for t in walk_stmts(loops[0].body):
            for e in stmt_exprs(t):
                for x in walk_expr(e):
                    if x[0] == 'idx' and x[1] == ('var', 'wps') and x[2][0] == 'bin' and x[2][1] == '+':
                        vs = [y[1] for y in (x[2][2], x[2][3]) if y[0] == 'var']
                        if roles['RW'] in vs and len(vs) == 2:
                            roles['Q'] = [v for v in vs if v != roles['RW']][0]
    if not all(k in roles for k in ('rip', 'cip', 'RW', 'RWP', 'Q')):
        raise AnalysisError('unrecognised shape: back-tracker %s (roles found: %s)' % (f.name, sorted(roles)))
    return roles


def rule_best_path_moves(ctx, m):
    """In each of the three back-tracking loops (regions D, C, A-B) the candidates read and the position updates agree
    with the writer's per-row layout shift Delta of that region: diag = (prev row, Q + Delta - 1), up = (prev row,
    Q + Delta), left = (this row, Q - 1); moves: diag Q += Delta - 1, up Q += Delta, left Q -= 1."""
    pdefs, praw = parts_defs(m)
    winfo = analyse_writer(m, WRITERS[0])
    wregs = {R.name: R for R in winfo['regions']}
    with ctx.scoped(lambda r, t: False):
        for R in winfo['regions']:
            _region_rules(ctx, R, winfo['amap'], pdefs, False)
    shifts = [wregs['D'].Delta, wregs['C'].Delta, wregs['A'].Delta]
    guards_want = [('attr', ('var', 'p'), 'ri3'), ('attr', ('var', 'p'), 'ri2'), ('num', 0)]
    names = ['D', 'C', 'A-B']
    for fn in ('dtw_best_path', 'dtw_best_path_customstart', 'dtw_best_path_isclose', 'dtw_best_path_affinity'):
        f = m.cfunc(fn)
        if f is None:
            raise AnalysisError('anchor vanished: C function %s' % fn)
        loops = [s for s in f.body if s.k == 'while']
        if len(loops) != 3:
            ctx.violation('R-MAP', f.file, fn, 'back-tracking loops', 'expected three region loops, found %d' % len(loops), f.line)
            continue
        maxv = fn.endswith('affinity')
        ro = _bt_roles(f, loops)
        for k, lp in enumerate(loops):
            Delta = shifts[k]
            # guard
            c = lp.cond
            okg = c[0] == 'bin' and c[1] == 'and' and orient(c[2], ('var', ro['rip'])) == ('>', ('var', ro['rip']), guards_want[k]) and orient(c[3], ('var', ro['cip'])) == ('>', ('var', ro['cip']), ('num', 0))
            ctx.check(okg, 'R-MAP', f.file, fn, 'loop %s guard' % names[k], 'the %s loop must run while rip > %s and cip > 0; found %s' % (names[k], fmt(guards_want[k]), fmt(c)), lp.line)
            chain = [s for s in lp.body if s.k == 'if' and reads_of(s.cond, 'wps') and len([x for x in walk_expr(s.cond) if x[0] == 'idx' and x[1] == ('var', 'wps')]) >= 2]
            if not chain:
                ctx.violation('R-MAP', f.file, fn, 'loop %s move chain' % names[k], 'no move selection found', lp.line)
                continue
            ch = chain[-1]
            arms = [(ch.cond, ch.then)]
            cur = ch
            while len(cur.els) == 1 and cur.els[0].k == 'if':
                cur = cur.els[0]
                arms.append((cur.cond, cur.then))
            arms.append((None, cur.els))
            if len(arms) != 3:
                ctx.violation('R-MAP', f.file, fn, 'loop %s move chain' % names[k], 'expected diagonal / left / up arms, found %d' % len(arms), ch.line)
                continue

            def pos(e, ro=ro):
                t = sym.from_ir(e, atom=lambda x: {ro['RW']: 'RW', ro['RWP']: 'RWP', ro['Q']: 'Q'}.get(x[1]) if x[0] == 'var' else None)
                co = dict(t[1]) if t[0] == 'lin' else {}
                row = 'cur' if co.get('RW') == 1 else ('prev' if co.get('RWP') == 1 else None)
                return (row, t[2]) if co.get('Q') == 1 and row else None

            def cmp_pairs(cond):
                out = []
                for x in walk_expr(cond):
                    if x[0] == 'bin' and x[1] in ('<=', '>=', '<', '>'):
                        # read the test with the plain cell on the left and the (cell + penalty) on the right, whichever way it is written
                        ox = orient(x, lambda e: e[0] == 'idx' and e[1] == ('var', 'wps'))
                        if ox is None:
                            continue
                        op_, l, r = ox
                        pen = False
                        if r[0] == 'bin' and r[1] == '+' and ('attr', ('var', 'p'), 'penalty') in (r[2], r[3]):
                            r, pen = (r[2] if r[3] == ('attr', ('var', 'p'), 'penalty') else r[3]), True
                        if l[0] == 'idx' and l[1] == ('var', 'wps') and r[0] == 'idx' and r[1] == ('var', 'wps'):
                            out.append((op_, pos(l[2]), pos(r[2]), pen))
                return out
            want_op = '>=' if maxv else '<='
            c1 = cmp_pairs(arms[0][0])
            diag = ('prev', Delta - 1)
            up = ('prev', Delta)
            left = ('cur', -1)
            ok1 = len(c1) >= 2 and all(o == want_op and a == diag for o, a, b, pen in c1) and {b for o, a, b, pen in c1} == {up, left} and all(pen for o, a, b, pen in c1)
            ctx.check(ok1, 'R-MAP', f.file, fn, 'loop %s diagonal test' % names[k],
                      'with a per-row layout shift of %d the diagonal predecessor is at (previous row, Q%+d), up at (previous row, Q%+d), left at (this row, Q-1); '
                      'the diagonal is taken when it is %s both others + penalty (ties go diagonal); found %s' % (Delta, Delta - 1, Delta, want_op, c1), ch.line)
            c2 = cmp_pairs(arms[1][0])
            # both operands are plain cells: read the test with `left` first whichever way it is written
            fl_ = {'<': '>', '<=': '>=', '>': '<', '>=': '<='}
            c2 = [(fl_[o], b, a, pen) if (a == up and b == left) else (o, a, b, pen) for o, a, b, pen in c2]
            ok2 = len(c2) >= 1 and all(o == want_op and a == left and b == up for o, a, b, pen in c2)
            ctx.check(ok2, 'R-MAP', f.file, fn, 'loop %s left/up test' % names[k], 'the second test must compare left (this row, Q-1) with up (previous row, Q%+d); found %s' % (Delta, c2), ch.line)

            md, ml, mu = _bt_moves(arms[0][1], ro), _bt_moves(arms[1][1], ro), _bt_moves(arms[2][1], ro)
            okm = md == {'Q': Delta - 1, 'rip': -1, 'cip': -1, 'rowshift': True} and ml == {'Q': -1, 'rip': 0, 'cip': -1, 'rowshift': False} \
                and mu == {'Q': Delta, 'rip': -1, 'cip': 0, 'rowshift': True}
            ctx.check(okm, 'R-MAP', f.file, fn, 'loop %s moves' % names[k],
                      'moves must be diagonal (row-1, col-1, Q%+d), left (col-1, Q-1), up (row-1, Q%+d) with the row bases shifted on every row change; found diag=%s left=%s up=%s'
                      % (Delta - 1, Delta, md, ml, mu), ch.line)
        ctx.sample({'back-tracker': fn, 'shifts (D, C, A-B)': shifts})


def _is_marker_test(c, cur_match):
    """c compares the current cell with the corridor marker -1."""
    for x in walk_expr(c):
        if x[0] == 'bin' and x[1] in ('==', '!=') and ((x[3] == ('num', -1) and cur_match(x[2])) or (x[2] == ('num', -1) and cur_match(x[3]))):
            return True
    return False


def rule_best_path_markers(ctx, m):
    """With end relaxation (psi_1e / psi_2e) the writers mark the cells between the matrix corner and the true end of the best path with -1 (a straight
    run in the last column or the last row).  A back-tracker that knows the marker (it skips marked cells when recording the path) must also follow
    the marked run: choosing the smallest of the three predecessors from a marked cell can step diagonally past the end cell, and the returned path
    then does not end on the last row / column and does not realise the distance."""
    # Python
    pm = m.py('dtaidistance.dtw')
    f = pm.funcs.get('best_path')
    if f is None:
        raise AnalysisError('anchor vanished: dtw.best_path')
    loops = [s for s in f.body if s.k == 'while']
    if not loops:
        raise AnalysisError('unrecognised shape: dtw.best_path without a while loop')
    lc_ = loops[0].cond
    gs_ = [orient(x, ('num', 0)) for x in (lc_[2], lc_[3])] if lc_[0] == 'bin' and lc_[1] == 'and' else [None]
    if not all(g is not None and g[2][0] == 'var' for g in gs_):
        raise AnalysisError('unrecognised shape: dtw.best_path loop guard')
    cur_idx = ('tuple', (gs_[0][2], gs_[1][2]))
    cur_py = lambda e: e[0] == 'idx' and e[1] == ('var', f.args[0]) and e[2] == cur_idx
    knows = any(_is_marker_test(s.cond, cur_py) for s in walk_stmts(f.body) if s.k == 'if')

    def guarded(stmts, under):
        """-> True iff every move selection (call of argm / argmin / argmax) lies under a marker test."""
        ok = True
        for s in stmts:
            if s.k == 'if':
                u = under or _is_marker_test(s.cond, cur_py)
                ok = guarded(s.then, u) and guarded(s.els, u) and ok
            elif s.k == 'assign' and any(x[0] == 'call' and len(x[2]) == 1 and x[2][0][0] == 'list' and len(x[2][0][1]) == 3 for x in walk_expr(s.value)):
                ok = ok and under         # the move selection: <selector>([three candidates])
            else:
                for b in sub_blocks(s):
                    ok = guarded(b, under) and ok
        return ok
    if knows:
        ctx.check(guarded(loops[0].body, False), 'R-PSI', pm.path, 'best_path', 'marked end run',
                  'best_path skips cells marked -1 when recording the path, but selects its next move by argmin of the three predecessors also when standing on a marked cell: '
                  'it can leave the marked run diagonally and miss the end cell of the best path (the returned path does not end on the last row/column and its cost differs from the distance)',
                  loops[0].line, facts={'witness': {'psi': '(0, 2, 0, 0)', 's1': [0.44, 0.33, 1.49, -0.21, 0.31], 's2': [-0.85, -2.55, 0.65, 0.86, -0.74, 2.27, -1.45, 0.05]}})
    else:
        ctx.held('R-PSI', 'dtw.best_path does not interpret markers')
    # C
    for fn in ('dtw_best_path', 'dtw_best_path_customstart', 'dtw_best_path_isclose', 'dtw_best_path_prob'):
        cf = m.cfunc(fn)
        if cf is None:
            raise AnalysisError('anchor vanished: C function %s' % fn)
        wl = [s for s in cf.body if s.k == 'while']
        ro = _bt_roles(cf, wl)
        cur_c = lambda e, ro=ro: e[0] == 'idx' and e[1] == ('var', 'wps') and e[2] in (('bin', '+', ('var', ro['RW']), ('var', ro['Q'])), ('bin', '+', ('var', ro['Q']), ('var', ro['RW'])))
        movers = (('var', ro['rip']), ('var', ro['cip']))
        knows = any(_is_marker_test(s.cond, cur_c) for s in walk_stmts(cf.body) if s.k == 'if')
        if not knows:
            ctx.held('R-PSI', '%s does not interpret markers' % fn)
            continue
        okall = True
        for lp in wl:
            # the move chain: an if (not the marker test itself) that updates the position; it must sit under a marker test or after a marker block ending in continue
            under = False
            ok = True
            for s in lp.body:
                if s.k == 'if' and _is_marker_test(s.cond, cur_c):
                    if any(t.k == 'continue' for t in s.then):
                        under = True
                    elif any(t.k == 'assign' and t.target in movers for t in walk_stmts(s.els)):
                        under = True          # moves live in the else branch of the marker test
                    continue
                if s.k == 'if' and any(t.k == 'assign' and t.target in movers for t in walk_stmts([s])):
                    ok = ok and under
            okall = okall and ok
        ctx.check(okall, 'R-PSI', cf.file, fn, 'marked end run',
                  '%s skips cells marked -1 when recording the path, but chooses its next move from the three predecessors also when standing on a marked cell: it can leave the '
                  'marked run diagonally and miss the end cell of the best path' % fn, cf.line)


def rule_pyx_path_assembly(ctx, m):
    """The C back-trackers record the path from its end to its start into two index arrays (series-1 indices first) and return / store its
    length.  Every Cython wrapper that receives such a pair must rebuild the path as [(i1[k], i2[k]) for k in range(path_length)] and reverse
    it exactly once -- a shorter range drops a cell, swapped arrays transpose the path, a missing reverse returns it end-first."""
    pyx = m.pyx('dtw_cc')
    n = 0
    for q, f in sorted(pyx.funcs.items()):
        ccalls = [(st, c) for st, c in calls_in(f.body) if (dotted(c[1]) or '').startswith('dtaidistancec_dtw.dtw_') and
                  ('best_path' in (dotted(c[1]) or '') or 'warping_path' in (dotted(c[1]) or ''))]
        ccalls = [(st, c) for st, c in ccalls if sum(1 for a in c[2] if a[0] == 'var' and a[1] in f.locals_ptr) >= 2] if hasattr(f, 'locals_ptr') else ccalls
        if not ccalls:
            continue
        st, c = ccalls[0]
        # the two index arrays: the first two plain pointer variables among the arguments that are allocated in this function
        allocs = [s_.name for s_ in walk_stmts(f.body) if s_.k == 'decl' and s_.init is not None and 'Malloc' in fmt(s_.init)]
        idx = [a[1] for a in c[2] if a[0] == 'var' and a[1] in allocs]
        if len(idx) < 2:
            continue
        a1, a2 = idx[0], idx[1]
        # path length: the variable assigned from the call, or passed by address
        plen = None
        if st.k == 'assign' and st.target[0] == 'var' and 'best_path' in (dotted(c[1]) or ''):
            plen = st.target[1]
        for a in c[2]:
            if a[0] == 'un' and a[1] == 'addr' and a[2][0] == 'var' and 'length' in a[2][1]:
                plen = a[2][1]
        n += 1
        has_app = lambda s_: any(x[0] == 'call' and fmt(x[1]).endswith('.append') for t in s_.body for e in stmt_exprs(t) for x in walk_expr(e))
        loops = [s_ for s_ in walk_stmts(f.body) if s_.k in ('for', 'while') and has_app(s_)]
        ok = len(loops) == 1 and plen is not None
        why = ''
        comps = [(s_, s_.value) for s_ in walk_stmts(f.body) if s_.k == 'assign' and s_.target[0] == 'var' and s_.value[0] == 'comp' and len(s_.value[3]) == 1
                 and s_.value[2][0] == 'tuple' and len(s_.value[2][1]) == 2] if not loops else []
        if not loops and len(comps) == 1 and plen is not None:
            # the same assembly as a list comprehension over range(n) / range(n - 1, -1, -1) / reversed(range(n))
            cs, cv = comps[0]
            tgt, it, conds = cv[3][0]
            order = None
            P = ('var', plen)
            rng = it
            rev = False
            if rng[0] == 'call' and dotted(rng[1]) == 'reversed' and len(rng[2]) == 1:
                rng, rev = rng[2][0], True
            if rng[0] == 'call' and dotted(rng[1]) == 'range' and not conds and tgt[0] == 'var':
                a_ = rng[2]
                if a_ == (P,) or a_ == (('num', 0), P) or a_ == (('num', 0), P, ('num', 1)):
                    order = 'asc'
                elif len(a_) == 3 and a_[0] == ('bin', '-', P, ('num', 1)) and a_[1] in (('num', -1), ('un', 'neg', ('num', 1))) and a_[2] in (('num', -1), ('un', 'neg', ('num', 1))):
                    order = 'desc'
                if rev and order is not None:
                    order = 'desc' if order == 'asc' else 'asc'
            e1, e2 = cv[2][1]
            ok_app = order is not None and e1 == ('idx', ('var', a1), tgt) and e2 == ('idx', ('var', a2), tgt)
            lst = fmt(cs.target)
            revs = [s_ for s_ in walk_stmts(f.body) if s_.k == 'expr' and s_.value[0] == 'call' and fmt(s_.value[1]) == '%s.reverse' % lst]
            ok_rev = all(r_.line > cs.line for r_ in revs) and ((order == 'asc' and len(revs) == 1) or (order == 'desc' and len(revs) == 0))
            ok = ok_app and ok_rev
            why = 'comprehension: visiting order=%s, element ok=%s, reversals afterwards=%d' % (order, ok_app, len(revs))
        elif ok:
            lp = loops[0]
            # the order in which the recorded entries are visited: ascending (0 .. n-1) or descending (n-1 .. 0)
            order = None
            body = lp.body
            if lp.k == 'for':
                kv = ('var', lp.var)
                if lp.lo == ('num', 0) and lp.hi == ('var', plen) and not lp.d.get('inclusive') and lp.step in (None, ('num', 1)):
                    order = 'asc'
            else:
                # k = n; while k > 0: k -= 1; use k
                c_ = lp.cond
                oc_ = orient(c_, lambda e: e[0] == 'var')
                c_ = ('bin',) + oc_ if oc_ is not None else c_
                kv = c_[2] if c_[0] == 'bin' and c_[2][0] == 'var' else None
                first = body[0] if body else None
                dec_first = first is not None and first.k == 'assign' and first.target == kv and first.value == ('bin', '-', kv, ('num', 1))
                guard_ok = kv is not None and ((c_[1] == '>' and c_[3] == ('num', 0)) or (c_[1] == '>=' and c_[3] == ('num', 1)))
                inits = [s_ for s_ in walk_stmts(f.body) if s_.k == 'assign' and s_.target == kv and s_.line < lp.line]
                others = [s_ for s_ in walk_stmts(body[1:]) if s_.k == 'assign' and s_.target == kv]
                if dec_first and guard_ok and inits and inits[-1].value == ('var', plen) and not others and not any(t.k == 'continue' for t in walk_stmts(body)):
                    order = 'desc'
                    body = body[1:]
            app = [x for t in body for e in stmt_exprs(t) for x in walk_expr(e) if x[0] == 'call' and fmt(x[1]).endswith('.append')]
            ok_app = False
            if order is not None and len(app) == 1 and len(app[0][2]) == 1 and app[0][2][0][0] == 'tuple' and len(app[0][2][0][1]) == 2:
                e1, e2 = app[0][2][0][1]
                mirrored = (('bin', '-', ('bin', '-', ('var', plen), ('num', 1)), kv), ('bin', '-', ('bin', '-', ('var', plen), kv), ('num', 1)))
                if e1[0] == 'idx' and e2[0] == 'idx' and e1[1] == ('var', a1) and e2[1] == ('var', a2) and e1[2] == e2[2]:
                    if e1[2] == kv:
                        ok_app = True
                    elif e1[2] in mirrored:
                        ok_app = True
                        order = 'desc' if order == 'asc' else 'asc'
            lst = fmt(app[0][1])[:-len('.append')] if app else None
            revs = [s_ for s_ in walk_stmts(f.body) if s_.k == 'expr' and s_.value[0] == 'call' and fmt(s_.value[1]) == '%s.reverse' % lst]
            ok_rev = all(r_.line > lp.line for r_ in revs) and ((order == 'asc' and len(revs) == 1) or (order == 'desc' and len(revs) == 0))
            ok = order is not None and ok_app and ok_rev
            why = 'visiting order=%s, element ok=%s, reversals after the loop=%d' % (order, ok_app, len(revs))
        ctx.check(ok, 'R-PATH', pyx.path, q, 'path assembly',
                  'the C routine records the path end-first: it must be rebuilt from all of (%s[k], %s[k]), k < %s, so that the last recorded entry comes first (ascending visit + one reverse, or descending visit); %s' % (a1, a2, plen, why), st.line)
    ctx.check(n >= 5, 'R-PATH', pyx.path, '<module>', 'path-assembling wrappers', 'expected the five wrappers around C back-trackers, found %d' % n, 1)


def rule_best_path_prob_moves(ctx, m):
    """dtw_best_path_prob (sampled back-tracking, used by DBA with nb_prob_samples): in each region loop the three candidates
    probs[0] (diagonal), probs[1] (left), probs[2] (up) are read at the positions that the writer's layout shift of that region dictates, and the
    three moves update position / row / column accordingly -- the same table as the deterministic back-trackers."""
    pdefs, praw = parts_defs(m)
    winfo = analyse_writer(m, WRITERS[0])
    wregs = {R.name: R for R in winfo['regions']}
    with ctx.scoped(lambda r, t: False):
        for R in winfo['regions']:
            _region_rules(ctx, R, winfo['amap'], pdefs, False)
    shifts = [wregs['D'].Delta, wregs['C'].Delta, wregs['A'].Delta]
    guards_want = [('attr', ('var', 'p'), 'ri3'), ('attr', ('var', 'p'), 'ri2'), ('num', 0)]
    names = ['D', 'C', 'A-B']
    fn = 'dtw_best_path_prob'
    f = m.cfunc(fn)
    if f is None:
        raise AnalysisError('anchor vanished: C function %s' % fn)
    loops = [s for s in f.body if s.k == 'while']
    if len(loops) != 3:
        ctx.violation('R-MAP', f.file, fn, 'back-tracking loops', 'expected three region loops, found %d' % len(loops), f.line)
        return

    ro = _bt_roles(f, loops)

    def pos(e):
        t = sym.from_ir(e, atom=lambda x: {ro['RW']: 'RW', ro['RWP']: 'RWP', ro['Q']: 'Q'}.get(x[1]) if x[0] == 'var' else None)
        co = dict(t[1]) if t[0] == 'lin' else {}
        row = 'cur' if co.get('RW') == 1 else ('prev' if co.get('RWP') == 1 else None)
        return (row, t[2]) if co.get('Q') == 1 and row else None

    def moves(body):
        return _bt_moves(body, ro)
    for k, lp in enumerate(loops):
        Delta = shifts[k]
        c = lp.cond
        okg = c[0] == 'bin' and c[1] == 'and' and orient(c[2], ('var', ro['rip'])) == ('>', ('var', ro['rip']), guards_want[k]) and orient(c[3], ('var', ro['cip'])) == ('>', ('var', ro['cip']), ('num', 0))
        ctx.check(okg, 'R-MAP', f.file, fn, 'loop %s guard' % names[k], 'the %s loop must run while rip > %s and cip > 0; found %s' % (names[k], fmt(guards_want[k]), fmt(c)), lp.line)
        # candidates: first assignment probs[k] = prev - wps[...]
        cand = {}
        prev_ok = False
        for s_ in lp.body:
            if s_.k == 'assign' and s_.target == ('var', 'prev') and s_.value[0] == 'idx' and s_.value[1] == ('var', 'wps'):
                prev_ok = pos(s_.value[2]) == ('cur', 0)
            if s_.k == 'assign' and s_.target[0] == 'idx' and s_.target[1] == ('var', 'probs') and s_.target[2][0] == 'num' and s_.target[2][1] not in cand:
                v = s_.value
                if v[0] == 'bin' and v[1] == '-' and v[2] == ('var', 'prev') and v[3][0] == 'idx' and v[3][1] == ('var', 'wps'):
                    cand[s_.target[2][1]] = pos(v[3][2])
        want = {0: ('prev', Delta - 1), 1: ('cur', -1), 2: ('prev', Delta)}
        ctx.check(prev_ok and cand == want, 'R-MAP', f.file, fn, 'loop %s candidates' % names[k],
                  'with a per-row layout shift of %d the candidates must be prev - diagonal (previous row, Q%+d), prev - left (this row, Q-1), prev - up (previous row, Q%+d), '
                  'prev being the current cell; found %s' % (Delta, Delta - 1, Delta, sorted(cand.items())), lp.line)
        chain = [s_ for s_ in lp.body if s_.k == 'if' and fmt(s_.cond).replace('(', '').replace(')', '') == 'rnum < probs[0]']
        if len(chain) != 1:
            ctx.violation('R-MAP', f.file, fn, 'loop %s move chain' % names[k], 'no `rnum < probs[0]` move selection found', lp.line)
            continue
        ch = chain[0]
        arms = [ch.then]
        ok_chain = len(ch.els) == 1 and ch.els[0].k == 'if' and fmt(ch.els[0].cond).replace('(', '').replace(')', '') == 'rnum < probs[1]'
        if ok_chain:
            arms += [ch.els[0].then, ch.els[0].els]
        if not ok_chain or len(arms) != 3:
            ctx.violation('R-MAP', f.file, fn, 'loop %s move chain' % names[k], 'expected the cumulative chain rnum < probs[0] (diagonal) / rnum < probs[1] (left) / else (up)', ch.line)
            continue
        md, ml, mu = moves(arms[0]), moves(arms[1]), moves(arms[2])
        okm = md == {'Q': Delta - 1, 'rip': -1, 'cip': -1, 'rowshift': True} and ml == {'Q': -1, 'rip': 0, 'cip': -1, 'rowshift': False} \
            and mu == {'Q': Delta, 'rip': -1, 'cip': 0, 'rowshift': True}
        ctx.check(okm, 'R-MAP', f.file, fn, 'loop %s moves' % names[k],
                  'moves must be diagonal (row-1, col-1, Q%+d), left (col-1, Q-1), up (row-1, Q%+d) with the row bases shifted on every row change; found diag=%s left=%s up=%s'
                  % (Delta - 1, Delta, md, ml, mu), ch.line)
        # cumulative probabilities: probs[1] = (probs[0] + probs[1]) / sum before probs[0] = probs[0] / sum, probs[2] = 1
        order = [fmt(s_.target) for s_ in lp.body if s_.k == 'assign' and s_.target[0] == 'idx' and s_.target[1] == ('var', 'probs')]
        ctx.check(order[-3:] == ['probs[2]', 'probs[1]', 'probs[0]'], 'R-MAP', f.file, fn, 'loop %s cumulative order' % names[k],
                  'the cumulative thresholds must be formed as probs[2] = 1, probs[1] = (probs[0] + probs[1]) / sum, then probs[0] = probs[0] / sum '
                  '(probs[0] is overwritten last); found order %s' % order[-3:], lp.line)


def rule_wps_exits(ctx, m):
    """The compact writers honour max_length_diff like the distance-only routine, and their psi_2e end scan stays inside
    the band of the last row."""
    pdefs, praw = parts_defs(m)
    for fname in WRITERS:
        info = analyse_writer(m, fname)
        f = info['func']
        amap = kernels.AtomMap('c', [p[0] for p in f.params][1:5] + ['settings'], ('settings',))

        class AM:
            def __call__(self, e):
                if e[0] == 'var' and e[1] == 'l1':
                    return 'L1'
                if e[0] == 'var' and e[1] == 'l2':
                    return 'L2'
                if e[0] == 'attr' and e[1] == ('var', 'settings'):
                    return kernels._SETTINGS_ATOM.get(e[2], 'S_' + e[2])
                if e[0] == 'attr' and e[1] == ('var', 'p'):
                    return 'P_' + e[2]
                if e[0] == 'var':
                    return e[1]
                return None
        kern.rule_length_diff_exit(ctx, fname, f.file, info['prologue'].events, AM(), f.line)
        # psi_2e scan: `for (ci = l2-1; ci > l2-psi_2e-2; ci--) { ...; wpsi -= 1; }` visits N = psi_2e + 1 positions going left from the last column
        regs = info['regions']
        scans = []
        for e in info['epilogue'].events:
            if e[0] == 'loop' and e[2].k == 'loop':
                lp = e[2]
                oc = orient(lp.cond, lp.init[0].target) if lp.cond is not None and len(lp.init) == 1 and lp.init[0].k == 'assign' else None
                if oc is not None and oc[0] == '>' \
                        and any(t.k == 'assign' and t.target == ('var', regs[-1].wvar) and t.value == ('bin', '-', ('var', regs[-1].wvar), ('num', 1)) for t in lp.body):
                    n = sym.from_ir(('bin', '-', lp.init[0].value, oc[2]), atom=AM())
                    scans.append((lp, n))
        if not scans:
            ctx.undecided('R-CLAMP', '%s psi_2e scan' % fname, 'scan loop not recognised')
            continue
        lp, n = scans[0]
        # available in-band positions to the left of the last column in the last row: (L2 - 1) - c0(L1 - 1), per region containing row L1-1
        done = False
        for R in regs:
            guards = [sub(sub(V('L1'), C(1)), R.lo), sub(R.hi, V('L1')), V('PSI2E'), sub(V('L2'), V('PSI2E'))]
            avail = sub(sub(V('L2'), C(1)), sym.subst(R.c0, {'ri': sub(V('L1'), C(1))}))
            over = tmax(C(0), sub(sub(n, C(1)), add(avail, C(1))))      # one position left of the band is the (infinite) boundary/prefix cell
            r = decide_equal(pdefs, over, C(0), guards, extra_atoms=('PSI2E',), box={'L1': range(1, 11, 3), 'L2': range(1, 11, 3), 'W': range(0, 4), 'PSI2E': range(0, 10)})
            inst = '%s psi_2e scan stays in the band (last row in region %s)' % (fname, R.name)
            if r[0] == 'equal':
                ctx.held('R-CLAMP', inst)
            elif r[0] == 'differ' and not done:
                done = True
                ctx.violation('R-CLAMP', f.file, fname, 'psi_2e scan range',
                              'the last-row relaxation walks %s positions to the left of the last column without clamping to the band: at %s it leaves the band by %s '
                              'cell(s) and reads cells that belong to other columns/rows of the compact matrix (a wrong, smaller value is returned)' % (sym.show(n), kern._fmtw(r[1]), r[2]),
                              lp.line, facts={'witness': r[1], 'failset': r[4]})
            elif r[0] == 'unknown':
                ctx.undecided('R-CLAMP', inst, r[1])


def rule_direct_identity(ctx, m):
    """When the pyx wrappers use the caller's full matrix directly as compact buffer (required width == len2 + 1 and
    required length == rows * cols), the compact layout must coincide with the full matrix: position q holds matrix
    column q in EVERY row, i.e. delta = -1 in every non-empty region."""
    pdefs, praw = parts_defs(m)
    info = analyse_writer(m, WRITERS[0])
    f = info['func']
    for R in info['regions']:
        guards = [sub(V('ri'), R.lo), sub(sub(R.hi, V('ri')), C(1)), sub(V('P_width'), add(V('L2'), C(1))), sub(add(V('L2'), C(1)), V('P_width'))]
        r = decide_equal(pdefs, R.delta, C(-1), guards)
        inst = '%s region %s identity layout when width == len2 + 1' % (WRITERS[0], R.name)
        if r[0] == 'equal':
            ctx.held('R-MAP', inst, 'proved in %d regimes' % r[1])
        elif r[0] == 'differ':
            wv = r[1]
            ctx.violation('R-MAP', m.pyx('dtw_cc').path, 'warping_paths', 'direct matrix with shifted region %s' % R.name,
                          'the wrappers write straight into the caller\'s (len1+1) x (len2+1) matrix whenever the compact width equals len2 + 1, but in region %s the '
                          'compact layout is shifted (position q holds column q%+d, not q-1): at %s the rows of that region come out shifted in the returned full matrix '
                          '(the distance is right, the matrix and every path traced from it are not)' % (R.name, r[2], kern._fmtw(wv)), R.loop.line, facts={'witness': wv, 'failset': r[4]})
        else:
            ctx.undecided('R-MAP', inst, r[1])
