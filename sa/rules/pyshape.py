"""Structural rules on the Python layer: R-PATH instances (C12-C16), R-TAB (encoder/decoder tables), R-EFF (Python),
R-SAN (contiguity before raw pointers)."""
import os
from ..cfront import AnalysisError
from ..ir import fmt, walk_stmts, walk_expr, stmt_exprs, dotted, sub_blocks, orient
from ..model import calls_in
from ..symexec import assigned_vars
from .. import sym
from .iterspace import paths_increments

INF = float('inf')


def _func(m, mod, q):
    pm = m.py(mod)
    f = pm.funcs.get(q)
    if f is None:
        raise AnalysisError('anchor vanished: %s.%s' % (mod, q))
    return pm, f


def _calls(stmts, name_pred):
    out = []
    for s, c in calls_in(stmts):
        d = dotted(c[1]) or ''
        if name_pred(d):
            out.append((s, c))
    return out


def _kw(call, k):
    for kk, v in call[3]:
        if kk == k:
            return v
    return None


def _is_inf(e):
    return e == ('num', INF) or e == ('attr', ('var', 'np'), 'inf')


# ================================================================================================= C12 (Python DBA)
def _bool_eval(c, assign):
    """Three-valued evaluation of a boolean IR expression under a partial assignment of atoms (IR expr -> bool); None = unknown."""
    if c in assign:
        return assign[c]
    if c[0] == 'bool':
        return c[1]
    if c[0] == 'un' and c[1] == 'not':
        v = _bool_eval(c[2], assign)
        return None if v is None else (not v)
    if c[0] == 'bin' and c[1] in ('and', 'or'):
        a, b = _bool_eval(c[2], assign), _bool_eval(c[3], assign)
        if c[1] == 'and':
            if a is False or (a is True and b is False):
                return False
            if a is True and b is True:
                return True
            return None
        if a is True or (a is False and b is True):
            return True
        if a is False and b is False:
            return False
        return None
    return None


def rule_dba_py(ctx, m):
    pm, f = _func(m, 'dtaidistance.dtw_barycenter', 'dba')
    file = pm.path
    # accumulation: for i, j in <path>: assoctab[i].append(seq[j])  -- under the mask
    main = None
    for s in f.body:
        if s.k == 'foreach' and s.iter[0] == 'call' and dotted(s.iter[1]) == 'enumerate':
            if any(x[0] == 'call' and x[1][0] == 'attr' and x[1][2] == 'append' for st in walk_stmts(s.body) for e in stmt_exprs(st) for x in walk_expr(e)):
                main = s
    if main is None:
        raise AnalysisError('unrecognised shape: series loop of dtw_barycenter.dba')
    idxv, seqv = main.target[1][0], main.target[1][1]
    first = main.body[0] if main.body else None
    maskn = f.args[2] if len(f.args) > 2 else 'mask'
    ok_mask = False
    if first is not None and first.k == 'if' and first.then and first.then[-1].k == 'continue' and not first.els:
        # truth table over A = (mask is None), B = mask[idx]: the series is skipped exactly when (not A) and (not B)
        A, B = ('bin', 'is', ('var', maskn), ('none',)), ('idx', ('var', maskn), idxv)
        ok_mask = True
        for a in (False, True):
            for b in (False, True):
                v = _bool_eval(first.cond, {A: a, ('bin', 'isnot', ('var', maskn), ('none',)): not a, B: b})
                if a and v is None:
                    # mask is None: mask[idx] must not be what decides (it would raise): evaluate with B unknown
                    v = _bool_eval(first.cond, {A: a, ('bin', 'isnot', ('var', maskn), ('none',)): not a})
                ok_mask = ok_mask and v is ((not a) and (not b))
    ctx.check(ok_mask, 'R-PATH', file, 'dba', 'mask guard', 'unselected series must be skipped (`if mask is not None and not mask[idx]: continue`) before any accumulation', main.line)
    acc = None
    for st in main.body:
        if st.k == 'foreach' and st.target[0] == 'tuple' and len(st.target[1]) == 2:
            for t in st.body:
                if t.k == 'expr' and t.value[0] == 'call' and t.value[1][0] == 'attr' and t.value[1][2] == 'append':
                    acc = (st, t)
    ok = False
    if acc:
        st, t = acc
        i_, j_ = st.target[1]
        tgt_ = t.value[1][1]
        ok = tgt_[0] == 'idx' and tgt_[1][0] == 'var' and tgt_[2] == i_ and t.value[2] == (('idx', seqv, j_),) and len(st.body) == 1
        # the path is between (c, seq): first index addresses the average
        pathv = st.iter
        srcs = [s_ for s_ in walk_stmts(main.body) if s_.k == 'assign' and s_.target == pathv]
        ok_args = bool(srcs) and all(s_.value[0] == 'call' and s_.value[2][:2] == (('var', 'c'), seqv) for s_ in srcs)
        unknown = [fmt(s_.value[1]) for s_ in srcs if s_.value[0] == 'call' and not (dotted(s_.value[1]) or '').split('.')[-1].startswith('warping_path')]
        if ok_args and unknown:
            ctx.undecided('R-PATH', 'dba path arguments', 'the path comes from %s, not from a warping-path routine' % unknown)
        else:
            ctx.check(ok_args, 'R-PATH', file, 'dba', 'path arguments', 'every warping path must be computed between (current average c, series): position i of the pair indexes the average', main.line)
    ctx.check(ok, 'R-PATH', file, 'dba', 'accumulation', 'each path pair (i, j) must append seq[j] to assoctab[i] exactly once', main.line)
    # mean
    okm = False
    sdefs = {}
    for s in walk_stmts(f.body):
        if s.k == 'assign' and s.target[0] == 'var':
            sdefs.setdefault(s.target[1], []).append(s.value)
    sdefs = {k_: v_[0] for k_, v_ in sdefs.items() if len(v_) == 1}
    for s in walk_stmts(f.body):
        # the mean store: <new average>[...] = <sum-like>(V) / len(V) for one and the same V
        val = s.value if s.k == 'assign' else None
        if val is not None and val[0] == 'bin' and val[1] == '/' and val[3][0] == 'var' and val[3][1] in sdefs:
            val = ('bin', '/', val[2], sdefs[val[3][1]])          # the count held in a local
        if s.k == 'assign' and s.target[0] == 'idx' and s.target[1][0] == 'var' and val[0] == 'bin' and val[1] == '/' \
                and val[3][0] == 'call' and val[3][1] == ('var', 'len'):
            num, den = val[2], val[3]
            vv = den[2][0] if len(den[2]) == 1 else None
            if vv is not None and num[0] == 'call' and dotted(num[1]) == 'sum' and any(x == vv for a in num[2] for x in walk_expr(a)):
                okm = True
            else:
                okm = False
                break
    ctx.check(okm, 'R-PATH', file, 'dba', 'mean', 'the new average must be sum(values) / len(values) per position (and per dimension)', f.line)
    # dba_loop
    pm, g = _func(m, 'dtaidistance.dtw_barycenter', 'dba_loop')
    loop = None
    for s in g.body:
        if s.k == 'for' and s.hi == ('var', 'max_it'):
            loop = s
    ctx.check(loop is not None and loop.lo == ('num', 0), 'R-PATH', file, 'dba_loop', 'iteration bound', 'the averaging loop must be `for it in range(max_it)`', g.line)
    if loop is None:
        return
    # exactly one update per iteration on every path
    def count_updates(stmts):
        res = set()

        def walk(ss, n):
            accs = [n]
            for s in ss:
                nxt = []
                for a in accs:
                    c = sum(1 for e in stmt_exprs(s) if s.k not in ('if', 'for', 'foreach', 'while') for x in walk_expr(e)
                            if x[0] == 'call' and (dotted(x[1]) or '') in ('dba', 'dtw_cc.dba', 'dtw_cc.dba_ndim'))
                    if s.k == 'if':
                        nxt.extend(walk(s.then, a))
                        nxt.extend(walk(s.els, a))
                    elif s.k in ('break',):
                        res.add(a)
                    elif s.k in ('continue',):
                        res.add(a)
                    else:
                        nxt.append(a + c)
                accs = nxt
            return accs
        for a in walk(stmts, 0):
            res.add(a)
        return res
    cu = count_updates(loop.body)
    ctx.check(cu == {1}, 'R-PATH', file, 'dba_loop', 'one update per iteration', 'every path through one iteration must perform exactly one DBA update (found %s)' % sorted(cu), loop.line)
    # R-EFF(b): copy before the in-place C update
    okc = True
    n = 0
    for s, c in _calls(loop.body, lambda d: d in ('dtw_cc.dba', 'dtw_cc.dba_ndim')):
        n += 1
        a1 = c[2][1] if len(c[2]) > 1 else None
        # every definition of the argument inside the iteration is a fresh copy of the running average (one definition per branch is fine; a branch that
        # hands over `c` itself lets the C routine overwrite the caller's series the initial average may alias)
        cp = [st for st in walk_stmts(loop.body) if st.k == 'assign' and st.target == a1]

        def fresh(v):
            if v == ('call', ('attr', ('var', 'c'), 'copy'), (), ()):
                return True
            if v[0] == 'call' and (dotted(v[1]) or '').split('.')[-1] in ('array', 'copy', 'ascontiguousarray_copy') and len(v[2]) >= 1 and v[2][0] == ('var', 'c') \
                    and not any(k_ == 'copy' and a_ == ('bool', False) for k_, a_ in v[3]) and (dotted(v[1]) or '').split('.')[-1] != 'asarray':
                return True
            if v[0] == 'cond':
                return fresh(v[2]) and fresh(v[3])
            return False
        okc = okc and a1 is not None and a1 != ('var', 'c') and bool(cp) and all(fresh(st.value) for st in cp)
    ctx.check(okc and n == 2, 'R-EFF', file, 'dba_loop', 'copy before in-place C update',
              'the C routine overwrites its `c` argument: it must receive a fresh `c.copy()` made in the same iteration, never `c` itself', loop.line)
    # R-TAB: packbits bit order matches bit_test (byte i/8, bit 1 << (i%8))
    pk = _calls(g.body, lambda d: d.endswith('packbits'))
    okp = len(pk) == 1 and _kw(pk[0][1], 'bitorder') == ('str', 'little')
    ctx.check(okp, 'R-TAB', file, 'dba_loop', 'mask bit order', "the mask must be packed with bitorder='little': the C engine tests bit (1 << (i % 8)) of byte i / 8", g.line)


# ================================================================================================= C13
def rule_subseq_align(ctx, m):
    mod = 'dtaidistance.subsequence.subsequencealignment'
    pm, init = _func(m, mod, 'SubsequenceAlignment.__init__')
    file = pm.path
    st = [s for s in init.body if s.k == 'assign' and s.target == ('attr', ('var', 'self'), 'settings')]
    ok = False
    if st:
        psi = _kw(st[0].value, 'psi')
        L = ('call', ('var', 'len'), (('attr', ('var', 'self'), 'series'),), ())
        ok = psi is not None and psi[0] in ('list', 'tuple') and psi[1] == (('num', 0), ('num', 0), L, L) and _kw(st[0].value, 'penalty') == ('var', 'penalty')
    ctx.check(ok, 'R-PSI', file, 'SubsequenceAlignment.__init__', 'psi encoding of subsequence DTW',
              'subsequence DTW = global DTW with psi = [0, 0, len(series), len(series)]: the query (series 1) is not relaxed, the series (series 2) fully at both ends', init.line)
    pm, al = _func(m, mod, 'SubsequenceAlignment.align')
    wcalls = _calls(al.body, lambda d: d.split('.')[-1] in ('warping_paths', 'warping_paths_fast'))
    ctx.check(len(wcalls) == 4, 'R-FWD', file, 'SubsequenceAlignment.align', 'four engines', 'expected the four warping_paths calls (1-D/n-D x Python/C), found %d' % len(wcalls), al.line)
    for s, c in wcalls:
        d = dotted(c[1])
        want = {'penalty': ('attr', ('attr', ('var', 'self'), 'settings'), 'penalty'), 'psi': ('attr', ('attr', ('var', 'self'), 'settings'), 'psi'),
                'psi_neg': ('bool', False), 'keep_int_repr': ('bool', True)}
        bad = [k for k, v in want.items() if _kw(c, k) != v]
        args_ok = c[2][:2] == (('attr', ('var', 'self'), 'query'), ('attr', ('var', 'self'), 'series'))
        ctx.check(not bad and args_ok, 'R-FWD', file, 'SubsequenceAlignment.align', 'options of %s' % d,
                  'every engine must be called as (query, series, penalty=settings.penalty, psi=settings.psi, psi_neg=False, keep_int_repr=True); '
                  'differing: %s%s' % (bad, '' if args_ok else ' and the series arguments'), s.line)
    pm, cm = _func(m, mod, 'SubsequenceAlignment._compute_matching')
    # matching = result_fn(last row) / len(query), result_fn = position 1 of the triple
    trip = [s for s in cm.body if s.k == 'assign' and s.target[0] == 'tuple' and s.value[0] == 'call' and (dotted(s.value[1]) or '').endswith('inner_dist_fns')]
    rf = trip[0].target[1][1] if trip and len(trip[0].target[1]) == 3 else None
    convs = [c for s, c in calls_in(cm.body) if rf is not None and c[1] == rf]
    last = [s for s in cm.body if s.k == 'assign' and s.target == ('attr', ('var', 'self'), 'matching')]
    ok = rf is not None and len(convs) == 1 and bool(last) and last[-1].value[0] == 'bin' and last[-1].value[1] == '/' \
        and last[-1].value[3] == ('call', ('var', 'len'), (('attr', ('var', 'self'), 'query'),), ())
    row = [s for s in cm.body if s.k == 'assign' and s.target == ('var', 'matching') and s.value[0] == 'idx' and s.value[1] == ('attr', ('var', 'self'), 'paths')]
    ok_row = bool(row) and row[0].value[2] == ('tuple', (('num', -1), ('slice', None, None, None)))
    ctx.check(ok and ok_row, 'R-DOM', file, 'SubsequenceAlignment._compute_matching', 'matching function',
              'the matching function must be result_fn(last row of the internal-domain matrix) / len(query), converted exactly once', cm.line)
    pm, bp = _func(m, mod, 'SubsequenceAlignment.matching_function_bestpath')
    bcalls = _calls(bp.body, lambda d: d.endswith('best_path'))
    ok = len(bcalls) == 1 and _kw(bcalls[0][1], 'penalty') == ('attr', ('attr', ('var', 'self'), 'settings'), 'adj_penalty') \
        and bcalls[0][1][2][:1] == (('attr', ('var', 'self'), 'paths'),)
    colv = _kw(bcalls[0][1], 'col') if bcalls else None
    env = {s.target[1]: s.value for s in bp.body if s.k == 'assign' and s.target[0] == 'var'}
    if colv is not None and colv[0] == 'var':
        colv = env.get(colv[1])
    ok = ok and colv == ('bin', '+', ('var', 'idx'), ('num', 1))
    ctx.check(ok, 'R-DOM', file, 'SubsequenceAlignment.matching_function_bestpath', 'back-tracking penalty',
              'the matrix is kept in the internal domain, so best_path must start at column idx + 1 and receive settings.adj_penalty (not the raw penalty)', bp.line)
    # _best_matches: writes-only-upper-bounds into the working copy
    pm, bm = _func(m, mod, 'SubsequenceAlignment._best_matches')
    loop = [s for s in bm.body if s.k == 'while']
    if not loop:
        raise AnalysisError('unrecognised shape: no search loop in _best_matches')
    loop = loop[0]
    # roles: W = the private working copy (a local made from self.matching); MV = the local built from max(W) used as "blanked" value;
    # BEST = the local holding np.argmin(W) inside the loop
    from ..symexec import Exec, Env, subst_expr
    from itertools import product
    from .. import sym as _sym
    pre = bm.body[:bm.body.index(loop)]
    selfm = ('attr', ('var', 'self'), 'matching')
    cp = [s for s in pre if s.k == 'assign' and s.target[0] == 'var' and s.value[0] == 'call' and (dotted(s.value[1]) or '') in ('np.array', 'np.copy', 'numpy.array', 'numpy.copy')
          and s.value[2][:1] == (selfm,)]
    direct = [s for s in walk_stmts(bm.body) if s.k == 'assign' and s.target[0] == 'idx' and s.target[1] == selfm]
    ctx.check(len(cp) == 1 and not direct, 'R-EFF', file, 'SubsequenceAlignment._best_matches', 'private working copy',
              'the search blanks entries: it must work on a copy (np.array(self.matching)) so repeated/interleaved iteration sees the same matching function', bm.line)
    if len(cp) != 1:
        return
    W = cp[0].target
    mvs = [s for s in pre if s.k == 'assign' and s.target[0] == 'var' and any(c[0] == 'call' and (dotted(c[1]) or '').endswith('max') and any(x == W for a in c[2] for x in walk_expr(a))
                                                                             for c in walk_expr(s.value))]
    MV = mvs[0].target if mvs else None
    stores = [s for s in walk_stmts(bm.body) if s.k == 'assign' and s.target[0] == 'idx' and s.target[1] == W]
    # maxv must exceed every entry: (max(W) + positive constant), possibly rounded up
    ok_maxv = False
    if mvs:
        v = mvs[0].value
        while v[0] == 'call' and (dotted(v[1]) or '').split('.')[-1] in ('ceil', 'float', 'int') and len(v[2]) == 1:
            v = v[2][0]
        ok_maxv = v[0] == 'bin' and v[1] == '+' and ((v[3][0] == 'num' and v[3][1] > 0) or (v[2][0] == 'num' and v[2][1] > 0))
    ok = bool(stores) and all(_is_inf(s.value) or (MV is not None and s.value == MV) for s in stores)
    ctx.check(ok and ok_maxv, 'R-EFF', file, 'SubsequenceAlignment._best_matches', 'writes only upper bounds',
              'inside the best-first search every store into the working copy must be +inf or maxv (> max): otherwise yielded values are not non-decreasing', loop.line)
    # one symbolic pass over the loop body
    lenv = Env()
    for v_ in assigned_vars(loop.body):
        lenv[v_] = ('var', v_ + '@in')
    ex = Exec()
    ex.run(loop.body, lenv)
    argm = ('call', ('attr', ('var', 'np'), 'argmin'), (W,), ())
    ys = [e for e in ex.events if e[0] == 'expr' and e[2][0] == 'call' and e[2][1] == ('var', '__yield__')]
    uses_argmin = any(x == argm for e in ex.events for c in e[1] for x in walk_expr(c)) or any(x == argm for e in ys for x in walk_expr(e[2]))
    other_sel = [x for e in ex.events for part in (list(e[1]) + [y for y in e[2:] if isinstance(y, tuple)]) for x in walk_expr(part)
                 if x[0] == 'call' and (dotted(x[1]) or '').split('.')[-1] in ('argmax', 'argsort', 'argpartition')]
    ctx.check(uses_argmin and not other_sel, 'R-PATH', file, 'SubsequenceAlignment._best_matches', 'best-first', 'each round must pick np.argmin(matching)', loop.line)
    # the yielded end point is blanked: W[lo:BEST+1] = inf precedes the yield on the yield's path
    okb = False
    if len(ys) == 1:
        yi = ex.events.index(ys[0])
        for e in ex.events[:yi]:
            if e[0] == 'store' and e[2][0] == 'idx' and e[2][1] == W and e[2][2][0] == 'slice' and _is_inf(e[3]) \
                    and e[2][2][2] == ('bin', '+', argm, ('num', 1)) and set(e[1]) <= set(ys[0][1]):
                okb = True
    ctx.check(len(ys) == 1 and okb, 'R-PATH', file, 'SubsequenceAlignment._best_matches', 'yielded end point blanked',
              'before a match is yielded its end point range [mb, best_idx + 1) must be set to +inf, so later matches have distinct end points', loop.line)
    # length limits: a match with segment [b, e] (both inclusive) has e - b + 1 samples; it is yielded only if not (minlength is not None and
    # length < minlength) and not (maxlength is not None and length > maxlength) -- truth table over the yield's path conditions
    limits = [a for a in bm.args if a in ('minlength', 'maxlength')]
    okl = len(ys) == 1 and len(limits) == 2
    detail = ''
    if okl:
        def seg_atom(y):
            if y[0] == 'idx' and y[1][0] == 'attr' and y[1][2] == 'segment' and y[2] in (('num', 0), ('num', 1)):
                return 'b' if y[2][1] == 0 else 'e'
            return None
        L = _sym.add(_sym.sub(_sym.var('e'), _sym.var('b')), _sym.const(1))

        def canon(x):
            """comparison of the segment length with a limit -> (atom, polarity) with atoms ('LT', limit) = length < limit, ('GT', limit) = length > limit"""
            if not (x[0] == 'bin' and x[1] in ('<', '<=', '>', '>=')):
                return None
            op, l, r = x[1], x[2], x[3]
            if l[0] == 'var' and l[1] in limits:
                l, r = r, l
                op = {'<': '>', '<=': '>=', '>': '<', '>=': '<='}[op]
            if not (r[0] == 'var' and r[1] in limits):
                return None
            try:
                t = _sym.from_ir(l, atom=seg_atom)
                d = _sym.sub(t, L)
            except Exception:  # noqa
                return ('?', r[1]), True
            if not _sym.is_const(d):
                return ('?', r[1]), True
            c_ = d[2]
            tab = {('<', 0): (('LT', r[1]), True), ('<', -1): (('GT', r[1]), False), ('<=', 1): (('LT', r[1]), True), ('<=', 0): (('GT', r[1]), False),
                   ('>', 0): (('GT', r[1]), True), ('>', 1): (('LT', r[1]), False), ('>=', 0): (('LT', r[1]), False), ('>=', -1): (('GT', r[1]), True)}
            return tab.get((op, c_), (('?', r[1]), True))
        conds = [c for c in ys[0][1] if any(x[0] == 'var' and x[1] in limits for x in walk_expr(c))]

        def leaves(c):
            if c[0] == 'un' and c[1] == 'not':
                return leaves(c[2])
            if c[0] == 'bin' and c[1] in ('and', 'or'):
                return leaves(c[2]) + leaves(c[3])
            return [c]
        others = []
        for c in conds:
            for lf in leaves(c):
                if canon(lf) is None and not (lf[0] == 'bin' and lf[1] in ('is', 'isnot') and lf[2][0] == 'var' and lf[2][1] in limits) and lf not in others:
                    others.append(lf)
        unknown = any(canon(lf) is not None and canon(lf)[0][0] == '?' for c in conds for lf in leaves(c))
        okl = bool(conds) and not unknown and len(others) <= 4
        if okl:
            for none_min, rel_min, none_max, rel_max in product((True, False), (-1, 0, 1), (True, False), (-1, 0, 1)):
                base = {}
                for lim, isn, rel in (('minlength', none_min, rel_min), ('maxlength', none_max, rel_max)):
                    base[('bin', 'is', ('var', lim), ('none',))] = isn
                    base[('bin', 'isnot', ('var', lim), ('none',))] = not isn
                    if not isn:
                        base[('LT', lim)] = rel < 0
                        base[('GT', lim)] = rel > 0
                want = not ((not none_min and rel_min < 0) or (not none_max and rel_max > 0))
                got = False
                for ov in product((False, True), repeat=len(others)):
                    asg = dict(base)
                    asg.update(dict(zip(others, ov)))

                    def ev(c):
                        if c[0] == 'un' and c[1] == 'not':
                            v = ev(c[2])
                            return None if v is None else (not v)
                        if c[0] == 'bin' and c[1] in ('and', 'or'):
                            a = ev(c[2])
                            if c[1] == 'and' and a is False:
                                return False
                            if c[1] == 'or' and a is True:
                                return True
                            b_ = ev(c[3])
                            if a is None or b_ is None:
                                return None
                            return (a and b_) if c[1] == 'and' else (a or b_)
                        cn = canon(c)
                        if cn is not None:
                            v = asg.get(cn[0])
                            return None if v is None else (v if cn[1] else not v)
                        return asg.get(c)
                    if all(ev(c) is True for c in conds):
                        got = True
                        break
                if got != want:
                    okl = False
                    detail = 'with minlength %s, maxlength %s the match is %s' % (
                        'None' if none_min else ('> length' if rel_min < 0 else ('== length' if rel_min == 0 else '< length')),
                        'None' if none_max else ('> length' if rel_max < 0 else ('== length' if rel_max == 0 else '< length')),
                        'yielded' if got else 'never yielded')
                    break
    ctx.check(okl, 'R-PATH', file, 'SubsequenceAlignment._best_matches', 'length limits',
              'a match over series samples b..e (inclusive) has e - b + 1 samples and must be rejected exactly when that is < minlength or > maxlength; %s' % detail, loop.line)


# ================================================================================================= C14
def rule_subseq_search(ctx, m):
    mod = 'dtaidistance.subsequence.subsequencesearch'
    pm, al = _func(m, mod, 'SubsequenceSearch.align')
    file = pm.path
    loop = None
    for s in al.body:
        if s.k == 'foreach' and s.iter[0] == 'call' and dotted(s.iter[1]) == 'enumerate':
            loop = s
    if loop is None:
        raise AnalysisError('unrecognised shape: candidate loop of SubsequenceSearch.align')
    # (i) LB branch
    lb_if = None
    for s in loop.body:
        if s.k == 'if' and any(x[0] == 'call' and x[1] == ('var', 'lb_keogh') for t in walk_stmts(s.then) for e in stmt_exprs(t) for x in walk_expr(e)):
            lb_if = s
    if lb_if is None:
        raise AnalysisError('unrecognised shape: lower-bound branch of SubsequenceSearch.align')
    mentions_psi = any(x == ('str', 'psi') or (x[0] == 'attr' and x[2] == 'psi') for x in walk_expr(lb_if.cond))
    # or use_lb is switched off earlier when psi is set
    pre_guard = False
    for s in walk_stmts(al.body):
        if s.k == 'if' and any(x == ('str', 'psi') for x in walk_expr(s.cond)):
            if any(t.k == 'assign' and t.target == ('attr', ('var', 'self'), 'use_lb') and t.value == ('bool', False) for t in walk_stmts(s.then)):
                pre_guard = True
    ctx.check(mentions_psi or pre_guard, 'R-PATH', file, 'SubsequenceSearch.align', 'LB_Keogh used under psi-relaxation',
              'LB_Keogh lower-bounds DTW only without psi-relaxation; the pruning branch `if self.use_lb:` is not guarded against a psi option in dists_options, '
              'so true neighbours can be skipped', lb_if.line)
    # roles (not spellings): heap = first argument of heapq.heappush*; thr = the local that is reset from self.max_dist before the loop;
    # lb = the local assigned from lb_keogh(...); dist = the local assigned from the distance call inside the loop
    pre = al.body[:al.body.index(loop)]
    thr_defs = [s for s in pre if s.k == 'assign' and s.target[0] == 'var' and s.value[0] in ('attr', 'idx') and 'max_dist' in fmt(s.value)]
    if not thr_defs:
        raise AnalysisError('unrecognised shape: no running threshold initialised before the candidate loop of SubsequenceSearch.align')
    thr = thr_defs[-1].target
    lbs = [t.target for t in walk_stmts(lb_if.then) if t.k == 'assign' and t.target[0] == 'var' and any(x[0] == 'call' and x[1] == ('var', 'lb_keogh') for x in walk_expr(t.value))]
    lbv = lbs[0] if lbs else None
    dists_ = [t.target for t in walk_stmts(loop.body) if t.k == 'assign' and t.target[0] == 'var' and t.value[0] == 'call' and fmt(t.value[1]) in ('self.dists_fun', 'dists_fun', 'distance_fn')]
    if not dists_:
        dists_ = [t.target for t in walk_stmts(loop.body) if t.k == 'assign' and t.target[0] == 'var' and t.value[0] == 'call' and 'dist' in fmt(t.value[1]) and t.target != lbv]
    distv = dists_[0] if dists_ else None
    pushes = [(s, c) for s, c in calls_in(loop.body) if (dotted(c[1]) or '') in ('heapq.heappush', 'heapq.heappushpop')]
    heapv = pushes[0][1][2][0] if pushes and pushes[0][1][2] else None
    # (ii) strictness
    skip = [t for t in lb_if.then if t.k == 'if' and t.then and t.then[-1].k == 'continue']
    ok = len(skip) == 1 and lbv is not None and orient(skip[0].cond, lbv) == ('>', lbv, thr)
    ctx.check(ok, 'R-PRUNE', file, 'SubsequenceSearch.align', 'LB skip comparator', 'a candidate may be skipped only when `lb > max_dist` (ties must be kept)', lb_if.line)
    adm = [('bin',) + o for s in walk_stmts(loop.body) if s.k == 'if' for x in walk_expr(s.cond) for o in [orient(x, distv)] if o is not None and o[0] in ('<', '<=') and o[2] == thr]
    ctx.check(bool(adm) and all(x[1] == '<=' for x in adm), 'R-PRUNE', file, 'SubsequenceSearch.align', 'admission comparator',
              'a candidate is admitted when `dist <= max_dist` (a distance equal to the current k-th best must not be dropped)', loop.line)
    # (iii) threshold re-read after every push
    ok = len(pushes) == 2 and heapv is not None and all(c[2][0] == heapv for _s, c in pushes)
    want = ('call', ('var', 'min'), (thr, ('un', 'neg', ('idx', ('idx', heapv, ('num', 0)), ('num', 0)))), ())
    for s, c in pushes:
        # the statements executed after the push inside this iteration: the rest of its block, then of the enclosing blocks
        nxt = None
        for t in _continuation(loop.body, s):
            if any(x == thr for e in stmt_exprs(t) for x in walk_expr(e)) or sub_blocks(t):
                nxt = t
                break
        ok = ok and nxt is not None and nxt.k == 'assign' and nxt.target == thr and nxt.value == want
    ctx.check(ok, 'R-PATH', file, 'SubsequenceSearch.align', 'threshold follows heap root',
              'after every heappush/heappushpop the running threshold must be tightened to min(max_dist, -h[0][0])', loop.line)
    fw = [s for s in walk_stmts(loop.body) if s.k == 'assign' and s.target == ('idx', ('attr', ('var', 'self'), 'dists_options'), ('str', 'max_dist')) and s.value == thr]
    ctx.check(bool(fw), 'R-PATH', file, 'SubsequenceSearch.align', 'threshold forwarded', 'the tightened threshold must be written to dists_options["max_dist"] for the next distance call', loop.line)
    # (iv) distances[idx] defined on every path through an iteration
    st = [s for s in walk_stmts(loop.body) if s.k == 'assign' and s.target == ('idx', ('attr', ('var', 'self'), 'distances'), loop.target[1][0])]
    conts = [s for s in walk_stmts(loop.body) if s.k == 'continue']
    bad = [c for c in conts if not any(s.line < c.line for s in st)]
    ctx.check(bool(st) and not bad, 'R-PATH', file, 'SubsequenceSearch.align', 'distances[idx] on the skip path',
              'when all distances are kept (k is None or keep_all_distances) the lower-bound `continue` leaves self.distances[idx] at its initial 0: skipped '
              'candidates later rank as perfect matches', (bad[0].line if bad else loop.line))
    # (vi) reset of the threshold from self.max_dist before the loop
    r1 = any(s.k == 'assign' and s.target == thr and s.value == ('attr', ('var', 'self'), 'max_dist') for s in pre)
    r2 = any(s.k == 'assign' and s.target == ('idx', ('attr', ('var', 'self'), 'dists_options'), ('str', 'max_dist')) and s.value == thr for s in pre)
    ctx.check(r1 and r2, 'R-PATH', file, 'SubsequenceSearch.align', 'threshold reset', 'every non-cached align must restart from self.max_dist (also in dists_options), not from the threshold left by the previous search', al.line)
    # sentinel and ordering
    kb = [s for s in walk_stmts(al.body) if s.k == 'assign' and s.target == ('attr', ('var', 'self'), 'kbest_distances')]
    ok = any(s.value[0] == 'call' and s.value[1] == ('var', 'sorted') and 'i != -1' in fmt(s.value).replace('(', '').replace(')', '') for s in kb)
    hinit = [s for s in al.body if s.k == 'assign' and s.target == heapv]
    ok2 = bool(hinit) and fmt(hinit[0].value).replace(' ', '') in ('[(-inf,-1)]', '[(-np.inf,-1)]')
    ctx.check(ok and ok2, 'R-PATH', file, 'SubsequenceSearch.align', 'sentinel filtered, ascending order',
              'the heap starts with the sentinel (-inf, -1); the result must be sorted ascending with the sentinel (i == -1) removed', al.line)
    # cache hit returns the first k of a list computed for a larger k, and records nothing stale
    first = al.body[0]
    okc = first.k == 'if' and first.then and first.then[0].k == 'return' and first.then[0].value == ('idx', ('attr', ('var', 'self'), 'kbest_distances'), ('slice', None, ('var', 'k'), None)) \
        and _implies_le(first.cond, ('var', 'k'), ('attr', ('var', 'self'), 'k'))
    ctx.check(okc, 'R-PATH', file, 'SubsequenceSearch.align', 'cache reuse', 'cached results may be reused only when k <= the k they were computed for, and only their first k entries', al.line)
    setk = [s for s in al.body if s.k == 'assign' and s.target == ('attr', ('var', 'self'), 'k') and s.value == ('var', 'k')]
    # the result view clamps the requested k to the k the cached result was computed for: k_eff = min(k, ss.k)
    _pm, ini = _func(m, mod, 'SSMatches.__init__')
    clamp = None
    for s_ in walk_stmts(ini.body):
        if s_.k == 'if':
            chain = [s_]
            while len(chain[-1].els) == 1 and chain[-1].els[0].k == 'if':
                chain.append(chain[-1].els[0])
            for arm in chain:
                if any(t.k == 'assign' and fmt(t.target) == 'self.k' and fmt(t.value) == 'self.ss.k' for t in arm.then):
                    clamp = arm
    okc2 = False
    found = None
    if clamp is not None:
        for x in walk_expr(clamp.cond):
            if x[0] == 'bin' and x[1] in ('<', '<=', '>', '>=') and {fmt(x[2]), fmt(x[3])} == {'self.k', 'self.ss.k'}:
                op = x[1] if fmt(x[2]) == 'self.k' else {'<': '>', '<=': '>=', '>': '<', '>=': '<='}[x[1]]
                found = 'self.k %s self.ss.k' % op
                okc2 = op in ('>', '>=')
    ctx.check(okc2, 'R-PATH', file, 'SSMatches.__init__', 'k clamp',
              'the number of matches shown is min(requested k, k the stored result was computed for): the stored k replaces the requested one only when the request is LARGER; found %s'
              % found, ini.line)
    ctx.check(bool(setk), 'R-PATH', file, 'SubsequenceSearch.align', 'k recorded', 'a fresh search must record the k it was computed for (self.k = k)', al.line)


def _implies_le(cond, a, b):
    """Some conjunct of cond states a <= b (as `a <= b`, `b >= a`, or `not (a > b)` / `not (b < a)`)."""
    from .kern import _conj
    for c in _conj([cond]):
        neg = False
        while c[0] == 'un' and c[1] == 'not':
            c, neg = c[2], not neg
        o = orient(c, a)
        if o is None or o[2] != b:
            continue
        if (not neg and o[0] == '<=') or (neg and o[0] == '>'):
            return True
    return False


def _continuation(stmts, target):
    """Statements that follow `target` on the way out of the nested blocks of stmts (rest of its block, rest of the parent block, ...)."""
    for i, s in enumerate(stmts):
        if s is target:
            return list(stmts[i + 1:])
        for b in sub_blocks(s):
            if any(x is target for x in walk_stmts(b)):
                inner = _continuation(b, target)
                if s.k in ('for', 'foreach', 'while', 'loop'):
                    return inner
                return inner + list(stmts[i + 1:])
    return []


def _block_of(stmts, target):
    for s in stmts:
        if s is target:
            return stmts
        for b in sub_blocks(s):
            r = _block_of(b, target)
            if r is not None:
                return r
    return None


# ================================================================================================= C15
def rule_hierarchical(ctx, m):
    mod = 'dtaidistance.clustering.hierarchical'
    pm, f = _func(m, mod, 'Hierarchical.fit')
    file = pm.path
    loop = [s for s in f.body if s.k == 'while']
    if len(loop) != 1:
        raise AnalysisError('unrecognised shape: merge loop of Hierarchical.fit')
    loop = loop[0]
    # guard
    c = loop.cond
    ok = c[0] == 'bin' and c[1] == 'and' and c[2] == ('bin', '<=', ('var', 'min_value'), ('attr', ('var', 'self'), 'max_dist')) \
        and c[3] == ('un', 'not', ('call', ('attr', ('var', 'np'), 'isinf'), (('var', 'min_value'),), ()))
    ctx.check(ok, 'R-PATH', file, 'Hierarchical.fit', 'merge guard', 'merging continues exactly while min_value <= self.max_dist and min_value is finite; found %s' % fmt(c), loop.line)
    # writes-only-inf
    stores = [s for s in walk_stmts(loop.body) if s.k == 'assign' and s.target[0] == 'idx' and s.target[1] == ('var', 'dists')]
    ctx.check(bool(stores) and all(_is_inf(s.value) for s in stores), 'R-EFF', file, 'Hierarchical.fit', 'writes only +inf',
              'inside the merge loop every store into the distance matrix must be +inf: otherwise successive minima are not non-decreasing', loop.line)
    # blanking ranges
    i2 = ('var', 'i2')
    rows = cols = False
    for s in loop.body:
        if s.k == 'for' and len(s.body) == 1 and s.body[0].k == 'assign' and s.body[0].target[0] == 'idx' and s.body[0].target[1] == ('var', 'dists'):
            t = s.body[0].target[2]
            if s.lo == ('num', 0) and s.hi == i2 and t == ('tuple', (('var', s.var), i2)):
                rows = True
            nlen_ = ('call', ('var', 'len'), (('var', 'series'),), ())
            nvars_ = {t_.target for t_ in walk_stmts(f.body) if t_.k == 'assign' and t_.target[0] == 'var' and t_.value == nlen_}
            if s.lo == ('bin', '+', i2, ('num', 1)) and t == ('tuple', (i2, ('var', s.var))) and (s.hi == nlen_ or s.hi in nvars_):
                cols = True
    ctx.check(rows and cols, 'R-PATH', file, 'Hierarchical.fit', 'blanking of the merged series',
              'after merging i2 into i1, column i2 above the diagonal (rows 0..i2-1) and row i2 right of it (columns i2+1..n-1) must be blanked', loop.line)
    dl = [s for s in loop.body if s.k == 'expr' and s.value == ('call', ('attr', ('var', 'deleted'), 'add'), (i2,), ())]
    ctx.check(len(dl) == 1, 'R-PATH', file, 'Hierarchical.fit', 'merged series retired', 'each merge must add i2 to `deleted` exactly once', loop.line)
    # recomputation of the minimum from the same matrix after the blanking, on the path back to the guard
    order = {id(t): k_ for k_, t in enumerate(walk_stmts(loop.body))}          # execution order inside one iteration (expanded helpers keep their own line numbers)
    gv = c[2][2] if c[0] == 'bin' and c[2][0] == 'bin' and c[2][2][0] == 'var' else ('var', 'min_value')      # the guard variable
    mv = [s for s in loop.body if s.k == 'assign' and s.target == gv]
    ok = bool(mv) and mv[-1].value == ('call', ('attr', ('var', 'np'), 'min'), (('var', 'dists'),), ()) and all(order[id(mv[-1])] > order[id(s)] for s in stores)
    mi = [s for s in walk_stmts(loop.body) if s.k == 'assign' and s.target[0] == 'var'
          and s.value == ('call', ('attr', ('var', 'np'), 'argwhere'), (('bin', '==', ('var', 'dists'), gv),), ())]
    ok = ok and bool(mi) and order[id(mi[-1])] > order[id(mv[-1])]
    ctx.check(ok, 'R-PATH', file, 'Hierarchical.fit', 'minimum recomputed', 'after blanking, min_value = np.min(dists) and the argmin candidates must be recomputed from the same matrix before the guard is re-evaluated', loop.line)
    # bookkeeping
    txt = [fmt(x) for s in loop.body for x in ([s.cond] if s.k == 'if' else [])]
    upd = [s for s in walk_stmts(loop.body) if s.k == 'expr' and s.value[0] == 'call' and s.value[1] == ('attr', ('idx', ('var', 'cluster_idx'), ('var', 'i1')), 'update')
           and s.value[2] == (('idx', ('var', 'cluster_idx'), i2),)]
    dele = [s for s in walk_stmts(loop.body) if s.k == 'delete' and s.targets == [('idx', ('var', 'cluster_idx'), i2)]]
    addi = [s for s in walk_stmts(loop.body) if s.k == 'expr' and s.value == ('call', ('attr', ('idx', ('var', 'cluster_idx'), ('var', 'i1')), 'add'), (i2,), ())]
    seed = [s for s in walk_stmts(loop.body) if s.k == 'assign' and s.target == ('idx', ('var', 'cluster_idx'), ('var', 'i1')) and s.value == ('set', (('var', 'i1'),))]
    ctx.check(len(upd) == 1 and len(dele) == 1 and len(addi) == 1 and len(seed) == 1, 'R-PATH', file, 'Hierarchical.fit', 'cluster bookkeeping',
              'a merge must move the members of i2 (or i2 itself) into cluster i1 and remove key i2', loop.line)
    # epilogue: singletons -- on the paths of the final loop: a series that is not deleted and not yet a key becomes {i}
    from ..symexec import deep_events
    epi = f.body[f.body.index(loop) + 1:]
    nlen = ('call', ('var', 'len'), (('var', 'series'),), ())
    nvars = {t.target for t in walk_stmts(f.body) if t.k == 'assign' and t.target[0] == 'var' and t.value == nlen}
    ok = False
    for ev, lps in deep_events(epi):
        if ev[0] != 'store' or len(lps) != 1 or lps[0].k != 'for':
            continue
        lp_ = lps[0]
        iv_ = ('var', lp_.var)
        if not (lp_.lo == ('num', 0) and (lp_.hi == nlen or lp_.hi in nvars)):
            continue
        if ev[2] == ('idx', ('var', 'cluster_idx'), iv_) and ev[3] == ('set', (iv_,)):
            conds = set(ev[1])
            ok = ('bin', 'notin', iv_, ('var', 'deleted')) in conds and ('bin', 'notin', iv_, ('var', 'cluster_idx')) in conds
    ctx.check(ok, 'R-PATH', file, 'Hierarchical.fit', 'singletons', 'every series that was never merged away must end up as (at least) a singleton cluster keyed by itself', f.line)
    # tree variant
    pm, tinit = _func(m, mod, 'HierarchicalTree.__init__')
    ok = any(s.k == 'assign' and s.target == ('attr', ('attr', ('var', 'self'), '_model'), 'max_dist') and _is_inf(s.value) for s in walk_stmts(tinit.body))
    ctx.check(ok, 'R-PATH', file, 'HierarchicalTree.__init__', 'max_dist forced to infinity', 'a single rooted tree needs every merge: max_dist must be reset to infinity', tinit.line)
    pm, tfit = _func(m, mod, 'HierarchicalTree.fit')
    hook = pm.funcs.get('HierarchicalTree.fit.<locals>.merge_hook')
    if hook is None:
        raise AnalysisError('anchor vanished: merge hook of HierarchicalTree.fit')
    # decided on one symbolic pass over the hook: the row appended, then the two updates of the node map, in that order
    from ..symexec import Exec, Env
    hex_ = Exec()
    hex_.run(hook.body, Env())
    fa, ta, da = [('var', a) for a in hook.args[:3]]
    lk = ('attr', ('var', 'self'), 'linkage')
    apps = [k_ for k_, e in enumerate(hex_.events) if e[0] == 'expr' and e[2][0] == 'call' and e[2][1] == ('attr', lk, 'append')]
    sts = [(k_, e) for k_, e in enumerate(hex_.events) if e[0] == 'store' and e[2][0] == 'idx' and e[2][1][0] == 'var']
    ok = len(apps) == 1
    ok_ni = False
    if ok:
        row = hex_.events[apps[0]][2][2][0]
        nm = sts[0][1][2][1] if sts else None          # the node map
        ok = row[0] == 'tuple' and row[1][:3] == (('idx', nm, fa), ('idx', nm, ta), da)
        from ..canon import canon_expr
        want_id = canon_expr(('bin', '+', ('call', ('var', 'len'), (('attr', ('var', 'self'), 'series'),), ()), ('call', ('var', 'len'), (lk,), ())))
        nn = [(k_, e) for k_, e in sts if e[2] == ('idx', nm, ta) and e[3] == want_id]
        rt = [(k_, e) for k_, e in sts if e[2] == ('idx', nm, fa) and e[3] == ('none',)]
        ok = ok and len(nn) == 1 and len(rt) == 1 and len(sts) == 2 and all(k_ > apps[0] for k_, e in sts)
        # the new id is n + len(linkage) *before* the row is appended: its definition precedes the append
        order = {id(t): k_ for k_, t in enumerate(walk_stmts(hook.body))}
        ap_s = hex_.events[apps[0]][3]
        nid = [t for t in walk_stmts(hook.body) if t.k == 'assign' and t.value == want_id]
        ok_ni = bool(nn) and (len(nid) == 1 and order[id(nid[0])] < order[id(ap_s)])
        # reads of the node map that feed the row precede the updates (locals holding them are defined before the stores)
        st_s = [e[4] for k_, e in sts]
        rd = [t for t in walk_stmts(hook.body) if t.k == 'assign' and t.target[0] == 'var' and t.value[0] == 'idx' and t.value[1] == nm]
        ok = ok and all(order[id(t)] < min(order[id(x)] for x in st_s) for t in rd)
    ctx.check(ok and ok_ni, 'R-PATH', file, 'HierarchicalTree.fit', 'linkage hook',
              'each merge must append exactly one row (node(from), node(to), distance, .), map to_idx to the new node id n + len(linkage) and retire from_idx', hook.line)
    inst = [s for s in tfit.body if s.k == 'assign' and s.target == ('attr', ('attr', ('var', 'self'), '_model'), 'merge_hook')]
    ctx.check(len(inst) == 2 and inst[0].value == ('var', 'merge_hook'), 'R-PATH', file, 'HierarchicalTree.fit', 'hook installed and restored', 'the linkage hook must be installed for the fit and the previous hook restored afterwards', tfit.line)
    reset = any(s.k == 'assign' and s.target == ('attr', ('var', 'self'), 'linkage') and s.value == ('list', ()) for s in tfit.body)
    ctx.check(reset, 'R-PATH', file, 'HierarchicalTree.fit', 'linkage reset', 'repeated fit calls must start from an empty linkage', tfit.line)
    # linkage tree
    pm, lf = _func(m, mod, 'LinkageTree.fit')
    loop = [s for s in walk_stmts(lf.body) if s.k == 'for']
    ok = False
    n = ('call', ('var', 'len'), (('var', 'series'),), ())
    if loop:
        from .. import sym as _sym
        from ..symexec import subst_expr
        lp = loop[0]
        pex = Exec()
        penv = Env()
        from .iterspace import _run_until
        _run_until(pex, lf.body, penv, lp)
        benv = penv.copy()
        for v_ in assigned_vars(lp.body):
            benv[v_] = ('var', v_ + '@in')
        benv[lp.var] = ('var', 'r')
        bex = Exec()
        out = bex.run(lp.body, benv)
        atom = lambda e: 'N' if e == n else (e[1] if e[0] == 'var' else None)
        T = lambda e: _sym.from_ir(e, atom=atom)
        N, R_ = _sym.var('N'), _sym.var('r')
        step = _sym.sub(_sym.sub(N, R_), _sym.const(1))
        sts = [e for e in bex.events if e[0] == 'store' and e[2][0] == 'idx' and e[2][2][0] == 'slice']
        try:
            ok = T(subst_expr(lp.lo, penv)) == _sym.const(0) and T(subst_expr(lp.hi, penv)) == _sym.sub(N, _sym.const(1)) and len(sts) == 1 and out is not None
            if ok:
                tgt, val = sts[0][2], sts[0][3]
                cnt = tgt[2][1]                                   # the running offset (as it enters the iteration)
                ok = cnt[0] == 'var' and cnt[1].endswith('@in') and tgt[2][3] is None and _sym.sub(T(tgt[2][2]), T(cnt)) == step
                ok = ok and val[0] == 'idx' and val[2] == ('tuple', (('var', 'r'), ('slice', ('bin', '+', ('var', 'r'), ('num', 1)), None, None)))
                ok = ok and _sym.sub(T(out.get(cnt[1][:-3])), T(cnt)) == step
                init = penv.get(cnt[1][:-3])
                ok = ok and init == ('num', 0)
        except _sym.Unsupported:
            ok = False
    ctx.check(ok, 'R-ITER', file, 'LinkageTree.fit', 'condensed fill', 'the condensed vector must be filled row-major with dists[r, r+1:] at offsets advancing by n - r - 1 (SciPy order)', lf.line)
    pm, sc = _func(m, mod, 'LinkageTree._size_cond')
    # n: the argument itself or the local holding int(argument)
    nn = ('var', sc.args[-1])
    for t_ in sc.body:
        if t_.k == 'assign' and t_.target[0] == 'var' and t_.value in (nn, ('call', ('var', 'int'), (nn,), ())):
            nn = t_.target
            break
    want_sz = canon_expr(('bin', '/', ('bin', '*', nn, ('bin', '-', nn, ('num', 1))), ('num', 2)))
    ok = any(s.k == 'return' and s.value in (want_sz, ('call', ('var', 'int'), (want_sz,), ()), ('bin', '//', want_sz[2], ('num', 2))) for s in sc.body)
    ctx.check(ok, 'R-ITER', file, 'LinkageTree._size_cond', 'condensed length', 'the condensed vector has n(n-1)/2 entries', sc.line)


# ================================================================================================= C16
def rule_kmeans(ctx, m):
    mod = 'dtaidistance.clustering.kmeans'
    pm, f = _func(m, mod, 'KMeans.fit')
    file = pm.path
    loop = None
    for s in f.body:
        if s.k == 'foreach' and s.iter == ('var', 'it_nbs'):
            loop = s
    if loop is None:
        raise AnalysisError('unrecognised shape: iteration loop of KMeans.fit')
    li = f.body.index(loop)
    pre, post = f.body[:li], f.body[li + 1:]
    # iteration counter
    init = [s for s in pre if s.k == 'assign' and s.target == ('var', 'performed_it')]
    rng = [s for s in pre if s.k == 'assign' and s.target == ('var', 'it_nbs')]
    ok = bool(init) and init[-1].value == ('num', 1) and paths_increments(loop.body, 'performed_it') == {1} \
        and bool(rng) and rng[0].value == ('call', ('var', 'range'), (('attr', ('var', 'self'), 'max_it'),), ()) \
        and not any(s.k == 'assign' and s.target == ('var', 'performed_it') for s in walk_stmts(post))
    ctx.check(ok, 'R-PATH', file, 'KMeans.fit', 'iteration counter', 'performed_it must start at 1 and grow by exactly one per iteration of range(self.max_it) (so it never exceeds max_it + 1)', loop.line)
    # final assignment after the last write of self.means
    means_writes_post = [s for s in walk_stmts(post) if s.k == 'assign' and (s.target == ('attr', ('var', 'self'), 'means') or
                                                                           (s.target[0] == 'idx' and s.target[1] == ('attr', ('var', 'self'), 'means')))]
    fin = [s for s in walk_stmts(post) if s.k == 'assign' and s.target == ('var', 'clusters_distances')]
    ok = bool(fin) and not means_writes_post and all(any(x == ('attr', ('var', 'self'), 'means') for x in walk_expr(s.value)) for s in fin) \
        and all(any(x == ('var', 'fn') for x in walk_expr(s.value)) for s in fin)
    ctx.check(ok, 'R-PATH', file, 'KMeans.fit', 'final assignment', 'after the last update of self.means every series must be re-assigned to its nearest mean (fn over self.means) before clusters are returned', loop.line)
    cl = [s for s in post if s.k == 'assign' and s.target[0] == 'tuple' and s.target[1][0] == ('var', 'clusters')]
    ok = bool(cl) and cl[-1].value == ('call', ('var', 'zip'), (('star', ('var', 'clusters_distances')),), ()) and bool(fin) and cl[-1].line > max(s.line for s in fin)
    ci = [s for s in post if s.k == 'assign' and s.target == ('attr', ('var', 'self'), 'cluster_idx')]
    ok2 = bool(ci) and ci[-1].value[0] == 'comp' and ci[-1].value[1] == 'DictComp' and ci[-1].value[3][0][1] == ('call', ('var', 'range'), (('attr', ('var', 'self'), 'k'),), ()) \
        and ci[-1].value[2][1][1] == ('call', ('var', 'set'), (), ())
    fill = [s for s in post if s.k == 'foreach' and s.iter == ('call', ('var', 'enumerate'), (('var', 'clusters'),), ())]
    ok3 = len(fill) == 1 and len(fill[0].body) == 1 and fill[0].body[0].k == 'expr' and \
        fill[0].body[0].value == ('call', ('attr', ('idx', ('attr', ('var', 'self'), 'cluster_idx'), fill[0].target[1][1]), 'add'), (fill[0].target[1][0],), ())
    ctx.check(ok and ok2 and ok3, 'R-PATH', file, 'KMeans.fit', 'partition construction',
              'cluster_idx must be {0..k-1: set()} filled with exactly one add per series from the final assignment', loop.line)
    ret = [s for s in post if s.k == 'return']
    ctx.check(bool(ret) and ret[-1].value == ('tuple', (('attr', ('var', 'self'), 'cluster_idx'), ('var', 'performed_it'))), 'R-RET', file, 'KMeans.fit', 'return value', 'fit returns (cluster_idx, performed_it)', f.line)
    # empty-cluster repair writes one column of the mask
    # argmin helpers: four siblings
    shapes = {}
    for q in ('_distance_with_params', '_distance_ndim_with_params', '_distance_c_with_params', '_distance_ndim_c_with_params'):
        pm, g = _func(m, mod, q)
        init = [s for s in g.body if s.k == 'assign' and s.target[0] == 'tuple']
        lp = [s for s in g.body if s.k == 'foreach']
        ok = False
        if len(init) >= 2 and lp and init[1].value[0] == 'tuple' and init[0].value[0] == 'var':
            i0 = init[1]
            names = i0.target[1]
            okinit = i0.value[1] == (('num', -1), ('num', INF))
            body = lp[0].body
            cond = [s for s in body if s.k == 'if']
            okc = len(cond) == 1 and cond[0].cond == ('bin', '<', ('var', 'd'), names[1]) and len(cond[0].then) == 1 and \
                cond[0].then[0].k == 'assign' and sorted(zip(map(fmt, cond[0].then[0].target[1]), map(fmt, cond[0].then[0].value[1]))) == \
                sorted([(fmt(names[1]), 'd'), (fmt(names[0]), fmt(lp[0].target[1][0]))])
            okr = g.body[-1].k == 'return' and g.body[-1].value == ('tuple', (names[0], names[1]))
            dcall = [s for s in body if s.k == 'assign' and s.target == ('var', 'd')]
            oka = bool(dcall) and dcall[0].value[0] == 'call' and dcall[0].value[2][:2] == (('var', 'series'), lp[0].target[1][1]) and lp[0].iter[2] == (init[0].target[1][1],)
            # the DTW options travel in the third member of the work item and must reach the distance call
            optv = init[0].target[1][2] if len(init[0].target[1]) >= 3 else None
            okopt = bool(dcall) and optv is not None and any(k is None and v == optv for k, v in dcall[0].value[3])
            ctx.check(okopt, 'R-FWD', file, q, 'options to the distance call',
                      'the helper receives (series, means, options) and must call the distance with **options; otherwise window/penalty/psi are ignored when deciding '
                      'which mean is nearest', g.line)
            ok = okinit and okc and okr and oka
            shapes[q] = dotted(dcall[0].value[1]) if dcall else None
        ctx.check(ok, 'R-PATH', file, q, 'nearest-mean helper',
                  'the helper must return (argmin_i, min_i) of distance(series, mean_i) over all means, strict `<`, starting from (-1, inf)', g.line)
    want = {'_distance_with_params': 'distance', '_distance_ndim_with_params': 'dtw_ndim.distance', '_distance_c_with_params': 'dtw_cc.distance',
            '_distance_ndim_c_with_params': 'dtw_cc.distance_ndim'}
    ctx.check(shapes == want, 'R-VAR', file, '<module>', 'nearest-mean helper family', 'the four helpers must call the 1-D/n-D x Python/C distance of their name; found %s' % shapes, 1)
    ctx.assume('k-means: every series has a finite distance to at least one mean (otherwise the helpers return cluster -1)')
    # selection of the helper
    sel = [s for s in pre if s.k == 'if' and any(x == ('str', 'use_c') for x in walk_expr(s.cond))]
    ok = False
    if sel:
        s = sel[-1]
        t = {fmt(x.cond): [y.value for y in walk_stmts(x.then) if y.k == 'assign'] + [y.value for y in walk_stmts(x.els) if y.k == 'assign'] for x in [s]}
        vals = [y.value[1] for y in walk_stmts([s]) if y.k == 'assign' and y.target == ('var', 'fn')]
        ok = vals == ['_distance_c_with_params', '_distance_ndim_c_with_params', '_distance_with_params', '_distance_ndim_with_params']
    ctx.check(ok, 'R-VAR', file, 'KMeans.fit', 'helper selection', 'use_c/ndim must select the matching nearest-mean helper', f.line)
    # k-means++ blocks
    pm, kp = _func(m, mod, 'KMeans.kmeansplusplus_centers')
    bc = _calls(kp.body, lambda d: d == 'fn')
    ok = len(bc) == 2
    for s, c in bc:
        b = _kw(c, 'block')
        ok = ok and b is not None and b[0] == 'tuple' and len(b[1]) == 3 and b[1][2] == ('bool', False) and _kw(c, 'compact') == ('bool', True) \
            and b[1][0] == ('tuple', (('var', 'idx'), ('bin', '+', ('var', 'idx'), ('num', 1)))) and fmt(b[1][1]) == '(0, len(series))'
    ctx.check(ok, 'R-ITER', file, 'KMeans.kmeansplusplus_centers', 'seeding blocks', 'both seeding sites must request the rectangular non-triangular block ((idx, idx+1), (0, n), False) in compact form', kp.line)
    # pool primitive
    pools = [(s, c) for s, c in calls_in(f.body) if c[1][0] == 'attr' and c[1][1] == ('var', 'p') and c[1][2] in ('map', 'imap', 'imap_unordered', 'starmap', 'map_async', 'apply_async')]
    ctx.check(bool(pools) and all(c[1][2] in ('map', 'starmap') for s, c in pools), 'R-ITER', file, 'KMeans.fit', 'pool primitive', 'parallel assignment/averaging must use the order-preserving Pool.map', f.line)


def rule_tree_unbounded(ctx, m):
    """HierarchicalTree records n-1 merges only if the wrapped model merges without a distance bound: its constructor must end with the model in use having
    max_dist = inf -- set unconditionally, or under a test of THAT model's max_dist (kwargs do not describe a caller-supplied model)."""
    pm, f = _func(m, 'dtaidistance.clustering.hierarchical', 'HierarchicalTree.__init__')
    INFS = (('num', float('inf')), ('var', 'inf'), ('attr', ('var', 'math'), 'inf'), ('attr', ('var', 'np'), 'inf'), ('call', ('var', 'float'), (('str', 'inf'),), ()))
    names = {('attr', ('var', 'self'), '_model')}
    for s in walk_stmts(f.body):
        if s.k == 'assign' and s.target == ('attr', ('var', 'self'), '_model') and s.value[0] == 'var':
            names.add(s.value)
    sites = []

    def visit(stmts, conds):
        for s in stmts:
            if s.k == 'if':
                visit(s.then, conds + [s.cond])
                visit(s.els, conds + [('un', 'not', s.cond)])
            elif s.k == 'assign' and s.target[0] == 'attr' and s.target[2] == 'max_dist' and s.target[1] in names:
                sites.append((s, conds))
            else:
                for b in sub_blocks(s):
                    visit(b, conds)
    visit(f.body, [])
    if not sites:
        ctx.violation('R-PATH', pm.path, 'HierarchicalTree.__init__', 'unbounded model', 'the tree variant never lifts the distance bound of its model (no `model.max_dist = inf`)', f.line)
        return
    for s, conds in sites:
        ok_val = s.value in INFS
        on_model = all(any(x[0] == 'attr' and x[2] == 'max_dist' and x[1] in names for x in walk_expr(c)) for c in conds)
        ctx.check(ok_val and on_model, 'R-PATH', pm.path, 'HierarchicalTree.__init__', 'unbounded model',
                  'the bound of the model in use must become infinite whenever it is finite: the reset `%s = %s` is decided by %s, which does not look at that model\'s max_dist '
                  '(a caller-supplied model keeps its finite bound; the tree then records fewer than n-1 merges)' % (fmt(s.target), fmt(s.value), [fmt(c)[:60] for c in conds]), s.line)


# ================================================================================================= C17
class _Undecidable(Exception):
    pass


def _weak_orders(n):
    """All weak orderings of n items as rank tuples (13 for n = 3)."""
    from itertools import product
    seen = set()
    for t in product(range(n), repeat=n):
        ranks = sorted(set(t))
        norm = tuple(ranks.index(x) for x in t)
        seen.add(norm)
    return sorted(seen)


def dp_arrows(m):
    """Which traceback arrow dp.dp records for which predecessor, decided on order types: the three candidate scores are touched only through
    comparisons, so the 13 weak orderings of (left, above, diagonal) cover every input.  For each ordering the recorded arrow set is computed by abstract
    evaluation of the arrow stores; arrow X belongs to candidate k when X is recorded exactly in the orderings where k attains the minimum.
    -> ({arrow name: (drow, dcol)}, problems)"""
    from . import kern2d
    from .. import kernels as _k
    from ..canon import canon_expr
    from ..symexec import norm_minmax
    F = kern2d.load(m, 'dtaidistance.dp', 'dp', consts={'window': ('var', 'W')}, nonnull={'W'})
    p, node, value = kern2d.preds(F, F.store, F.amap)
    if p is None:
        raise AnalysisError('unrecognised shape: dp.dp stores no minimum over three candidates')
    cands = list(node[1])
    offs = []
    R, Cc = [_k.term(x, F.amap) for x in F.store[2][2][1]]
    for a in cands:
        rd = [x for x in walk_expr(a) if x[0] == 'idx' and x[1] == ('var', F.arr)][0]
        r, c = [_k.term(x, F.amap) for x in rd[2][1]]
        offs.append((sym_sub(r, R), sym_sub(c, Cc)))
    ckeys = [canon_expr(norm_minmax(a)) for a in cands]
    cell = F.store[2]
    stored = norm_minmax(F.store[3])

    def num(e, val):
        e = norm_minmax(e) if e[0] == 'cond' else e
        ce = canon_expr(e)
        for k_, key in enumerate(ckeys):
            if ce == key:
                return val[k_]
        if e == cell:
            return num(stored, val)
        if e[0] in ('min', 'max'):
            xs = [num(x, val) for x in e[1]]
            return min(xs) if e[0] == 'min' else max(xs)
        if e[0] == 'call' and dotted(e[1]) in ('min', 'max'):
            xs = [num(x, val) for x in e[2]]
            return min(xs) if dotted(e[1]) == 'min' else max(xs)
        if e[0] == 'cond':
            return num(e[2], val) if truth(e[1], val) else num(e[3], val)
        raise _Undecidable(fmt(e)[:60])

    def truth(c, val):
        if c[0] == 'un' and c[1] == 'not':
            return not truth(c[2], val)
        if c[0] == 'bin' and c[1] in ('and', 'or'):
            a_, b_ = truth(c[2], val), truth(c[3], val)
            return (a_ and b_) if c[1] == 'and' else (a_ or b_)
        if c[0] == 'bin' and c[1] in ('<', '<=', '>', '>=', '==', '!='):
            a_, b_ = num(c[2], val), num(c[3], val)
            return {'<': a_ < b_, '<=': a_ <= b_, '>': a_ > b_, '>=': a_ >= b_, '==': a_ == b_, '!=': a_ != b_}[c[1]]
        raise _Undecidable(fmt(c)[:60])

    def arrows_of(e, val, cur, parr, pidx):
        if e[0] == 'idx' and e[1] == parr and e[2] == pidx:
            return cur
        if e[0] == 'str':
            if e[1] != '':
                raise _Undecidable('string literal %r' % e[1])
            return frozenset()
        if e[0] == 'attr' and e[2] == 'value' and e[1][0] == 'attr' and e[1][1] == ('var', 'Direction'):
            return frozenset([e[1][2]])
        if e[0] == 'bin' and e[1] == '+':
            return arrows_of(e[2], val, cur, parr, pidx) | arrows_of(e[3], val, cur, parr, pidx)
        if e[0] == 'cond':
            return arrows_of(e[2] if truth(e[1], val) else e[3], val, cur, parr, pidx)
        raise _Undecidable(fmt(e)[:60])
    astores = [e for e in F.col.events if e[0] == 'store' and e[2][0] == 'idx' and e[2][1] != ('var', F.arr) and e[2][2] == cell[2] and
               any(x[0] == 'attr' and x[1] == ('var', 'Direction') for x in walk_expr(e[3]))]
    if not astores:
        raise AnalysisError('unrecognised shape: dp.dp records no traceback arrows next to the score')
    recorded = {}
    for o in _weak_orders(3):
        cur = frozenset()
        for ev in astores:
            try:
                taken = True
                for c in ev[1]:
                    try:
                        taken = taken and truth(c, o)
                    except _Undecidable:
                        pass            # a condition that does not compare candidate scores (max_step / max_dist guards): the path on which the store happens
                if taken:
                    cur = arrows_of(ev[3], o, cur, ev[2][1], ev[2][2])
            except _Undecidable as ex:
                raise AnalysisError('unrecognised shape: arrow store of dp.dp: %s' % ex)
        recorded[o] = cur
    names = sorted(set().union(*recorded.values()))
    table, problems = {}, []
    for X in names:
        ks = [k_ for k_ in range(3) if all((X in recorded[o]) == (o[k_] == min(o)) for o in recorded)]
        if len(ks) == 1 and sym.is_const(offs[ks[0]][0]) and sym.is_const(offs[ks[0]][1]):
            table[X] = (offs[ks[0]][0][2], offs[ks[0]][1][2])
        else:
            bad = next(o for o in recorded if not any((X in recorded[o]) == (o[k_] == min(o)) for k_ in range(3)) or True)
            problems.append('arrow %s is not recorded exactly when one predecessor attains the minimum (e.g. for the ordering %s of the candidates %s the arrows are %s)'
                            % (X, bad, [fmt(c_)[-28:] for c_ in cands], sorted(recorded[bad])))
    return table, problems, F


def sym_sub(a, b):
    from ..sym import sub
    return sub(a, b)


def rule_alignment_tables(ctx, m):
    from .. import sym as _sym
    arrows, problems, F0 = dp_arrows(m)
    pm = m.py('dtaidistance.dp')
    for pr in problems:
        ctx.violation('R-TAB', pm.path, 'dp', 'arrow recording', pr, F0.store[4].line)
    pm2, g = _func(m, 'dtaidistance.alignment', 'best_alignment')
    ops = chars = None
    ops_name = chars_name = None
    single = None

    def arrow_name(x):
        return x[1][2] if x[0] == 'attr' and x[2] == 'value' and x[1][0] == 'attr' and x[1][1] == ('var', 'Direction') else None

    def number(y):
        if y[0] == 'num':
            return y[1]
        if y[0] == 'un' and y[1] == 'neg' and y[2][0] == 'num':
            return -y[2][1]
        return None
    for s in g.body:
        # the two parallel tables, recognised by their content: offsets (pairs of numbers) and arrow codes (Direction.X.value) -- or one table of
        # (arrow code, row offset, column offset) entries (any position of the arrow code inside the entry)
        if s.k == 'assign' and s.target[0] == 'var' and s.value[0] == 'list' and s.value[1] and all(x[0] == 'tuple' and len(x[1]) == 2 and all(y[0] == 'num' for y in x[1]) for x in s.value[1]):
            ops = [tuple(-abs(y[1]) if y[0] == 'num' else None for y in x[1]) for x in s.value[1]]
            ops_name = s.target[1]
        if s.k == 'assign' and s.target[0] == 'var' and s.value[0] == 'list' and s.value[1] and all(x[0] == 'attr' and x[2] == 'value' and x[1][0] == 'attr' and x[1][1] == ('var', 'Direction') for x in s.value[1]):
            chars = [x[1][2] if x[0] == 'attr' and x[2] == 'value' else None for x in s.value[1]]
            chars_name = s.target[1]
        if s.k == 'assign' and s.target[0] == 'var' and s.value[0] in ('list', 'tuple') and s.value[1] and \
                all(x[0] == 'tuple' and len(x[1]) == 3 and sum(1 for y in x[1] if arrow_name(y)) == 1 and sum(1 for y in x[1] if number(y) is not None) == 2 for x in s.value[1]):
            single = ({[arrow_name(y) for y in x[1] if arrow_name(y)][0]: tuple(-abs(number(y)) for y in x[1] if number(y) is not None) for x in s.value[1]}, s.target[1],
                      {[k_ for k_, y in enumerate(x[1]) if arrow_name(y)][0] for x in s.value[1]})
    if single is not None and (ops is None or chars is None):
        reader = single[0]
    elif ops is None or chars is None:
        raise AnalysisError('unrecognised shape: ops/op_chars tables of alignment.best_alignment')
    else:
        reader = dict(zip(chars, ops))
    ok = arrows == reader and len(arrows) == 3
    ctx.check(ok, 'R-TAB', pm2.path, 'best_alignment', 'arrow table',
              'the traceback must apply, for each arrow, the offset of the predecessor the DP recorded it for: dp records %s, best_alignment applies %s'
              % (sorted(arrows.items()), sorted(reader.items())), g.line)
    # every index selectable through `order` addresses both tables identically
    sel = [x for s in walk_stmts(g.body) for e in stmt_exprs(s) for x in walk_expr(e) if x[0] == 'comp']
    ok = False
    if single is not None and (ops is None or chars is None):
        # one table: an entry carries its own offsets; the selection must unpack the entry in the order the table lists it (arrow position as in the literal)
        apos = single[2]
        for c in sel:
            for tgt, it, conds in c[3]:
                if tgt[0] == 'tuple' and len(tgt[1]) == 3 and it == ('var', single[1]) and len(apos) == 1:
                    av = tgt[1][list(apos)[0]]
                    offs_v = tuple(t for k_, t in enumerate(tgt[1]) if k_ != list(apos)[0])
                    uses_arrow = any(x == av for cd in conds for x in walk_expr(cd))
                    ok = ok or (uses_arrow and c[2] == ('tuple', offs_v))
    else:
        for c in sel:
            if c[2][0] == 'idx' and c[2][1] == ('var', ops_name) and c[2][2][0] == 'var':
                ov = c[2][2]
                ok = ok or any(x == ('idx', ('var', chars_name), ov) for x in walk_expr(c))
    ctx.check(ok, 'R-TAB', pm2.path, 'best_alignment', 'table lookup', 'ops and op_chars must be indexed by the same order index', g.line)
    # the border walk: once a border is reached the path runs along it to the origin -- every remaining row index v-1, .., 0 (then every column index) is appended
    main = [k_ for k_, s in enumerate(g.body) if s.k == 'while' and s.cond[0] == 'bin' and s.cond[1] == 'and']
    if main:
        walks = []
        for s in g.body[main[0] + 1:]:
            app = [t for t in (s.body if s.k in ('while', 'for') else []) if t.k == 'expr' and t.value[0] == 'call' and t.value[1][0] == 'attr' and t.value[1][2] == 'append']
            if not app:
                if s.k in ('while', 'for'):
                    continue
                break
            if s.k == 'while':
                c = s.cond
                v = c[3] if c[0] == 'bin' and c[1] == '<' and c[2] in (('num', 0),) else None
                dec = s.body[0] if s.body else None
                dec_ok = dec is not None and dec.k == 'assign' and dec.target == v and dec.value == ('bin', '-', v, ('num', 1)) and s.body.index(app[0]) > 0
                walks.append((v, dec_ok and len(s.body) == 2, 'while %s: %s -= 1; append' % (fmt(c), fmt(v) if v else '?'), s.line))
            else:
                v = ('var', s.var)
                okf = s.step == ('un', 'neg', ('num', 1)) or s.step == ('num', -1)
                okf = okf and s.lo == ('bin', '-', v, ('num', 1)) and s.hi in (('num', -1), ('un', 'neg', ('num', 1))) and len(s.body) == 1
                walks.append((v, okf, 'for %s in range(%s, %s, %s)' % (s.var, fmt(s.lo), fmt(s.hi), fmt(s.step) if s.step else 1), s.line))
        okw = len(walks) == 2 and all(w[1] for w in walks) and walks[0][0] != walks[1][0]
        if len(walks) == 2 and all(w[0] is not None for w in walks):
            ctx.check(okw, 'R-PATH', pm2.path, 'best_alignment', 'border walk',
                      'after the trace reaches a border, every remaining index v-1, v-2, .., 0 of the other sequence must be appended (first rows, then columns); found %s'
                      % [w[2] for w in walks], walks[0][3])
        else:
            ctx.undecided('R-PATH', 'best_alignment border walk', 'unrecognised border loops %s' % [w[2] for w in walks])
    # gap emission: per step exactly one symbol-or-gap per sequence, never gap/gap
    loop = [s for s in g.body if s.k == 'foreach' and s.target[0] == 'tuple']
    ok = False
    if loop:
        chain = [s for s in loop[0].body if s.k == 'if']
        if chain:
            arms = []
            cur = chain[0]
            while True:
                arms.append(cur.then)
                if len(cur.els) == 1 and cur.els[0].k == 'if':
                    cur = cur.els[0]
                else:
                    break
            ok = len(arms) == 3
            gapname = g.args[3] if len(g.args) > 3 else 'gap'
            lists = None
            for a in arms:
                app = [(fmt(x[1][1]), fmt(x[2][0])) for s in walk_stmts(a) for e in stmt_exprs(s) for x in walk_expr(e) if x[0] == 'call' and x[1][0] == 'attr' and x[1][2] == 'append']
                d = dict(app)
                gaps = sum(1 for v in d.values() if v == gapname)
                if lists is None:
                    lists = set(d)
                ok = ok and len(app) == 2 and len(d) == 2 and set(d) == lists and gaps <= 1
    ctx.check(ok, 'R-PATH', pm2.path, 'best_alignment', 'gap emission', 'each traceback step must append exactly one element to each aligned sequence and at most one of them a gap', g.line)
    # needleman_wunsch negates value and matrix together
    pm3, nw = _func(m, 'dtaidistance.alignment', 'needleman_wunsch')
    ret = [s for s in nw.body if s.k == 'return']
    ok = bool(ret) and ret[-1].value == ('tuple', (('un', 'neg', ('var', 'value')), ('un', 'neg', ('var', 'scores')), ('var', 'paths')))
    dpc = _calls(nw.body, lambda d: d == 'dp')
    ok = ok and len(dpc) == 1 and _kw(dpc[0][1], 'penalty') == ('num', 0) and _kw(dpc[0][1], 'fn') == ('var', 'substitution')
    ctx.check(ok, 'R-PATH', pm3.path, 'needleman_wunsch', 'negation', 'value and score matrix are negated together; dp is called with the substitution function and penalty 0 '
              '(the border argument is decided by rule_nw_border)', nw.line)
    pm3, bd = _func(m, 'dtaidistance.alignment', '_needleman_wunsch_border')
    ok = fmt(bd.body[0].cond) == '(ri == 0)' and bd.body[0].then[0].value == ('var', 'ci') and fmt(bd.body[1].cond) == '(ci == 0)' and bd.body[1].then[0].value == ('var', 'ri')
    ctx.check(ok, 'R-PATH', pm3.path, '_needleman_wunsch_border', 'border', 'the border cost of k leading gaps is k', bd.line)


def _offset2(rd_idx, tgt_idx, env):
    """(dr, dc) between two 2-D index tuples whose components are names bound to `x + 1` / loop variables."""
    def val(e):
        # i1 = i0 + 1 ; j1 = j0 + 1
        if e[0] == 'var' and e[1] in env and env[e[1]][0] == 'bin' and env[e[1]][1] == '+' and env[e[1]][3] == ('num', 1):
            return (env[e[1]][2], 1)
        return (e, 0)
    out = []
    for a, b in zip(rd_idx[1], tgt_idx[1]):
        (ba, ka), (bb, kb) = val(a), val(b)
        out.append(ka - kb if ba == bb else None)
    return tuple(out)


def rule_lc_trace_stop(ctx, m):
    """LocalConcurrences.best_path (pure-Python trace of a local-concurrence match): the trace continues only into a POSITIVE cell -- clipped cells are 0 and
    consumed cells negative, so the guard that ends the trace must fire for a best predecessor <= 0 (non-strict), not only for a negative one."""
    from ..ir import orient
    mod = m.py('dtaidistance.subsequence.localconcurrences')
    f = mod.funcs.get('LocalConcurrences.best_path')
    if f is None:
        raise AnalysisError('anchor vanished: LocalConcurrences.best_path')
    loops = [s for s in walk_stmts(f.body) if s.k == 'while']
    if not loops:
        raise AnalysisError('unrecognised shape: no trace loop in LocalConcurrences.best_path')
    lp = loops[0]
    guards = []
    for s in lp.body:
        if s.k == 'if' and s.then and s.then[-1].k == 'break':
            c, neg = s.cond, False
            while c[0] == 'un' and c[1] == 'not':
                c, neg = c[2], not neg
            o = orient(c, lambda e: e != ('num', 0) and e != ('num', 0.0))
            if o is not None and o[2] in (('num', 0), ('num', 0.0)):
                op = o[0]
                if neg:
                    op = {'<': '>=', '<=': '>', '>': '<=', '>=': '<'}[op]
                guards.append((op, o[1], s))
    if not guards:
        ctx.undecided('R-PATH', 'LocalConcurrences.best_path stop guard', 'no `if <value> <= 0: break` guard recognised in the trace loop')
        return
    op, val, s = guards[0]
    ctx.check(op == '<=', 'R-PATH', mod.path, 'LocalConcurrences.best_path', 'trace stop guard',
              'the trace must end when the best predecessor is not positive (`%s <= 0`); the guard tests `%s %s 0`, so the match runs on through clipped (zero) cells'
              % (fmt(val)[:40], fmt(val)[:40], op), s.line)


# ================================================================================================= C20
SERIES_NAMES = {'s1', 's2', 's', 'series', 'query', 'from_s', 'to_s', 'cur', 'seqs', 'sequences', 'data'}
INPLACE = {'sort', 'reverse', 'append', 'extend', 'insert', 'pop', 'remove', 'clear', 'fill', 'resize', 'put', 'itemset', 'setfield', 'partition', 'byteswap'}


def rule_py_no_input_stores(ctx, m, modules):
    n = 0
    for mname in modules:
        mod = m.py(mname)
        for q, f in sorted(mod.funcs.items()):
            series = [p for p in f.args if p in SERIES_NAMES]
            if not series:
                continue
            n += 1
            live = set(series)
            bad = []

            def visit(stmts):
                for s in stmts:
                    if s.k == 'assign':
                        b = s.target
                        while b[0] in ('idx', 'attr'):
                            b = b[1]
                        has_idx = False
                        t_ = s.target
                        while t_[0] in ('idx', 'attr'):
                            has_idx = has_idx or t_[0] == 'idx'
                            t_ = t_[1]
                        if s.target[0] != 'var' and has_idx and b[0] == 'var' and b[1] in live and not (b[1] == 'self'):
                            bad.append((s, b[1]))
                        if s.target[0] == 'var' and s.target[1] in live:
                            if s.d.get('aug'):
                                bad.append((s, s.target[1]))
                            else:
                                live.discard(s.target[1])     # rebound to a new object (e.g. SeriesContainer.wrap, verify_np_array)
                    for e in stmt_exprs(s):
                        for x in walk_expr(e):
                            if x[0] == 'call' and x[1][0] == 'attr' and x[1][2] in INPLACE and x[1][1][0] == 'var' and x[1][1][1] in live:
                                bad.append((s, x[1][1][1]))
                    for b_ in sub_blocks(s):
                        visit(b_)
            visit(f.body)
            if not bad:
                ctx.held('R-EFF', '%s:%s series parameters %s untouched' % (mname.split('.')[-1], q, series))
            for s, nm in bad:
                ctx.violation('R-EFF', mod.path, q, 'store %s' % fmt(s.target if s.k == 'assign' else s.value)[:80],
                              'the routine modifies its input `%s` in place' % nm, s.line)
    ctx.count('Python functions with series parameters', n)
    return n


SANITISERS = ('verify_np_array', 'c_data_compat', 'warping_path_args_to_c')
NP_FRESH = ('full', 'zeros', 'empty', 'ones', 'array', 'ascontiguousarray', 'copy', 'zeros_like', 'full_like')


def _sanitised_value(v):
    if v is None:
        return False
    if v[0] == 'call':
        d = dotted(v[1]) or ''
        last = d.split('.')[-1]
        if last in SANITISERS:
            return True
        if d.split('.')[0] in ('np', 'numpy') and last in NP_FRESH:
            return True
        if d == 'array.array':
            return True
        if v[1][0] == 'attr' and v[1][2] == 'copy':
            return True
    return False


def rule_contiguity(ctx, m, modules):
    """R-SAN: arrays reaching a strided memoryview parameter of a pyx def (whose address goes to C) are sanitised first."""
    from .sig import PYX_LOCALS
    n = 0
    for mname in modules:
        mod = m.py(mname)
        # a private helper that did not exist in the baseline and whose every call was expanded into its caller is analysed there (with the caller's
        # sanitising statements in view), not as an entry point of its own
        from ..inline import baseline
        base = baseline().get(mname, set())
        called = {(dotted(c_[1]) or '').split('.')[-1] for g_ in mod.funcs.values() for _s, c_ in calls_in(g_.body)}
        for q, f in sorted(mod.funcs.items()):
            if q not in base and q.split('.')[-1].startswith('_') and not q.split('.')[-1].startswith('__') and q.split('.')[-1] not in called and base:
                continue
            for s, call in calls_in(f.body):
                d = dotted(call[1])
                if not d or '.' not in d:
                    continue
                parts = d.split('.')
                if parts[0] not in PYX_LOCALS or len(parts) != 2:
                    continue
                pyx = m.pyx(PYX_LOCALS[parts[0]])
                target = pyx.funcs.get(parts[1])
                if target is None:
                    continue
                for k, a in enumerate(target.args):
                    if not a.memview_axes or 'strided' not in a.memview_axes:
                        continue
                    if k >= len([x for x in call[2] if x[0] != 'star']):
                        arg = dict((kk, v) for kk, v in call[3]).get(a.name)
                        if arg is None:
                            continue
                    else:
                        arg = call[2][k]
                    n += 1
                    inst = '%s:%s -> %s arg %s' % (mname.split('.')[-1], q, d, a.name)
                    ok, why = _arg_sanitised(m, mod, f, s, arg)
                    ctx.check(ok, 'R-SAN', mod.path, q, '%s argument %s = %s' % (d, a.name, fmt(arg)[:60]),
                              'the Cython routine takes the address of element 0 of `%s` (declared %s, which accepts strided views) and hands it to C as a '
                              'dense buffer, but %s: a strided or transposed view gives a wrong result' % (a.name, a.ctype, why), s.line, detail=why)
    ctx.count('strided-memoryview arguments', n)
    return n


PRODUCERS = ('warping_paths', 'warping_paths_fast', 'warping_paths_affinity', 'warping_paths_affinity_fast')


def _guards(f):
    """stmt id -> frozenset of (name, polarity) for enclosing `if name:` / `if not name:` / attribute flags."""
    out = {}

    def lit(c):
        if c[0] == 'var':
            return (c[1], True)
        if c[0] == 'attr':
            return (fmt(c), True)
        if c[0] == 'un' and c[1] == 'not' and c[2][0] in ('var', 'attr'):
            return (fmt(c[2]) if c[2][0] == 'attr' else c[2][1], False)
        return None

    def walk(stmts, g):
        for s in stmts:
            out[id(s)] = g
            if s.k == 'if':
                l = lit(s.cond)
                walk(s.then, g | ({l} if l else set()))
                walk(s.els, g | ({(l[0], not l[1])} if l else set()))
            else:
                for b in sub_blocks(s):
                    walk(b, g)
    walk(f.body, frozenset())
    return out


def _block_paths(f):
    """stmt id -> tuple of (block id, index) from the function body down to the statement."""
    out = {}

    def walk(stmts, path):
        for i, s in enumerate(stmts):
            out[id(s)] = path + ((id(stmts), i),)
            for b in sub_blocks(s):
                walk(b, path + ((id(stmts), i),))
    walk(f.body, ())
    return out


def _defs(f, nm, call_stmt, guards):
    """Definitions of nm that may reach call_stmt: guard-compatible, not killed by a later definition that dominates
    the call (a definition in the same block as the call, or in an enclosing block, placed before it)."""
    cg = guards.get(id(call_stmt), frozenset())
    paths = _block_paths(f)
    cpath = paths.get(id(call_stmt), ())
    defs = []
    # program order, not source lines: statements of an expanded helper keep the helper's line numbers
    order = {id(s_): k_ for k_, s_ in enumerate(walk_stmts(f.body))}
    c_ord = order.get(id(call_stmt))
    for s in walk_stmts(f.body):
        if c_ord is not None and order[id(s)] >= c_ord:
            continue
        hit = False
        if s.k == 'assign':
            hit = s.target == ('var', nm) or (s.target[0] == 'tuple' and ('var', nm) in s.target[1])
        elif s.k == 'foreach':
            hit = any(x == ('var', nm) for x in walk_expr(s.target))
        if not hit:
            continue
        dg = guards.get(id(s), frozenset())
        if any((n_, not p_) in cg for (n_, p_) in dg):
            continue        # the definition sits under a guard that contradicts the call's guard
        defs.append(s)
    # kill: a def whose block is on the call's path (same block or ancestor) and that comes later than another def
    stmt_at = {}

    def index(stmts):
        for i_, s_ in enumerate(stmts):
            stmt_at[(id(stmts), i_)] = s_
            for b_ in sub_blocks(s_):
                index(b_)
    index(f.body)
    reassigned = assigned_vars(f.body)

    def dominates(d):
        dp = paths.get(id(d), ())
        if not dp:
            return False
        blk, idx = dp[-1]
        for (b, i) in cpath:
            if b == blk and idx < i:
                return True
        # a definition nested in `if` statements that precede the call in one of its enclosing blocks, under guards the call is under as well
        # (`if flag: x = fix(x)` ... `if flag: use(x)`): every execution that reaches the call executed the definition
        for depth, (b, i) in enumerate(dp[:-1]):
            if any(b == cb and i < ci for (cb, ci) in cpath):
                extra = len(dp) - depth - 1
                top = stmt_at.get((b, i))
                added = guards.get(id(d), frozenset()) - guards.get(id(top), frozenset())
                if len(added) == extra and added <= cg and not ({n_ for n_, _p in added} & reassigned):
                    return True
        return False
    doms = [d for d in defs if d.k == 'assign' and dominates(d)]
    if doms:
        last = max(doms, key=lambda d: order[id(d)])
        defs = [d for d in defs if order[id(d)] >= order[id(last)]]
    return [d if d.k == 'assign' else S_foreach(d) for d in defs]


class S_foreach:
    """A loop target definition presented like an assignment (value = element of the iterable)."""

    def __init__(self, loop):
        self.k = 'assign'
        self.line = loop.line
        self.target = loop.target
        self.value = ('idx', loop.iter, ('other', 'element'))
        self.d = {}


def _must_assigned(f, nm, call_stmt):
    """True iff on every path from the function entry to call_stmt the name nm has been (re)assigned."""
    target = call_stmt

    def assigns(s):
        if s.k == 'assign':
            return s.target == ('var', nm) or (s.target[0] == 'tuple' and ('var', nm) in s.target[1])
        return False

    def leaves(block):
        """the block always leaves the function (return / raise as last statement)"""
        return bool(block) and block[-1].k in ('return', 'raise')

    def block_must(block):
        """-> (assigned on every path that falls through the block?)"""
        got = False
        for s in block:
            if assigns(s):
                got = True
            elif s.k == 'if':
                a = leaves(s.then) or block_must(s.then)
                b = leaves(s.els) or (block_must(s.els) if s.els else False)
                if a and b:
                    got = True
        return got

    def walk(block):
        """-> None if target not inside; else True/False (must-assigned before reaching target)"""
        got = False
        for s in block:
            if s is target:
                return got
            for b in sub_blocks(s):
                r = walk(b)
                if r is not None:
                    return got or r
            if assigns(s):
                got = True
            elif s.k == 'if':
                a = leaves(s.then) or block_must(s.then)
                b = leaves(s.els) or (block_must(s.els) if s.els else False)
                if a and b:
                    got = True
                # default filling `if nm is None: nm = <own buffer>`: an explicit argument is the caller's own matrix by contract
                if fmt(s.cond).replace('(', '').replace(')', '') == '%s is None' % nm and block_must(s.then) and not s.els:
                    got = True
        return None
    r = walk(f.body)
    return bool(r)


def _san(m, mod, f, v, call_stmt, guards, depth=0):
    """-> (bool, reason)"""
    if v is None or depth > 4:
        return False, 'unknown provenance'
    if v == ('none',):
        return True, 'None'
    if _sanitised_value(v):
        return True, 'sanitised'
    if v[0] == 'call':
        d = dotted(v[1]) or ''
        last = d.split('.')[-1]
        if last in PRODUCERS:
            return True, 'fresh matrix from %s' % last
        if last in ('masked_array',) and v[2]:
            return _san(m, mod, f, v[2][0], call_stmt, guards, depth + 1)
        if last == 'packbits':
            return True, 'fresh array from np.packbits'
        if v[1][0] == 'var':
            # callee is a local bound to a producer (possibly through functools.partial)
            ds = _defs(f, v[1][1], call_stmt, guards)
            if ds and all(_is_producer_ref(x.value) for x in ds):
                return True, 'fresh matrix from a warping_paths producer'
        return False, 'it is assigned from %s' % fmt(v)[:80]
    if v[0] == 'var':
        ds = _defs(f, v[1], call_stmt, guards)
        if ds:
            for x in ds:
                ok, why = _san(m, mod, f, x.value, x, guards, depth + 1)
                if not ok:
                    return False, why
            if v[1] in f.all_params and depth == 0 and not _must_assigned(f, v[1], call_stmt):
                return False, "the caller's object also reaches this call on a path that bypasses the sanitising assignment (line %s)" % ds[0].line
            return True, 'sanitised'
        if v[1] in f.all_params:
            return False, "it is the caller's object passed through unchanged"
        return False, 'no sanitising assignment reaches the call'
    if v[0] == 'attr' and v[1] == ('var', 'self') and f.cls:
        vals = []
        for q, g in mod.funcs.items():
            if g.cls != f.cls:
                continue
            gg = _guards(g)
            for s in walk_stmts(g.body):
                if s.k == 'assign' and s.target == v:
                    vals.append((g, s, gg))
        if not vals:
            return False, 'attribute %s is never assigned in the class' % v[2]
        for g, s, gg in vals:
            ok, why = _san(m, mod, g, s.value, s, gg, depth + 1)
            if not ok:
                return False, 'attribute %s: %s' % (v[2], why)
        return True, 'attribute only holds fresh buffers'
    return False, 'it is the expression %s' % fmt(v)[:60]


def _is_producer_ref(e):
    d = dotted(e)
    if d and d.split('.')[-1] in PRODUCERS:
        return True
    if e[0] == 'call' and (dotted(e[1]) or '').split('.')[-1] == 'partial' and e[2]:
        return _is_producer_ref(e[2][0])
    return False


def _arg_sanitised(m, mod, f, call_stmt, arg):
    guards = _guards(f)
    if arg[0] == 'idx' and arg[1][0] == 'var' and arg[1][1] in f.all_params:
        uses = _function_uses(mod, f.name)
        if uses and all(u == 'pool' for u in uses):
            return True, 'multiprocessing worker (arguments are pickled)'
        return False, 'it is an element of the work tuple and the worker is also run in-process (%s)' % sorted(set(uses))
    if arg[0] == 'var':
        ds = _defs(f, arg[1], call_stmt, guards)
        # work-tuple unpacking `a, b, c = t` with t the only parameter of a worker
        if ds and all(x.value[0] == 'var' and x.value[1] in f.all_params and x.target[0] == 'tuple' for x in ds):
            uses = _function_uses(mod, f.name)
            if uses and all(u == 'pool' for u in uses):
                return True, 'multiprocessing worker (arguments are pickled)'
            return False, 'it comes from the work tuple and the worker is also run in-process (%s): no pickling re-lays out the array' % sorted(set(uses))
    return _san(m, mod, f, arg, call_stmt, guards)


def _function_uses(mod, name):
    """How a module-level function is referenced: 'pool' (first arg of <x>.map on a Pool), 'map' (builtin map), 'call', 'other'."""
    uses = []
    alias = {name}
    for q, f in mod.funcs.items():
        local_alias = set()
        for s in walk_stmts(f.body):
            if s.k == 'assign' and s.target[0] == 'var' and s.value == ('var', name):
                local_alias.add(s.target[1])
        names = alias | local_alias
        for s in walk_stmts(f.body):
            for e in stmt_exprs(s):
                for x in walk_expr(e):
                    if x[0] == 'call':
                        if x[1][0] == 'attr' and x[1][2] in ('map', 'starmap') and x[2] and x[2][0][0] == 'var' and x[2][0][1] in names:
                            uses.append('pool')
                        elif x[1] == ('var', 'map') and x[2] and x[2][0][0] == 'var' and x[2][0][1] in names:
                            uses.append('in-process map')
                        elif x[1][0] == 'var' and x[1][1] in names and x[1][1] == name:
                            uses.append('direct call')
    return uses


def rule_series_container(ctx, m):
    """SeriesContainer keeps a private list / C-ordered array and computes detected_ndim on every constructor path."""
    pm, f = _func(m, 'dtaidistance.util', 'SeriesContainer.__init__')
    st = [s for s in walk_stmts(f.body) if s.k == 'assign' and s.target == ('attr', ('var', 'self'), 'series')]
    vals = [fmt(s.value) for s in st]
    ok = "list(series)" in vals and any(v.startswith('np.asarray(series, order=') for v in vals)
    ctx.check(ok, 'R-EFF', pm.path, 'SeriesContainer.__init__', 'private storage',
              'list-like input must be copied into a private list (c_data_compat replaces elements in place) and arrays taken with np.asarray(order="C"); found %s' % vals, f.line)
    # detected_ndim (the stride handed to the C engine when ndim is not given): 1, or the number of components of the first point
    import re as _re
    POINT = _re.compile(r"^len\((self\.)?series\[0\]\[0\]\)$|^len\((self\.)?series\[\(0, 0\)\]\)$|^(self\.)?series\.shape\[(2|-1)\]$|^(self\.)?series\[0\]\.shape\[(1|-1)\]$")
    nd = 0
    for s_ in walk_stmts(f.body):
        if s_.k == 'assign' and s_.target == ('attr', ('var', 'self'), 'detected_ndim'):
            v = fmt(s_.value)
            nd += 1
            inst = 'SeriesContainer.__init__ detected_ndim = %s' % v
            if v in ('False', '1') or POINT.match(v):
                ctx.held('R-STRIDE', inst)
            elif _re.search(r"\.ndim$|^len\((self\.)?series\)$|^len\((self\.)?series\[0\]\)$|^\d+$|\.shape\[0\]$|^len\((self\.)?series\.shape\)$", v):
                ctx.violation('R-STRIDE', pm.path, 'SeriesContainer.__init__', 'detected_ndim = %s' % v,
                              'detected_ndim becomes the item stride of the C engine for multivariate containers; it must be the number of components of a point '
                              '(len(series[0][0])), but is set to %s -- the array rank / a length of another axis' % v, s_.line)
            else:
                ctx.undecided('R-STRIDE', inst, 'unrecognised expression for the point dimensionality')
    ctx.check(nd >= 6, 'R-STRIDE', pm.path, 'SeriesContainer.__init__', 'detected_ndim on every constructor path',
              'expected detected_ndim to be set on the ndarray, list-of-arrays and list-of-lists paths (found %d stores)' % nd, f.line)
    pm, g = _func(m, 'dtaidistance.util', 'SeriesContainer.c_data_compat')
    # path-sensitive: every store into self.series / self.series[i] is a C-ordered copy of the very object whose flags were found non-contiguous on that path,
    # in the list branch (per element) and in the array branch (whole array)
    from ..symexec import deep_events, Exec, Env
    from .kern import _conj
    selfs = ('attr', ('var', 'self'), 'series')

    def contig_lit(c):
        """(object, is_contiguous) when c tests <object>.flags.c_contiguous / <object>.data.c_contiguous (possibly negated)"""
        neg = False
        while c[0] == 'un' and c[1] == 'not':
            c, neg = c[2], not neg
        if c[0] == 'attr' and c[2] == 'c_contiguous' and c[1][0] == 'attr' and c[1][2] in ('flags', 'data'):
            return c[1][1], not neg
        return None

    def c_copy_of(v):
        """the object v is a C-ordered copy of, or None"""
        if v[0] == 'call' and any(k_ == 'order' and a_ == ('str', 'C') for k_, a_ in v[3]):
            d = (dotted(v[1]) or '').split('.')[-1]
            if d in ('asarray', 'ascontiguousarray', 'array', 'require') and v[2]:
                return v[2][0]
            if d == 'copy' and v[1][0] == 'attr':
                return v[1][1]
        if v[0] == 'call' and (dotted(v[1]) or '').split('.')[-1] == 'ascontiguousarray' and v[2]:
            return v[2][0]
        return None
    good = {'element': 0, 'whole': 0}
    bad = []
    for ev, lps in deep_events(g.body):
        if ev[0] != 'store':
            continue
        tgt, val = ev[2], ev[3]
        whole = tgt == selfs
        elem = tgt[0] == 'idx' and tgt[1] == selfs
        if not (whole or elem):
            continue
        lits = [l for l in (contig_lit(c) for c in _conj(ev[1])) if l is not None]
        src = c_copy_of(val)
        obj = tgt
        if src is not None and any(o == src and not isc for o, isc in lits) and src == obj:
            good['element' if elem else 'whole'] += 1
        else:
            bad.append(ev[4])
    ctx.check(good['element'] >= 1 and good['whole'] >= 1 and not bad, 'R-SAN', pm.path, 'SeriesContainer.c_data_compat', 'contiguity repair',
              'non C-contiguous members must be replaced by C-ordered copies, and the copy must be stored back into self.series (the object the pointers are taken from), '
              'in each of the list and array branches', (bad[0].line if bad else g.line))
    pm, v = _func(m, 'dtaidistance.util_numpy', 'verify_np_array')
    vex = Exec()
    vex.run(v.body, Env())
    seq = ('var', v.args[0])
    ok = True
    ncopy = 0
    def leaves(val, path):
        if val is not None and val[0] == 'cond':
            yield from leaves(val[2], path + (val[1],))
            yield from leaves(val[3], path + (('un', 'not', val[1]),))
        else:
            yield path, val
    for path, val, st_ in [(p2, v2, st0) for p0, v0, st0 in vex.returns for p2, v2 in leaves(v0, tuple(p0))]:
        if st_.k != 'return':
            continue
        lits = [l for l in (contig_lit(c) for c in _conj(path)) if l is not None]
        if any(o == seq and not isc for o, isc in lits):
            ok = ok and val is not None and c_copy_of(val) == seq
            ncopy += 1
        else:
            ok = ok and val == seq
    ctx.check(ok and ncopy >= 1, 'R-SAN', pm.path, 'verify_np_array', 'contiguity check', 'a non C-contiguous array must be replaced by seq.copy(order="C") and returned', v.line)


# ------------------------------------------------------------------------------------------ Needleman-Wunsch border / empty rows
def _indel_components(mod, f):
    """Second component of every returned pair of a substitution function, constants resolved through single local assignments."""
    env = {}
    for s in walk_stmts(f.body):
        if s.k == 'assign' and s.target[0] == 'var':
            env.setdefault(s.target[1], []).append(s.value)
    out = []
    for s in walk_stmts(f.body):
        if s.k == 'return' and s.value is not None and s.value[0] == 'tuple' and len(s.value[1]) == 2:
            v = s.value[1][1]
            if v[0] == 'var' and len(env.get(v[1], [])) == 1:
                v = env[v[1]][0]
            out.append(v)
    return out


def rule_nw_border(ctx, m):
    """The first row / column of the Needleman-Wunsch matrix is the cost of a run of gaps, so the border handed to dp must charge, per
    gap, the indel cost that the substitution function charges inside the matrix."""
    pm, nw = _func(m, 'dtaidistance.alignment', 'needleman_wunsch')
    _, bf = _func(m, 'dtaidistance.alignment', '_needleman_wunsch_border')
    rets = [fmt(s.value) for s in walk_stmts(bf.body) if s.k == 'return']
    ctx.check(sorted(rets) == ['0', 'ci', 'ri'], 'R-TAB', pm.path, '_needleman_wunsch_border', 'unit border',
              'the unit border is ci on row 0, ri on column 0 (one unit per gap), 0 elsewhere; found %s' % rets, bf.line)
    call = None
    for st, c in calls_in(nw.body):
        if dotted(c[1]) == 'dp':
            call = (st, c)
    if call is None:
        raise AnalysisError('anchor vanished: needleman_wunsch no longer calls dp')
    st, c = call
    border = dict((k, v) for k, v in c[3] if k is not None).get('border')
    env = {}
    for s_ in walk_stmts(nw.body):
        if s_.k == 'assign' and s_.target[0] == 'var':
            env[s_.target[1]] = s_.value
    while border is not None and border[0] == 'var' and border[1] in env:
        border = env[border[1]]
    # indel components of the substitution functions of the module
    default_f = pm.funcs.get('_default_substitution_fn')
    unwrap = pm.funcs.get('make_substitution_fn.<locals>._unwrap')
    factory = pm.funcs.get('make_substitution_fn')
    if default_f is None or unwrap is None or factory is None:
        raise AnalysisError('anchor vanished: substitution functions of alignment.py')
    # the two dictionary branches of the generated function ((a, b) and the reversed key (b, a)) score alike: same orientation modifier
    forms = set()
    nlook = 0
    for s_ in walk_stmts(unwrap.body):
        if s_.k == 'return' and s_.value is not None and s_.value[0] == 'tuple' and len(s_.value[1]) == 2:
            first = s_.value[1][0]
            look = [x for x in walk_expr(first) if x[0] == 'idx' and x[1] == ('var', 'matrix')]
            if look:
                nlook += 1
                txt = fmt(first)
                for lk in look:
                    txt = txt.replace(fmt(lk), 'matrix[K]')
                forms.add(txt)
    ctx.check(nlook >= 2 and len(forms) == 1, 'R-TAB', pm.path, 'make_substitution_fn', 'dictionary branches agree',
              'a pair found as (a, b) and a pair found through the reversed key (b, a) must be scored by the same expression of the dictionary value '
              '(the max/min orientation modifier applies to both); found %s' % sorted(forms), factory.line)
    ind_default = {fmt(x) for x in _indel_components(pm, default_f)}
    ind_custom = {fmt(x) for x in _indel_components(pm, unwrap)}
    ctx.count('substitution indel components', len(ind_default) + len(ind_custom))
    scale = None     # (expression of the per-gap factor) when the border is `G * _needleman_wunsch_border(ri, ci)`
    if border is not None and border[0] == 'lambda':
        b = border[2]
        if b[0] == 'bin' and b[1] == '*':
            for g_, u in ((b[2], b[3]), (b[3], b[2])):
                if u[0] == 'call' and dotted(u[1]) == '_needleman_wunsch_border' and [fmt(a) for a in u[2]] == list(border[1]):
                    scale = g_
    if border == ('var', '_needleman_wunsch_border'):
        bad = sorted(x for x in ind_default | ind_custom if x != '1')
        ctx.check(not bad, 'R-TAB', pm.path, 'needleman_wunsch', 'border gap cost',
                  'the border charges 1 per gap, but a substitution function built by make_substitution_fn charges `%s` per gap inside the matrix: for gap != 1 the '
                  'first row/column and the interior disagree and the returned value is not the optimum (e.g. {}-matrix, gap=0.5: "A" vs "BA" gives 0 instead of 0.5)'
                  % ', '.join(bad), st.line, facts={'witness': {'s1': 'A', 's2': 'BA', 'gap': 0.5}})
    elif scale is not None:
        while scale[0] == 'var' and scale[1] in env:
            scale = env[scale[1]]
        ok = scale[0] == 'call' and dotted(scale[1]) == 'getattr' and len(scale[2]) == 3 and scale[2][0] == ('var', 'substitution') and scale[2][1][0] == 'str'
        or_default = (scale[0] == 'bin' and scale[1] == 'or') or (scale[0] == 'boolop' and scale[1] == 'or')
        if or_default and any(x[0] == 'call' and dotted(x[1]) == 'getattr' for x in walk_expr(scale)):
            ctx.violation('R-TAB', pm.path, 'needleman_wunsch', 'border gap cost (falsy default)',
                          'the border scale is `%s`: a published gap cost of 0 is falsy and is replaced by the default, so the borders charge 1 per gap while the interior charges 0 '
                          "(make_substitution_fn({}, gap=0): '' vs 'A' scores -1 instead of 0)" % fmt(scale)[:80], st.line, facts={'witness': {'gap': 0, 's1': '', 's2': 'A'}})
        elif not ok:
            ctx.undecided('R-TAB', 'needleman_wunsch border gap cost', 'unrecognised provenance of the border scale %s' % fmt(scale))
        else:
            attr, dflt = scale[2][1][1], fmt(scale[2][2])
            ctx.check(ind_default == {dflt}, 'R-TAB', pm.path, 'needleman_wunsch', 'border gap cost (default)',
                      'functions without a `%s` attribute get border unit %s, but _default_substitution_fn charges %s per gap' % (attr, dflt, sorted(ind_default)), st.line)
            stores = [fmt(s_.value) for s_ in walk_stmts(factory.body) if s_.k == 'assign' and s_.target == ('attr', ('var', '_unwrap'), attr)]
            ctx.check(len(ind_custom) == 1 and stores == sorted(ind_custom), 'R-TAB', pm.path, 'make_substitution_fn', 'border gap cost (custom)',
                      'the function built by make_substitution_fn charges %s per gap and must publish exactly that as its `%s` attribute (found %s): otherwise border and '
                      'interior disagree' % (sorted(ind_custom), attr, stores), factory.line)
    else:
        ctx.undecided('R-TAB', 'needleman_wunsch border gap cost', 'unrecognised border argument %s' % (fmt(border) if border else None))


def rule_dp_empty_row(ctx, m):
    """dp's early exit `no cell of this row is <= max_dist -> return inf` reads a sentinel that is also left untouched by a row without any
    cell; the column range of a row is empty exactly when the second sequence is empty, and then the border column alone is the answer."""
    pm, f = _func(m, 'dtaidistance.dp', 'dp')
    exits = []
    for s in walk_stmts(f.body):
        if s.k == 'if' and 'last_under_max_dist == -1' in fmt(s.cond).replace('(', '').replace(')', '') and any(t.k == 'return' for t in s.then):
            exits.append(s)
    if not exits:
        raise AnalysisError('anchor vanished: early exit on last_under_max_dist in dp')
    # an earlier unconditional return for an empty second sequence also settles it
    early = any(s.k == 'if' and fmt(s.cond).replace('(', '').replace(')', '') in ('c == 0', 'not c', 'len(s2) == 0') and any(t.k == 'return' for t in s.then) for s in f.body)
    # the number of columns: len(<second sequence>) or a local holding it
    s2len = ('call', ('var', 'len'), (('var', f.args[1]),), ())
    ncols = {s2len} | {t.target for t in walk_stmts(f.body) if t.k == 'assign' and t.target[0] == 'var' and t.value == s2len} | \
        {tt for t in walk_stmts(f.body) if t.k == 'assign' and t.target[0] == 'tuple' and t.value[0] == 'tuple'
         for tt, vv in zip(t.target[1], t.value[1]) if vv == s2len}
    for s in exits:
        conj = []

        def flat(e):
            if e[0] == 'bin' and e[1] == 'and':
                flat(e[2]); flat(e[3])
            else:
                conj.append(e)
        flat(s.cond)

        def positive(e):
            if e in ncols:
                return True
            if e[0] == 'bin' and e[1] == '!=' and ((e[2] in ncols and e[3] == ('num', 0)) or (e[3] in ncols and e[2] == ('num', 0))):
                return True
            o = orient(e, lambda y: y in ncols)
            return o is not None and ((o[0] == '>' and o[2] == ('num', 0)) or (o[0] == '>=' and o[2] == ('num', 1)))
        ok = early or any(positive(x) for x in conj)
        ctx.check(ok, 'R-PRUNE', pm.path, 'dp', 'empty-row exit',
                  'the exit `%s` also fires for a row that has no cells at all (second sequence empty): needleman_wunsch("AB", "") returns -inf although '
                  'the only alignment (two gaps) scores -2, while needleman_wunsch("", "AB") returns -2' % fmt(s.cond), s.line,
                  facts={'witness': {'s1': 'AB', 's2': ''}})


# ------------------------------------------------------------------------------------------ local concurrences: consumed-cell marks
def _reads_same(value, target):
    return any(x == target for x in walk_expr(value))


def rule_lc_marks(ctx, m):
    """Non-compact LocalConcurrences marks the cells consumed by a match by making them negative (best_path stops at non-positive cells).
    (a) a sign flip `wp[i] = -wp[i]` is an involution: it is a valid mark only for the per-cell store over the simple path of the match; over
        a window / slice around the path the windows of neighbouring path cells overlap, so cells (including the path cells) are flipped an
        even number of times and become positive -- available to later matches -- again; such marks must be idempotent (-abs).
    (b) the reset used by restart=True / keep=False must undo value marks, not only the mask."""
    mod = m.py('dtaidistance.subsequence.localconcurrences')
    f = mod.funcs.get('LocalConcurrences.kbest_matches')
    g = mod.funcs.get('LocalConcurrences._reset_wp_mask')
    if f is None or g is None:
        raise AnalysisError('anchor vanished: LocalConcurrences.kbest_matches / _reset_wp_mask')
    marks = 0
    value_marks = False

    def visit(stmts, loopvars, in_path_loop):
        nonlocal marks, value_marks
        for s in stmts:
            if s.k in ('foreach', 'for'):
                over_path = s.k == 'foreach' and fmt(s.iter) == 'path'
                lv = set(loopvars)
                if s.k == 'foreach':
                    lv |= {x[1] for x in walk_expr(s.target) if x[0] == 'var'}
                else:
                    lv.add(s.var)
                visit(s.body, lv if not over_path else {x[1] for x in walk_expr(s.target) if x[0] == 'var'}, in_path_loop or over_path)
                continue
            for blk in sub_blocks(s):
                visit(blk, loopvars, in_path_loop)
            if s.k == 'assign' and s.target[0] == 'idx' and s.target[1] == ('var', 'wp') and _reads_same(s.value, s.target):
                marks += 1
                value_marks = True
                v = s.value
                idem = v[0] == 'un' and v[1] == 'neg' and v[2][0] == 'call' and (dotted(v[2][1]) or '').split('.')[-1] in ('abs', 'fabs', 'absolute')
                flip = v == ('un', 'neg', s.target)
                idx = s.target[2]
                comps = list(idx[1]) if idx[0] == 'tuple' else [idx]
                has_slice = any(c[0] == 'slice' for c in comps)
                names = {x[1] for c in comps for x in walk_expr(c) if x[0] == 'var'}
                # the path cell itself: index built from the path loop's own variables only (e.g. x, y after x += 1; y += 1)
                window = has_slice or bool(names - loopvars_of_path[0]) if in_path_loop else True
                inst = 'kbest_matches mark wp[%s]' % fmt(idx)
                if idem:
                    ctx.held('R-DUAL', inst, 'idempotent mark')
                elif flip and not window:
                    ctx.held('R-DUAL', inst, 'sign flip of the path cell itself (each path cell is visited once)')
                elif flip and not in_path_loop:
                    # two whole-row / whole-column slices (negative buffer): the intersection block is flipped twice and the -inf borders become
                    # +inf, which ends the search; no reuse of a consumed cell has been demonstrated, so C18 is not decided here
                    ctx.undecided('R-DUAL', inst, 'sign flip over overlapping slices (negative buffer): not a demonstrated reuse')
                elif flip:
                    ctx.violation('R-DUAL', mod.path, 'LocalConcurrences.kbest_matches', 'window mark wp[%s]' % fmt(idx),
                                  'cells around a match are marked as consumed by flipping their sign over a window/slice; windows of neighbouring path cells (and the two '
                                  'slices) overlap, so some cells -- including cells of this or an earlier match -- are flipped back to positive and can be traced again: '
                                  'matches reuse cells of earlier matches (use an idempotent mark such as -abs)', s.line)
                else:
                    ctx.undecided('R-DUAL', inst, 'unrecognised mark %s' % fmt(v)[:80])
    loopvars_of_path = [set()]
    for s in walk_stmts(f.body):
        if s.k == 'foreach' and fmt(s.iter) == 'path' and any(t.k == 'if' for t in s.body):
            loopvars_of_path[0] = {x[1] for x in walk_expr(s.target) if x[0] == 'var'}
            break
    if not loopvars_of_path[0]:
        raise AnalysisError('unrecognised shape: per-cell marking loop of kbest_matches')
    visit(f.body, set(), False)
    ctx.check(marks >= 1, 'R-DUAL', mod.path, 'LocalConcurrences.kbest_matches', 'marks found', 'no consumed-cell marks found', f.line)
    # (b) reset
    if value_marks:
        noncompact = None
        for s in g.body:
            if s.k == 'if' and fmt(s.cond) == 'self.compact':
                noncompact = s.els
        if noncompact is None:
            raise AnalysisError('unrecognised shape: _reset_wp_mask without compact/non-compact branches')
        aliases = {'wp'}
        for s in walk_stmts(noncompact):
            if s.k == 'assign' and s.target[0] == 'var' and fmt(s.value) in ('wp.data', 'self._wp.data', 'self._wp', 'wp'):
                aliases.add(s.target[1])
        restores = []
        for s in walk_stmts(noncompact):
            if s.k == 'assign':
                base = s.target
                while base[0] in ('idx', 'attr') and base != ('attr', ('var', 'wp'), 'data'):
                    base = base[1]
                bname = 'wp' if base == ('attr', ('var', 'wp'), 'data') else (base[1] if base[0] == 'var' else None)
                if bname in aliases and any(x[0] == 'var' and x[1] in aliases for x in walk_expr(s.value)) and s.target[0] != 'var':
                    restores.append(s)
            for e in stmt_exprs(s):
                for x in walk_expr(e):
                    if x[0] == 'call' and (dotted(x[1]) or '').split('.')[-1] in ('negative', 'abs', 'absolute', 'copyto') and any(k == 'out' for k, _ in x[3] if k):
                        restores.append(s)
        # the restore is unconditional: kbest_matches marks cells on every path that inspects a candidate (also candidates it then discards), so a restore that
        # runs only under a test of some object state (a `dirty` flag set on one of those paths) leaves the other marks in place
        guards = []

        def under(stmts, conds):
            for s_ in stmts:
                if s_.k == 'if':
                    under(s_.then, conds + [s_.cond])
                    under(s_.els or [], conds + [('un', 'not', s_.cond)])
                    continue
                is_restore = any(s_ is r_ for r_ in restores) or any(x[0] == 'call' and (dotted(x[1]) or '').split('.')[-1] == 'wps_positivize'
                                                                     for e in stmt_exprs(s_) for x in walk_expr(e))
                if is_restore:
                    for c_ in conds:
                        st_ = sorted({x[2] for x in walk_expr(c_) if x[0] == 'attr' and x[1] == ('var', 'self') and x[2] != 'compact'})
                        if st_:
                            guards.append((s_, st_))
                for b_ in sub_blocks(s_):
                    under(b_, conds)
        under(g.body, [])
        if guards:
            # accepted: a flag that kbest_matches raises before it can mark anything -- `self.F = True` outside every `if`, ahead of the first mark in program order
            order = []

            def pre(stmts, in_if):
                for s_ in stmts:
                    order.append((s_, in_if))
                    if s_.k == 'if':
                        pre(s_.then, True)
                        pre(s_.els or [], True)
                    else:
                        for b_ in sub_blocks(s_):
                            pre(b_, in_if)
            pre(f.body, False)
            first_mark = next((i_ for i_, (s_, _) in enumerate(order) if s_.k == 'assign' and s_.target[0] == 'idx' and s_.target[1] == ('var', 'wp')
                               and _reads_same(s_.value, s_.target)), len(order))

            def raised_early(attr):
                return any(i_ < first_mark and not in_if and s_.k == 'assign' and s_.target == ('attr', ('var', 'self'), attr) and s_.value in (('bool', True), ('num', 1))
                           for i_, (s_, in_if) in enumerate(order))
            guards = [(s_, [a_ for a_ in st_ if not raised_early(a_)]) for s_, st_ in guards]
            guards = [(s_, st_) for s_, st_ in guards if st_]
        ctx.check(not guards, 'R-DUAL', mod.path, 'LocalConcurrences._reset_wp_mask', 'reset undoes marks unconditionally',
                  'the pass that makes consumed cells available again runs only under a test of self.%s: cells negated on a path that does not establish that state '
                  '(candidates kbest_matches discards) stay consumed after restart=True / keep=False' % (', self.'.join(guards[0][1]) if guards else ''),
                  guards[0][0].line if guards else g.line)
        ctx.check(bool(restores), 'R-DUAL', mod.path, 'LocalConcurrences._reset_wp_mask', 'reset undoes value marks',
                  'kbest_matches (non-compact) marks consumed cells by negating their values, but the non-compact reset only rewrites the mask: after a search, '
                  'restart=True / keep=False do not make the consumed cells available again, so the same call sequence on one object returns different matches', g.line)


# ================================================================================================= C18: window mask of the non-compact matrix
def rule_lc_window_mask(ctx, m):
    """LocalConcurrences._reset_wp_mask (pure-Python, non-compact matrix): after the reset every cell inside the band of the affinity recurrence is unmasked,
    whatever the mask held before (cells of earlier matches).  The routine is read as a sequence of events on the diagonals d = column - row of the matrix:
    `np.tril_indices(.., k=K, ..)` selects d <= K, `np.triu_indices(.., k=K, ..)` selects d >= K; `wp[il] = ma.masked` / `wp.mask[il] = True` masks the selection,
    `wp.mask[il] = False` unmasks it, `wp.mask = False` unmasks everything.  The K's are piecewise-linear terms over (rows, columns, window); the final state of
    every in-band diagonal (band of the documented scheme: -(W-1) - max(0, l1-l2) <= d <= (W-1) + max(0, l2-l1)) is evaluated for all shapes and windows in a box;
    a diagonal that ends masked, or keeps its earlier state, is reported with the witness."""
    from .. import sym
    from ..symexec import subst_expr
    mod = m.py('dtaidistance.subsequence.localconcurrences')
    f = mod.funcs.get('LocalConcurrences._reset_wp_mask')
    if f is None:
        raise AnalysisError('anchor vanished: LocalConcurrences._reset_wp_mask')
    fn = 'LocalConcurrences._reset_wp_mask'
    inst = 'localconcurrences.py:%s:window mask covers the band' % fn

    # the arm taken for a window: the else-arm of `if self.window is None`
    def window_test(c):
        txt = fmt(c)
        return 'window' in txt and ('is None' in txt or 'isnot' in txt or 'is not' in txt)
    arm = None
    for s in walk_stmts(f.body):
        if s.k == 'if' and window_test(s.cond):
            neg = 'isnot' in fmt(s.cond) or 'is not' in fmt(s.cond)
            arm = s.then if neg else s.els
            none_arm = s.els if neg else s.then
            break
    if arm is None:
        ctx.undecided('R-BAND', inst, 'no `if self.window is None` split recognised')
        return
    ok_none = any(s.k == 'assign' and fmt(s.target).endswith('.mask') and s.value in (('bool', False),) for s in none_arm)
    ctx.check(ok_none, 'R-BAND', mod.path, fn, 'mask cleared without a window',
              'without a window every cell is inside the band: the reset must clear the whole mask (`wp.mask = False`)', f.line if hasattr(f, 'line') else None)

    ROWS, COLS, WIN = sym.var('N'), sym.var('M'), sym.var('W')

    def atom(x):
        t = fmt(x)
        if t.endswith('.shape[0]') or t in ('(len(self.series1) + 1)',):
            return ROWS
        if t.endswith('.shape[1]') or t in ('(len(self.series2) + 1)',):
            return COLS
        if t == 'self.window':
            return WIN
        return None

    env = {}
    events = []        # (kind, selector, K term, stmt)   kind in mask / unmask / all-unmask / all-mask; selector 'le' (tril) / 'ge' (triu)
    sel = {}           # index variable -> (selector, K term)
    for s in arm:
        if s.k == 'if' and len(s.then) == 1 and len(s.els or ()) == 1 and s.then[0].k == 'assign' and s.els[0].k == 'assign' \
                and s.then[0].target == s.els[0].target and s.then[0].target[0] == 'var':
            # `v = a if c else b`, which the front end presents as a two-armed if
            env[s.then[0].target[1]] = ('cond', subst_expr(s.cond, env), subst_expr(s.then[0].value, env), subst_expr(s.els[0].value, env))
            sel.pop(s.then[0].target[1], None)
            continue
        if s.k != 'assign':
            if s.k in ('expr', 'pass'):
                continue
            ctx.undecided('R-BAND', inst, 'statement kind `%s` in the window arm is not modelled' % s.k)
            return
        tgt, val = s.target, subst_expr(s.value, env)
        if tgt[0] == 'tuple':
            for k_, t_ in enumerate(tgt[1]):
                if t_[0] == 'var':
                    env[t_[1]] = val[1][k_] if val[0] == 'tuple' and len(val[1]) == len(tgt[1]) else ('idx', val, ('num', k_))
            continue
        if tgt[0] == 'var':
            if val[0] == 'call' and dotted(val[1]).split('.')[-1] in ('tril_indices', 'triu_indices'):
                kw = dict(val[3])
                pos = list(val[2])
                kexpr = kw.get('k', pos[1] if len(pos) > 1 else ('num', 0))
                nexpr = kw.get('n', pos[0] if pos else None)
                mexpr = kw.get('m', pos[2] if len(pos) > 2 else nexpr)
                try:
                    kt = sym.from_ir(kexpr, atom=atom)
                    nt, mt = sym.from_ir(nexpr, atom=atom), sym.from_ir(mexpr, atom=atom)
                except sym.Unsupported as e:
                    ctx.undecided('R-BAND', inst, 'diagonal offset not piecewise linear: %s' % e)
                    return
                if nt != ROWS or mt != COLS:
                    ctx.undecided('R-BAND', inst, 'index selection over a different shape: n=%s m=%s' % (fmt(nexpr), fmt(mexpr)))
                    return
                sel[tgt[1]] = ('le' if dotted(val[1]).endswith('tril_indices') else 'ge', kt)
                env.pop(tgt[1], None)
            else:
                env[tgt[1]] = val
                sel.pop(tgt[1], None)
            continue
        txt = fmt(tgt)
        base = tgt
        idxv = None
        if tgt[0] == 'idx' and tgt[2][0] == 'var':
            idxv, base = tgt[2][1], tgt[1]
        btxt = fmt(base)
        is_mask_attr = btxt.endswith('.mask')
        vtxt = fmt(s.value)
        if idxv is None:
            if is_mask_attr and s.value in (('bool', False), ('bool', True)):
                events.append(('unmask' if s.value == ('bool', False) else 'mask', 'all', None, s))
                continue
            ctx.undecided('R-BAND', inst, 'store `%s` in the window arm is not modelled' % txt[:60])
            return
        if idxv not in sel:
            ctx.undecided('R-BAND', inst, 'store through `%s`, which is not a tril/triu selection' % idxv)
            return
        if is_mask_attr and s.value in (('bool', False), ('bool', True)):
            events.append(('unmask' if s.value == ('bool', False) else 'mask',) + sel[idxv] + (s,))
        elif vtxt.endswith('masked'):
            events.append(('mask',) + sel[idxv] + (s,))
        else:
            continue       # a value store (e.g. -inf) does not change the mask
    if not events:
        ctx.undecided('R-BAND', inst, 'no mask event recognised in the window arm')
        return
    ats = set()
    for e in events:
        if e[2] is not None:
            ats |= set(sym.atoms(e[2]))
    if not ats <= {'N', 'M', 'W'}:
        ctx.undecided('R-BAND', inst, 'diagonal offsets depend on %s' % sorted(ats - {'N', 'M', 'W'}))
        return
    witness = None
    n = 0
    for N in range(2, 9):
        for M in range(2, 9):
            for W in range(1, 9):
                val = {'N': N, 'M': M, 'W': W}
                l1, l2 = N - 1, M - 1
                lo, hi = -(W - 1) - max(0, l1 - l2), (W - 1) + max(0, l2 - l1)
                ks = [(e[0], e[1], None if e[2] is None else sym.evaluate(e[2], val)) for e in events]
                for d in range(max(lo, -(N - 1) + 1), min(hi, M - 1 - 1) + 1):      # diagonals that hold a cell with row >= 1 and column >= 1
                    n += 1
                    st = 'before'           # whatever an earlier search left
                    which = None
                    for (kind, selr, K), e in zip(ks, events):
                        if selr == 'all' or (selr == 'le' and d <= K) or (selr == 'ge' and d >= K):
                            st, which = kind, e
                    if st != 'unmask' and witness is None:
                        witness = (N, M, W, d, st, which)
    ctx.count('mask diagonals evaluated', n)
    if witness is None:
        ctx.held('R-BAND', inst, '%d mask events; %d in-band diagonals over shapes 2..8 x 2..8, windows 1..8 end unmasked' % (len(events), n))
    else:
        N, M, W, d, st, which = witness
        ctx.violation('R-BAND', mod.path, fn, 'window mask covers the band',
                      'with %d x %d cells and window %d the diagonal column - row = %d is inside the band of the recurrence but ends %s after the reset%s: '
                      'a match that runs there is never returned' % (N, M, W, d, 'masked' if st == 'mask' else 'in the state the previous search left',
                                                                     (' (`%s`)' % fmt(which[3].target)[:40]) if which else ''),
                      which[3].line if which else None, facts={'witness': {'rows': N, 'cols': M, 'window': W, 'diagonal': d}})


# ================================================================================================= per-call state of the model objects (history independence)
HISTORY_METHODS = {
    'C16': [('dtaidistance.clustering.kmeans', 'KMeans.fit')],
    'C15': [('dtaidistance.clustering.hierarchical', 'Hierarchical.fit'), ('dtaidistance.clustering.hierarchical', 'HierarchicalTree.fit'),
            ('dtaidistance.clustering.hierarchical', 'LinkageTree.fit')],
    'C13': [('dtaidistance.subsequence.subsequencealignment', 'SubsequenceAlignment.align')],
    'C18': [('dtaidistance.subsequence.localconcurrences', 'LocalConcurrences.align')],
}
HISTORY_METHODS['C20'] = [x for k in ('C16', 'C15', 'C13', 'C18') for x in HISTORY_METHODS[k]]


def rule_call_history(ctx, m, targets):
    """A `fit` / `align` call computes its result from its arguments and the object's configuration, not from what an earlier call on the same object left behind.
    (a) definite assignment: an attribute `self.X` that the method itself assigns is per-call state; every read of it inside the method must be preceded, on every
        path from the entry of the method, by an assignment made in this call (if/else joins intersect, a loop body may run zero times, `while True` leaves through
        its breaks).  A read that some path reaches without such an assignment sees the value of the previous call.
    (b) no conditional cache of a mutable attribute: `self.D.setdefault(key, <expression over self.Y>)` writes only when the key is absent -- a second call keeps the
        value derived from the old self.Y although self.Y may have been changed in between (by the user or by a wrapping class).
    SubsequenceSearch.align keeps a result cache by design and is decided by its own rules (rule_subseq_search)."""
    n = 0
    for mname, q in targets:
        mod = m.py(mname)
        f = mod.funcs.get(q)
        if f is None:
            raise AnalysisError('anchor vanished: %s.%s' % (mname, q))
        n += 1
        W = set()
        for s in walk_stmts(f.body):
            if s.k == 'assign':
                for t in (s.target[1] if s.target[0] == 'tuple' else [s.target]):
                    if t[0] == 'attr' and t[1] == ('var', 'self'):
                        W.add(t[2])
        bad = []

        def reads(e, D, s):
            if e is None or not isinstance(e, tuple):
                return
            # `self.X is None` / `is not None` asks whether X has been computed at all (compute-once results that `reset()` clears): not a use of the old value
            memo = {x[2] if x[3] == ('none',) else x[3] for x in walk_expr(e) if x[0] == 'bin' and x[1] in ('is', 'isnot', '==', '!=') and ('none',) in (x[2], x[3])}
            for x in walk_expr(e):
                if x[0] == 'attr' and x[1] == ('var', 'self') and x[2] in W and x[2] not in D and x not in memo:
                    bad.append((x[2], s))

        def flow(stmts, D, brk):
            """-> set of attributes assigned on every path that falls through, or None when no path falls through"""
            D = set(D)
            for s in stmts:
                if s.k == 'assign':
                    reads(s.value, D, s)
                    tgts = s.target[1] if s.target[0] == 'tuple' else [s.target]
                    for t in tgts:
                        if t[0] == 'attr' and t[1] == ('var', 'self'):
                            if s.d.get('aug'):
                                reads(t, D, s)
                            D.add(t[2])
                        else:
                            for k_, sub in enumerate(t[1:]):
                                reads(sub, D, s)
                elif s.k == 'if':
                    reads(s.cond, D, s)
                    a, b = flow(s.then, D, brk), flow(s.els or [], D, brk)
                    if a is None and b is None:
                        return None
                    D = a if b is None else (b if a is None else (a & b))
                elif s.k in ('for', 'foreach', 'while'):
                    for e in stmt_exprs(s):
                        reads(e, D, s)
                    inner = []
                    flow(s.body, D, inner)
                    forever = s.k == 'while' and s.cond in (('bool', True), ('num', 1))
                    if forever:
                        if not inner:
                            return None
                        out = None
                        for d_ in inner:
                            out = set(d_) if out is None else (out & d_)
                        D = out
                    # otherwise the body may run zero times: nothing is added
                    if s.d.get('orelse'):
                        r = flow(s.orelse, D, brk)
                        D = D if r is None else r
                elif s.k in ('return', 'raise'):
                    reads(s.value, D, s)
                    return None
                elif s.k == 'break':
                    brk.append(set(D))
                    return None
                elif s.k == 'continue':
                    return None
                elif s.k == 'try':
                    a = flow(s.body, D, brk)
                    outs = [a] if a is not None else []
                    for h in s.handlers:
                        r = flow(h[2], D, brk)
                        if r is not None:
                            outs.append(r)
                    if not outs:
                        return None
                    D2 = outs[0]
                    for o in outs[1:]:
                        D2 = D2 & o
                    D = D2
                    if s.d.get('final'):
                        r = flow(s.final, D, brk)
                        if r is None:
                            return None
                        D = r
                elif s.k == 'with':
                    for a_, b_ in s.items:
                        reads(a_, D, s)
                    r = flow(s.body, D, brk)
                    if r is None:
                        return None
                    D = r
                elif s.k in ('def', 'class'):
                    continue
                else:
                    for e in stmt_exprs(s):
                        reads(e, D, s)
            return D
        flow(f.body, set(), [])
        seen = set()
        for attr, s in bad:
            if attr in seen:
                continue
            seen.add(attr)
            ctx.violation('R-PATH', mod.path, q, 'per-call state self.%s' % attr,
                          '`self.%s` is assigned by %s itself, but the read at line %s is reached by a path on which this call has not assigned it yet: the value '
                          'left by an earlier call on the same object decides what this call does' % (attr, q.split('.')[-1], s.line), s.line)
        for attr in sorted(W - seen):
            ctx.held('R-PATH', '%s:%s:per-call state self.%s' % (os.path.basename(mod.path), q, attr))
        # (b)
        for s in walk_stmts(f.body):
            for e in stmt_exprs(s):
                for x in walk_expr(e):
                    if x[0] == 'call' and x[1][0] == 'attr' and x[1][2] == 'setdefault' and x[1][1][0] == 'attr' and x[1][1][1] == ('var', 'self') and len(x[2]) == 2:
                        dep = sorted({y[2] for y in walk_expr(x[2][1]) if y[0] == 'attr' and y[1] == ('var', 'self')})
                        ctx.check(not dep, 'R-PATH', mod.path, q, 'conditional cache self.%s[%s]' % (x[1][1][2], fmt(x[2][0])),
                                  '`self.%s.setdefault(%s, ..)` stores a value derived from self.%s only when the key is absent: a later call keeps the old value although '
                                  'self.%s may have changed since (set by the user or reset by a wrapping class)' % (x[1][1][2], fmt(x[2][0]), ', self.'.join(dep), ', self.'.join(dep)), s.line)
    ctx.count('methods checked for per-call state', n)
