"""R-ITER: the distance-matrix iteration space agrees in every enumerator, and R-OMP: parallel regions are race free
by construction (complete privatisation, single shared output, disjoint slots from the prefix-sum plan)."""
from ..cfront import AnalysisError
from ..ir import fmt, walk_stmts, walk_expr, stmt_exprs, dotted, sub_blocks
from .. import sym
from ..sym import var as V, const as C, add, sub, tmax, tmin
from ..symexec import Exec, Env, subst_expr, assigned_vars, norm_minmax, fold_bool, peval_fields
from .kern import abstract

DOM = [V('RB'), sub(sub(V('RE'), V('RB')), C(1)), V('CB'), sub(sub(V('CE'), V('CB')), C(1)), sub(V('N'), V('RE')), sub(V('N'), V('CE')),
       sub(V('r'), V('RB')), sub(sub(V('RE'), V('r')), C(1))]
BOX = {a: range(0, 6) for a in ('RB', 'RE', 'CB', 'CE', 'N', 'r')}
BOX['N'] = range(1, 6)


def canon(triu):
    lo = tmax(add(V('r'), C(1)), V('CB')) if triu else V('CB')
    return lo, V('CE')


class BlockAtoms:
    """Canonical atoms for block fields in C (block->rb) / pyx / Python (block[0][0])."""

    def __init__(self, lang, blockvar='block', nvars=()):
        self.lang = lang
        self.b = blockvar
        self.nvars = set(nvars)

    def __call__(self, e):
        k = e[0]
        if k == 'attr' and e[1] == ('var', self.b):
            return {'rb': 'RB', 're': 'RE', 'cb': 'CB', 'ce': 'CE', 'triu': 'TRIU'}.get(e[2])
        if k == 'idx' and e[2][0] == 'num' and e[1][0] == 'idx' and e[1][2][0] == 'num':
            base = e[1][1]
            if _is_block(base, self.b):
                return {(0, 0): 'RB', (0, 1): 'RE', (1, 0): 'CB', (1, 1): 'CE'}.get((e[1][2][1], e[2][1]))
        if k == 'var' and e[1] in self.nvars:
            return 'N'
        if k == 'call' and dotted(e[1]) == 'len' and len(e[2]) == 1 and e[2][0][0] == 'var' and e[2][0][1] in self.nvars:
            return 'N'
        if k == 'var':
            return e[1]
        return None


def _is_block(base, name):
    """block / _complete_block(block, n)[0]"""
    if base == ('var', name):
        return True
    if base[0] == 'idx' and base[2] == ('num', 0) and base[1][0] == 'call' and (dotted(base[1][1]) or '').endswith('_complete_block'):
        return True
    return False


def _term(e, amap):
    return sym.from_ir(norm_minmax(e), atom=amap)


def _cases(e, triu_exprs):
    """Specialise expression e for triu True / False."""
    out = []
    for val in (True, False):
        x = abstract(e, {t: '__TRIU' for t in triu_exprs})
        x = subst_expr(x, {'__TRIU': ('bool', val)})
        out.append((val, norm_minmax(x)))
    return out


def _check_range(ctx, file, fname, what, lo_e, hi_e, amap, triu_exprs, line, rowvar):
    for triu, lo_x in _cases(lo_e, triu_exprs):
        hi_x = dict(_cases(hi_e, triu_exprs))[triu]
        try:
            lo = sym.rename(_term(lo_x, amap), {rowvar: 'r'})
            hi = sym.rename(_term(hi_x, amap), {rowvar: 'r'})
        except sym.Unsupported as e:
            ctx.undecided('R-ITER', '%s %s' % (fname, what), str(e))
            continue
        wlo, whi = canon(triu)
        for nm, g, w in (('lower', lo, wlo), ('upper', hi, whi)):
            r = sym.equivalent(g, w, DOM, box=BOX)
            inst = '%s:%s %s column %s bound [triu=%s]' % (file.split('/')[-1], fname, what, nm, triu)
            if r[0] == 'equal':
                ctx.held('R-ITER', inst, r[1])
            elif r[0] == 'differ':
                wv = r[1]
                ctx.violation('R-ITER', file, fname, '%s column %s bound' % (what, nm),
                              'for a %s block the %s column bound of row r is %s, the documented pair set requires %s: at %s they give %s vs %s'
                              % ('triangular' if triu else 'rectangular', nm, sym.show(g), sym.show(w),
                                 ', '.join('%s=%s' % kv for kv in sorted(wv.items())), sym.evaluate(g, wv), sym.evaluate(w, wv)), line=line, facts={'witness': wv})
            else:
                ctx.undecided('R-ITER', inst, r[1])


def _pair_loops(body):
    """Find (outer loop, inner loop) of a pair enumeration: an outer counted loop whose body contains an inner loop."""
    for s in walk_stmts(body):
        if s.k in ('for', 'foreach'):
            for t in s.body:
                if t.k in ('for', 'foreach'):
                    return s, t
    return None


def _strip_progress(it):
    """tqdm(range(..)) / cond(flag, tqdm(X), X) -> X"""
    if it[0] == 'call' and (dotted(it[1]) or '') == 'tqdm' and len(it[2]) == 1:
        return _strip_progress(it[2][0])
    if it[0] == 'cond':
        a, b = _strip_progress(it[2]), _strip_progress(it[3])
        if a == b:
            return a
    return it


class _AsFor:
    """View of a `for v in <range expr>` loop as a counted loop."""

    def __init__(self, loop, env):
        self.k = 'for'
        self.line = loop.line
        self.body = loop.body
        if loop.k == 'for':
            self.var, self.lo, self.hi = loop.var, loop.lo, loop.hi
        else:
            it = _strip_progress(subst_expr(loop.iter, env))
            lo, hi = _range_bounds(it)
            if lo is None or loop.target[0] != 'var':
                raise AnalysisError('unrecognised shape: row iterator %s' % fmt(it)[:100])
            self.var, self.lo, self.hi = loop.target[1], lo, hi


def _rows_ok(ctx, file, fname, outer, env, amap, offset=None):
    lo = _term(subst_expr(outer.lo, env), amap)
    hi = _term(subst_expr(outer.hi, env), amap)
    if offset == 'rel':
        ok = lo == C(0) and hi == sub(V('RE'), V('RB'))
        want = '[0, re - rb)'
    else:
        ok = lo == V('RB') and hi == V('RE')
        want = '[rb, re)'
    ctx.check(ok, 'R-ITER', file, fname, 'row range', 'rows must range over %s; found [%s, %s)' % (want, sym.show(lo), sym.show(hi)), outer.line)


# ------------------------------------------------------------------------------------------ Python enumerators
def rule_iter_python(ctx, m):
    mod = m.py('dtaidistance.dtw')
    for fn, nv in (('_distance_matrix_idxs', ('nb_series',)), ('distance_matrix_python', ('s',))):
        f = mod.funcs.get(fn)
        if f is None:
            raise AnalysisError('anchor vanished: dtw.%s' % fn)
        pl = _pair_loops(f.body)
        if pl is None:
            raise AnalysisError('unrecognised shape: no pair loops in dtw.%s' % fn)
        outer, inner = pl
        outer_stmt = outer
        # environment up to the outer loop (which may sit inside an if for the numpy shortcut)
        ex = Exec()
        env = Env()
        _run_until(ex, f.body, env, outer_stmt)
        amap = BlockAtoms('py', 'block', nv)
        outer = _AsFor(outer, env)
        _rows_ok(ctx, mod.path, fn, outer, env, amap)
        benv = env.copy()
        for v_ in assigned_vars(outer.body):
            benv[v_] = ('var', v_ + '@in')          # whatever the previous row left behind
        benv[outer.var] = ('var', 'r')
        ex2 = Exec()
        idx = outer.body.index(inner)
        benv = ex2.run(outer.body[:idx], benv)
        if inner.k == 'foreach':
            it = subst_expr(inner.iter, benv)
        else:
            it = ('call', ('var', 'range'), (subst_expr(inner.lo, benv), subst_expr(inner.hi, benv)), ())
        carried = sorted({x[1][:-3] for x in walk_expr(it) if x[0] == 'var' and x[1].endswith('@in')})
        if carried:
            own = inner.k == 'for' and carried == [inner.var]
            if own:
                ctx.violation('R-ITER', mod.path, fn, 'pair loop column range',
                              'the column loop of a row starts from the value `%s` left by the previous row\'s column loop (on the path where it is not re-initialised): that '
                              'loop ran until %s >= %s, so every later row enumerates no pair and its slots keep their filler' % (inner.var, inner.var, fmt(inner.hi)), inner.line)
            else:
                ctx.undecided('R-ITER', '%s pair loop' % fn, 'the column range depends on values carried between rows: %s' % carried)
            continue
        triu_exprs = _triu_exprs(it)
        los, his = _range_bounds(it)
        if los is None:
            raise AnalysisError('unrecognised shape: column iterator of dtw.%s is %s' % (fn, fmt(it)[:120]))
        _check_range(ctx, mod.path, fn, 'pair loop', los, his, amap, triu_exprs, inner.line, 'r')
        # order: row appended/used first
        if fn == 'distance_matrix_python':
            calls = [c for s_ in walk_stmts(inner.body) for e in stmt_exprs(s_) for c in walk_expr(e) if c[0] == 'call' and (dotted(c[1]) or '') == 'distance']
            ok = len(calls) == 1 and calls[0][2][0] == ('idx', ('var', 's'), ('var', outer.var)) and calls[0][2][1] == ('idx', ('var', 's'), _loopvar(inner))
            ctx.check(ok, 'R-ITER', mod.path, fn, 'pair order', 'the serial enumerator must call distance(s[row], s[col])', inner.line)
            # idx advances once per pair, starts at 0
            _counter_ok(ctx, mod.path, fn, f.body, outer_stmt, inner, 'dists')
        else:
            # the index pair is returned as (row indices, column indices): callers unpack / zip it in that order and index the square matrix with it
            apps = {}
            for s_ in inner.body:
                if s_.k == 'expr' and s_.value[0] == 'call' and s_.value[1][0] == 'attr' and s_.value[1][2] == 'append' and len(s_.value[2]) == 1:
                    apps[fmt(s_.value[1][1])] = s_.value[2][0]
            rowl = [k for k, v in apps.items() if v == ('var', outer_stmt.var if outer_stmt.k == 'for' else None) or v == _loopvar(outer_stmt)]
            coll = [k for k, v in apps.items() if v == _loopvar(inner)]
            okp = len(rowl) == 1 and len(coll) == 1
            bad = []
            if okp:
                for s_ in walk_stmts(f.body):
                    if s_.k == 'assign' and s_.target == ('var', 'idxs') and s_.value[0] == 'tuple' and len(s_.value[1]) == 2:
                        names = [[x[1] for x in walk_expr(e) if x[0] == 'var' and x[1] in (rowl[0], coll[0])] for e in s_.value[1]]
                        if names != [[rowl[0]], [coll[0]]]:
                            bad.append(fmt(s_.value)[:80])
            ctx.check(okp and not bad, 'R-ITER', mod.path, fn, 'index pair order',
                      'the enumerator must return (row indices, column indices) -- the order in which np.triu_indices returns them and every caller consumes them; found %s' % (bad or apps), inner.line)
    # length
    f = mod.funcs.get('_distance_matrix_length')
    _length_python(ctx, mod, f)


def _loopvar(loop):
    return ('var', loop.var) if loop.k == 'for' else loop.target


def _run_until(ex, stmts, env, target):
    """Execute statements up to `target` (descending into ifs that contain it)."""
    for s in stmts:
        if s is target:
            return True
        if s.k == 'if':
            inner = [t for t in walk_stmts(s.then)]
            if target in inner:
                return _run_until(ex, s.then, env, target)
            inner = [t for t in walk_stmts(s.els)]
            if target in inner:
                return _run_until(ex, s.els, env, target)
        ex.run([s], env)
    return False


def _triu_exprs(e):
    out = set()
    for x in walk_expr(e):
        if x[0] == 'cond':
            for c in _atoms_of_cond(x[1]):
                out.add(c)
    return out


def _atoms_of_cond(c):
    if c[0] == 'bin' and c[1] in ('and', 'or'):
        return _atoms_of_cond(c[2]) + _atoms_of_cond(c[3])
    if c[0] == 'un' and c[1] == 'not':
        return _atoms_of_cond(c[2])
    if c[0] == 'bin' and c[1] in ('<', '<=', '>', '>=', '==', '!='):
        return []
    return [c]


def _range_bounds(it):
    """it: range(a, b) | cond(T, range(a,b), range(c,d)) -> (lo expr, hi expr) with conds pushed inside."""
    if it[0] == 'call' and it[1] == ('var', 'range') and len(it[2]) == 2:
        return it[2][0], it[2][1]
    if it[0] == 'call' and it[1] == ('var', 'range') and len(it[2]) == 1:
        return ('num', 0), it[2][0]
    if it[0] == 'cond':
        a = _range_bounds(it[2])
        b = _range_bounds(it[3])
        if a[0] is None or b[0] is None:
            return None, None
        return ('cond', it[1], a[0], b[0]), ('cond', it[1], a[1], b[1])
    return None, None


def _counter_ok(ctx, file, fname, body, outer, inner, outname):
    """The output counter starts at 0 before the loops and advances exactly once per inner iteration."""
    stores = [s for s in walk_stmts(inner.body) if s.k == 'assign' and s.target[0] == 'idx' and s.target[1] == ('var', outname)]
    if len(stores) != 1 or stores[0].target[2][0] != 'var':
        ctx.violation('R-ITER', file, fname, 'output slot', 'expected one store `%s[counter] = value` per pair' % outname, inner.line)
        return
    cnt = stores[0].target[2][1]
    incs = [s for s in inner.body if s.k == 'assign' and s.target == ('var', cnt)]
    ok = len(incs) == 1 and incs[0].value == ('bin', '+', ('var', cnt), ('num', 1)) and inner.body.index(incs[0]) > inner.body.index(stores[0]) \
        if stores[0] in inner.body else False
    others = [s for s in walk_stmts(outer.body) if s.k == 'assign' and s.target == ('var', cnt) and s not in incs]
    init = [s for s in body if s.k in ('assign', 'decl') and ((s.k == 'assign' and s.target == ('var', cnt) and s.value == ('num', 0)) or
                                                              (s.k == 'decl' and s.name == cnt and s.init == ('num', 0)))]
    ctx.check(ok and not others and bool(init), 'R-ITER', file, fname, 'output counter',
              'the compact result is filled through a counter that must start at 0 and advance exactly once per pair (row-major order)', inner.line)


def _length_python(ctx, mod, f):
    if f is None:
        raise AnalysisError('anchor vanished: dtw._distance_matrix_length')
    amap = BlockAtoms('py', 'block', ('nb_series',))
    # find the per-row loop
    loop = None
    for s in walk_stmts(f.body):
        if s.k == 'for':
            loop = s
    if loop is None:
        raise AnalysisError('unrecognised shape: no row loop in _distance_matrix_length')
    ex = Exec()
    env = Env()
    _run_until(ex, f.body, env, loop)
    _rows_ok(ctx, mod.path, '_distance_matrix_length', loop, env, amap)
    benv = env.copy()
    benv[loop.var] = ('var', 'r')
    for v in assigned_vars(loop.body):
        benv[v] = ('var', v + '@in')
    ex2 = Exec()
    out = ex2.run(loop.body, benv)
    acc = _accumulator(out, assigned_vars(loop.body))
    if acc is None:
        raise AnalysisError('unrecognised shape: no accumulator in the row loop of _distance_matrix_length')
    val = out.get(acc)
    inc = _term(('bin', '-', val, ('var', acc + '@in')), amap)
    want = tmax(C(0), sub(V('CE'), tmax(add(V('r'), C(1)), V('CB'))))
    r = sym.equivalent(inc, want, DOM, box=BOX)
    ctx.check(r[0] == 'equal', 'R-ITER', mod.path, '_distance_matrix_length', 'per-row count (triangular)',
              'the advertised length adds %s for row r; the enumerators produce max(0, ce - max(r + 1, cb)) pairs%s'
              % (sym.show(inc), (' -- differs at %s' % r[1]) if r[0] == 'differ' else ''), loop.line)
    # rectangular: (re - rb) * (ce - cb), assigned to the result or returned directly
    okr = _has_rect_product(f.body, env, amap)
    ctx.check(okr, 'R-ITER', mod.path, '_distance_matrix_length', 'rectangular count', 'a non-triangular block must advertise (re - rb) * (ce - cb) entries', f.line)


def _accumulator(out, assigned):
    """The loop-carried variable that is updated from its own previous value (v = v@in + ...)."""
    if out is None:
        return None
    cands = [v for v in sorted(assigned) if out.get(v) is not None and out[v] != ('var', v + '@in') and any(x == ('var', v + '@in') for x in walk_expr(out[v]))]
    return cands[0] if len(cands) == 1 else None


def _has_rect_product(body, env, amap):
    for s in walk_stmts(body):
        v = s.value if s.k in ('assign', 'return') else (s.init if s.k == 'decl' else None)
        if v is None:
            continue
        v = subst_expr(v, env)
        if v[0] == 'bin' and v[1] == '*':
            try:
                t1, t2 = _term(v[2], amap), _term(v[3], amap)
            except sym.Unsupported:
                continue
            if {t1, t2} == {sub(V('RE'), V('RB')), sub(V('CE'), V('CB'))}:
                return True
    return False


# ------------------------------------------------------------------------------------------ C enumerators
SERIAL = ['dtw_distances_ptrs', 'dtw_distances_ndim_ptrs', 'dtw_distances_matrix', 'dtw_distances_ndim_matrix',
          'dtw_distances_matrices', 'dtw_distances_ndim_matrices']


def rule_iter_c_serial(ctx, m):
    unit = m.c('dd_dtw.c')
    for fn in SERIAL:
        f = unit.funcs.get(fn)
        if f is None:
            raise AnalysisError('anchor vanished: C function %s' % fn)
        pl = _pair_loops(f.body)
        if pl is None:
            raise AnalysisError('unrecognised shape: no pair loops in %s' % fn)
        outer, inner = pl
        amap = BlockAtoms('c', 'block')
        ex = Exec()
        env = Env()
        _run_until(ex, f.body, env, outer)
        # `if (block->re == 0) block->re = n` corrections are stores through the pointer: ignored (block is complete in the quantifier)
        _rows_ok(ctx, unit.path, fn, outer, env, amap)
        benv = env.copy()
        benv[outer.var] = ('var', 'r')
        idx = outer.body.index(inner)
        ex2 = Exec()
        benv = ex2.run(outer.body[:idx], benv)
        lo_e = subst_expr(inner.lo, benv) if inner.lo is not None else benv.get(inner.var)
        hi_e = subst_expr(inner.hi, benv)
        if lo_e is None:
            raise AnalysisError('unrecognised shape: column loop of %s has no start value' % fn)
        triu_exprs = {('attr', ('var', 'block'), 'triu')}
        _check_range(ctx, unit.path, fn, 'pair loop', lo_e, hi_e, amap, triu_exprs, inner.line, 'r')
        _counter_ok(ctx, unit.path, fn, f.body, outer, inner, 'output')
        _pair_call_order(ctx, unit.path, fn, inner, outer.var, inner.var)
    # length function
    f = unit.funcs.get('dtw_distances_length')
    if f is None:
        raise AnalysisError('anchor vanished: dtw_distances_length')
    loop = None
    for s in walk_stmts(f.body):
        if s.k == 'for':
            loop = s
    amap = BlockAtoms('c', 'block')
    ex = Exec()
    env = Env()
    _run_until(ex, f.body, env, loop)
    _rows_ok(ctx, unit.path, 'dtw_distances_length', loop, env, amap)
    benv = env.copy()
    benv[loop.var] = ('var', 'r')
    for v in assigned_vars(loop.body):
        benv[v] = ('var', v + '@in')
    ex2 = Exec()
    out = ex2.run(loop.body, benv)
    # paths: break when ce <= r (contributes 0 for this and all later rows)
    brk = [e for e in ex2.events if e[0] == 'break']
    acc = _accumulator(out, assigned_vars(loop.body))
    val = out.get(acc) if out and acc else None
    ok = False
    detail = 'no accumulator found'
    if val is not None:
        from .kern import _conj
        inc = _term(('bin', '-', val, ('var', acc + '@in')), amap)
        want = tmax(C(0), sub(V('CE'), tmax(add(V('r'), C(1)), V('CB'))))
        bconj = _conj(brk[0][1]) if len(brk) == 1 else []
        # the loop may stop only where this and every later row contributes nothing: some conjunct of the break path must be ce <= r
        okb = len(brk) == 1 and any(_is_ce_le_r(c, amap) for c in bconj)
        # on the continuing paths at least one conjunct of the break condition is false
        negs = [n_ for n_ in (_neg_constraint(c, amap) for c in bconj) if n_ is not None]
        ok = okb and bool(negs)
        detail = ''
        for n_ in negs:
            r = sym.equivalent(inc, want, DOM + [n_], box=BOX)
            ok = ok and r[0] == 'equal'
            if r[0] != 'equal':
                detail = '%s vs %s %s' % (sym.show(inc), sym.show(want), r[1])
        if not okb:
            detail = 'the loop stops early on a condition that does not imply ce <= r'
    ctx.check(ok, 'R-ITER', unit.path, 'dtw_distances_length', 'per-row count (triangular)',
              'the advertised length must add max(0, ce - max(r + 1, cb)) per row (and may stop once ce <= r): %s' % detail, loop.line)
    okr = _has_rect_product(f.body, env, amap)
    ctx.check(okr, 'R-ITER', unit.path, 'dtw_distances_length', 'rectangular count', 'a non-triangular block must advertise (re - rb) * (ce - cb) entries', f.line)


def _neg_constraint(c, amap):
    """Term t with (t >= 0) <=> not c, for an integer comparison c; None when c is not one."""
    neg = False
    while c[0] == 'un' and c[1] == 'not':
        c, neg = c[2], not neg
    if not (c[0] == 'bin' and c[1] in ('<', '<=', '>', '>=')):
        return None
    try:
        a, b = _term(c[2], amap), _term(c[3], amap)
    except sym.Unsupported:
        return None
    op = c[1]
    if neg:
        op = {'<': '>=', '<=': '>', '>': '<=', '>=': '<'}[op]
    # not (a op b)
    if op == '<':       # a >= b
        return sub(a, b)
    if op == '<=':      # a > b
        return sub(sub(a, b), C(1))
    if op == '>':       # a <= b
        return sub(b, a)
    return sub(sub(b, a), C(1))     # not (a >= b): a < b


def _is_ce_le_r(c, amap):
    if c[0] == 'bin' and c[1] in ('<=', '>='):
        try:
            a, b = _term(c[2], amap), _term(c[3], amap)
        except sym.Unsupported:
            return False
        if c[1] == '<=':
            return a == V('CE') and b == V('r')
        return b == V('CE') and a == V('r')
    return False


def _pair_call_order(ctx, file, fn, inner, rvar, cvar):
    """The kernel call in the pair loop receives the row series first."""
    calls = [c for s_ in walk_stmts(inner.body) for e in stmt_exprs(s_) for c in walk_expr(e)
             if c[0] == 'call' and (dotted(c[1]) or '').startswith('dtw_distance')]
    if len(calls) != 1:
        ctx.violation('R-ITER', file, fn, 'kernel call', 'expected exactly one dtw_distance* call per pair, found %d' % len(calls), inner.line)
        return
    c = calls[0]
    names = []
    for a in c[2][:4]:
        vs = [x[1] for x in walk_expr(a) if x[0] == 'var' and x[1] in (rvar, cvar)]
        names.append(vs[0] if vs else None)
    # (series r, length r, series c, length c): arguments 0,1 depend on the row variable only, 2,3 on the column variable only
    ok = names[0] == rvar and names[2] == cvar and names[1] in (rvar, None) and names[3] in (cvar, None)
    ctx.check(ok, 'R-ITER', file, fn, 'pair order', 'the kernel must be called with (row series, column series); found %s' % fmt(c)[:160], inner.line)
    # ... and each series argument addresses element r (resp. c) of its container: table entry P[r] with its length L[r], or row r of a row-major array,
    # &M[r * width (* ndim)] with that width as the length argument
    from ..canon import same
    has_ndim = any(a == ('var', 'ndim') for a in c[2])
    for pos, v, role in ((0, rvar, 'row'), (2, cvar, 'column')):
        if len(c[2]) < pos + 2:
            continue
        sa_, la = c[2][pos], c[2][pos + 1]
        V_ = ('var', v)
        if sa_[0] == 'idx' and sa_[2] == V_ and sa_[1][0] == 'var':
            oka = la[0] == 'idx' and la[2] == V_ and la[1][0] == 'var'
        elif sa_[0] == 'un' and sa_[1] == 'addr' and sa_[2][0] == 'idx' and sa_[2][1][0] == 'var':
            want = ('bin', '*', V_, la)
            oka = same(sa_[2][2], want) or (has_ndim and same(sa_[2][2], ('bin', '*', want, ('var', 'ndim'))))
        else:
            # pointer arithmetic M + offset: the same address as &M[offset]
            from ..canon import addends, poly_norm
            oka = False
            pos_t, _neg_t = addends(sa_)
            for t in pos_t:
                if t[0] == 'var' and t[1] not in (rvar, cvar):
                    off = poly_norm(('bin', '-', sa_, t))
                    want = poly_norm(('bin', '*', V_, la))
                    oka = oka or off == want or (has_ndim and off == poly_norm(('bin', '*', ('bin', '*', V_, la), ('var', 'ndim'))))
        ctx.check(oka, 'R-ITER', file, fn, 'kernel call %s series address' % role,
                  'the %s series of pair (r, c) must be element %s of its container -- P[%s] with length L[%s], or &M[%s * width%s] with that width as its length; found (%s, %s): '
                  'another series is compared (the result then depends on the container and the block)'
                  % (role, v, v, v, v, ' * ndim' if has_ndim else '', fmt(sa_)[:80], fmt(la)[:40]), inner.line)
    ctx.sample({'enumerator': fn, 'kernel call': fmt(c)[:160]})
    return dotted(c[1])


# ------------------------------------------------------------------------------------------ OpenMP regions + planner
def paths_increments(body, var):
    """Set of total increments of `var` along every path through `body` that reaches the loop back-edge
    (normal end or `continue`); None in the set when a path assigns var in another way."""
    results = set()

    def walk(stmts, acc):
        """returns list of accs for paths that fall through"""
        accs = [acc]
        for s in stmts:
            nxt = []
            for a in accs:
                if s.k == 'assign' and s.target == ('var', var):
                    if s.value[0] == 'bin' and s.value[1] in ('+',) and s.value[2] == ('var', var) and s.value[3][0] == 'num':
                        nxt.append(None if a is None else a + s.value[3][1])
                    else:
                        nxt.append(None)
                elif s.k == 'if':
                    nxt.extend(walk(s.then, a))
                    nxt.extend(walk(s.els, a))
                elif s.k == 'continue':
                    results.add(a)
                elif s.k in ('break', 'return', 'raise'):
                    pass
                elif s.k in ('for', 'foreach', 'while', 'loop'):
                    if var in assigned_vars([s]):
                        nxt.append(None)
                    else:
                        nxt.append(a)
                else:
                    nxt.append(a)
            accs = nxt
        return accs
    for a in walk(body, 0):
        results.add(a)
    return results


def rule_omp(ctx, m):
    unit = m.c('dd_dtw_openmp.c')
    regions = unit.omp_regions
    ctx.count('OpenMP regions', len(regions))
    for fname, st in regions:
        f = unit.funcs[fname]
        loop = st.body[0]
        priv = set()
        for lst in st.clauses.get('private', []):
            priv.update(lst)
        other_clauses = sorted(set(st.clauses) - {'private', 'schedule'})
        ctx.check(not [c for c in other_clauses if c in ('shared', 'firstprivate', 'lastprivate', 'reduction', 'linear', 'copyin')],
                  'R-OMP', unit.path, fname, 'clauses', 'unexpected data-sharing clauses %s: the privatisation argument does not cover them' % other_clauses, st.line)
        declared = {s.name for s in walk_stmts([loop]) if s.k == 'decl'}
        assigned = assigned_vars([loop])
        for v in sorted(assigned):
            base = v.split('#')[0]
            ok = v in declared or base in priv or v in priv or v == getattr(loop, 'var', None)      # the iteration variable of the associated loop is private by rule
            ctx.check(ok, 'R-OMP', unit.path, fname, 'scalar %s' % v,
                      'scalar `%s` is assigned inside the parallel region but is neither declared in it nor listed in private(...): threads race on it' % v, st.line)
        nested_in = [o for fn2, o in regions if o is not st and any(t is st for t in walk_stmts(o.body))]
        if nested_in:
            # a parallel region inside a parallel region: variables that are private in the enclosing region are SHARED by the threads of the inner team unless
            # the inner directive privatises them again -- the scalar obligations above (against this directive's own clause list) are what decides it; the
            # slot and iteration-space obligations are checked on the enclosing region, which sees this loop as its column loop
            ctx.count('nested OpenMP regions')
            continue
        # stores through pointers
        bases = {}
        for s in walk_stmts([loop]):
            if s.k == 'assign' and s.target[0] in ('idx', 'attr') or (s.k == 'assign' and s.target[0] == 'un'):
                b = s.target
                while b[0] in ('idx', 'attr') or (b[0] == 'un' and b[1] == 'deref'):
                    b = b[1] if b[0] != 'un' else b[2]
                bases.setdefault(b[1] if b[0] == 'var' else fmt(b), []).append(s)
        for b, sts in sorted(bases.items()):
            ctx.check(b == 'output', 'R-OMP', unit.path, fname, 'shared store to %s' % b,
                      'the region writes through shared `%s`; only the output array may be written' % b, sts[0].line)
        # output slot shape
        outs = bases.get('output', [])
        if not outs:
            ctx.violation('R-OMP', unit.path, fname, 'output store', 'the region stores no result', st.line)
            continue
        inner = inner_top = None
        for t in loop.body:
            if t.k in ('for', 'loop'):
                inner = inner_top = t
            elif t.k == 'omp' and t.body and t.body[0].k == 'for':
                inner = t.body[0]          # the column loop run by a nested team
                inner_top = t
        if inner is None or inner.k != 'for':
            raise AnalysisError('unrecognised shape: inner loop of region in %s' % fname)
        slot_vars = set()
        # the slot of every reachable store, evaluated symbolically for the triangular and the rectangular case
        pre_env = Exec().run(loop.body[:loop.body.index(inner_top)], Env())
        if pre_env is None:
            raise AnalysisError('unrecognised shape: row body of region in %s leaves before the column loop' % fname)
        ienv = pre_env.copy()
        for v in assigned_vars(inner.body) | {inner.var}:
            ienv[v] = ('var', v)
        cex = Exec()
        cex.run(inner.body, ienv)
        ostores = [e for e in cex.events if e[0] == 'store' and e[2][0] == 'idx' and e[2][1] == ('var', 'output')]
        blk = ('var', 'block')
        want_slot = {True: ('idx', ('var', 'rls'), ('var', loop.var)),
                     False: ('bin', '*', ('bin', '-', ('attr', blk, 'ce'), ('attr', blk, 'cb')), ('var', loop.var))}
        for triu in (True, False):
            z = {('block', 'triu'): triu}
            reach = []
            for e in ostores:
                if any(fold_bool(peval_fields(c, z)) == ('bool', False) for c in e[1]):
                    continue
                reach.append((peval_fields(e[2][2], z), e[4]))
            if not reach:
                ctx.violation('R-OMP', unit.path, fname, 'output store (%s)' % ('triangular' if triu else 'rectangular'), 'no result is stored for this block kind', st.line)
            for idx, stm in reach:
                adds = _addends(idx)
                base_ok = [a for a in adds if _same_product(a, want_slot[triu])]
                cnts = [a for a in adds if a[0] == 'var' and a[1] in assigned_vars(inner.body) and not _same_product(a, want_slot[triu])]
                ok = len(adds) == 2 and len(base_ok) == 1 and len(cnts) == 1
                if ok:
                    slot_vars.add(cnts[0][1])
                elif len(base_ok) == 1:
                    # closed form: row base + (column - first column of the row), no counter to keep in step
                    try:
                        lo_c = peval_fields(norm_minmax(subst_expr(inner.lo, pre_env)), z) if inner.lo is not None else None
                        rest = None
                        for a in adds:
                            if a is not base_ok[0]:
                                rest = sym.from_ir(a) if rest is None else add(rest, sym.from_ir(a))
                        ok = lo_c is not None and rest is not None and sym.sub(rest, sym.sub(sym.var(inner.var), sym.from_ir(lo_c))) == C(0)
                    except sym.Unsupported:
                        ok = False
                ctx.check(ok, 'R-OMP', unit.path, fname, 'output slot (%s)' % ('triangular' if triu else 'rectangular'),
                          'the output subscript must be rls[row] + k (triangular) or (ce - cb) * row + k (rectangular) with k the per-row pair counter; '
                          'found %s' % fmt(idx), stm.line)
        for cvar in slot_vars:
            ok_priv = cvar in priv
            resets = [s for s in loop.body if s.k == 'assign' and s.target == ('var', cvar) and s.value == ('num', 0)]
            ok_reset = len(resets) == 1 and loop.body.index(resets[0]) < loop.body.index(inner_top)
            incs = paths_increments(inner.body, cvar)
            ok_inc = incs == {1}
            others = [s for s in loop.body if s.k == 'assign' and s.target == ('var', cvar) and s not in resets]
            ctx.check(ok_priv and ok_reset and ok_inc and not others, 'R-OMP', unit.path, fname, 'pair counter %s' % cvar,
                      'the per-row pair counter must be private, reset to 0 at the top of every row iteration and incremented exactly once on every '
                      'path through the column loop (private=%s reset=%s increments=%s)' % (ok_priv, ok_reset, sorted(incs, key=str)), inner.line)
        # iteration space: rows [0, re - rb) with r = rb + r_i ; columns from cbs[r_i] (triu) or cb, to ce
        amap = BlockAtoms('c', 'block')
        env = Env()
        _rows_ok(ctx, unit.path, fname, loop, env, amap, offset='rel')
        benv = Env()
        ex2 = Exec()
        benv = ex2.run(loop.body[:loop.body.index(inner_top)], benv)
        rowv = None
        for v, val in benv.items():
            if val == ('bin', '+', ('attr', ('var', 'block'), 'rb'), ('var', loop.var)):
                rowv = v
        ctx.check(rowv is not None, 'R-OMP', unit.path, fname, 'row index', 'the row series index must be block->rb + iteration index', loop.line)
        lo_e = subst_expr(inner.lo, benv) if inner.lo is not None else benv.get(inner.var)
        hi_e = subst_expr(inner.hi, benv)
        lo_n = norm_minmax(lo_e) if lo_e is not None else None
        ok = lo_n is not None and hi_e == ('attr', ('var', 'block'), 'ce') and \
            peval_fields(lo_n, {('block', 'triu'): True}) == ('idx', ('var', 'cbs'), ('var', loop.var)) and \
            peval_fields(lo_n, {('block', 'triu'): False}) == ('attr', ('var', 'block'), 'cb')
        ctx.check(ok, 'R-ITER', unit.path, fname, 'parallel column range',
                  'columns of row k must run from cbs[k] (triangular) / block->cb (rectangular) to block->ce; found [%s, %s)' % (fmt(lo_e)[:100], fmt(hi_e)[:60]), inner.line)
        if rowv:
            callee = _pair_call_order(ctx, unit.path, fname, inner, rowv, inner.var)
            # serial sibling calls the same kernel
            sib = fname.replace('_parallel', '')
            sf = m.cfunc(sib)
            if sf is not None:
                scalls = {dotted(c[1]) for s_ in walk_stmts(sf.body) for e in stmt_exprs(s_) for c in walk_expr(e)
                          if c[0] == 'call' and (dotted(c[1]) or '').startswith('dtw_distance') and not (dotted(c[1]) or '').startswith('dtw_distances')}
                ctx.check(scalls == {callee}, 'R-ITER', unit.path, fname, 'kernel agrees with serial sibling',
                          'the parallel routine calls %s, its serial sibling %s calls %s' % (callee, sib, sorted(scalls)), inner.line)
        ctx.sample({'region': fname, 'private': sorted(priv), 'output slots': [fmt(s.target[2]) for s in outs]})
    # planner
    f = unit.funcs.get('dtw_distances_prepare')
    if f is None:
        raise AnalysisError('anchor vanished: dtw_distances_prepare')
    loop = None
    for s in walk_stmts(f.body):
        if s.k == 'for':
            loop = s
    amap = BlockAtoms('c', 'block')
    benv = Env()
    benv[loop.var] = ('var', 'r')
    for v in assigned_vars(loop.body):
        benv[v] = ('var', v + '@in')
    ex = Exec()
    out = ex.run(loop.body, benv)
    stores = {}
    for e in ex.events:
        if e[0] == 'store':
            b = e[2]
            nm = None
            for x in walk_expr(b):
                if x[0] == 'var' and x[1] in ('cbs', 'rls'):
                    nm = x[1]
            if nm:
                stores[nm] = e
    ok = False
    detail = ''
    if 'cbs' in stores and 'rls' in stores and out is not None:
        cb_t = _term(stores['cbs'][3], amap)
        want_cb = tmax(add(V('r'), C(1)), V('CB'))
        r1 = sym.equivalent(cb_t, want_cb, DOM, box=BOX)
        rs_val = stores['rls'][3]
        rs_var = rs_val[1] if rs_val[0] == 'var' else None
        slot_ok = all(_last_index(stores[k][2]) == _last_index(stores['cbs'][2]) for k in stores)
        if rs_var and rs_var.endswith('@in'):
            nm = rs_var[:-3]
            inc = _term(('bin', '-', out.get(nm), ('var', rs_var)), amap)
            want_inc = sub(V('CE'), want_cb)
            r2 = sym.equivalent(inc, want_inc, DOM, box=BOX)
            irv = _last_index(stores['cbs'][2])
            ir_ok = irv is not None and irv[0] == 'var' and irv[1].endswith('@in') and paths_increments(loop.body, irv[1][:-3]) == {1}
            ok = r1[0] == 'equal' and r2[0] == 'equal' and slot_ok and ir_ok
            detail = 'cbs[k]=%s rls step=%s' % (sym.show(cb_t), sym.show(inc))
    ctx.check(ok, 'R-OMP', unit.path, 'dtw_distances_prepare', 'prefix-sum plan',
              'the plan must store cbs[k] = max(r + 1, cb) and rls[k] = running sum of (ce - cbs[k]) at the same k, advancing k once per row: %s' % detail, loop.line)
    _rows_ok(ctx, unit.path, 'dtw_distances_prepare', loop, Env(), amap)


def _last_index(t):
    if t[0] == 'idx':
        return t[2]
    return None


def _addends(e):
    if e[0] == 'bin' and e[1] == '+':
        return _addends(e[2]) + _addends(e[3])
    return [e]


def _same_product(a, b):
    """Equality up to the order of the factors of a product."""
    if a == b:
        return True
    return a[0] == 'bin' and a[1] == '*' and b[0] == 'bin' and b[1] == '*' and (a[2], a[3]) == (b[3], b[2])


def _under_triu(loop, stmt):
    """True / False when stmt sits in the then / else branch of `if (block->triu)` inside loop; None otherwise."""
    def find(stmts, state):
        for s in stmts:
            if s is stmt:
                return state
            if s.k == 'if':
                is_t = s.cond == ('attr', ('var', 'block'), 'triu')
                r = find(s.then, True if is_t else state)
                if r is not None or any(x is stmt for x in walk_stmts(s.then)):
                    return r
                r = find(s.els, False if is_t else state)
                if r is not None or any(x is stmt for x in walk_stmts(s.els)):
                    return r
            else:
                for b in sub_blocks(s):
                    if any(x is stmt for x in walk_stmts(b)):
                        return find(b, state)
        return None
    return find([loop], None)


# ------------------------------------------------------------------------------------------ pyx block decoding + MP
def rule_iter_pyx(ctx, m):
    """The four pyx entry points decode `block` identically and consistently with Python's _complete_block."""
    shapes = {}
    for pyxname in ('dtw_cc', 'dtw_cc_omp'):
        mod = m.pyx(pyxname)
        for fn in ('distance_matrix', 'distance_matrix_ndim'):
            f = mod.funcs.get(fn)
            if f is None:
                raise AnalysisError('anchor vanished: %s.%s' % (pyxname, fn))
            facts = {}

            def arg(call, pos, name):
                """argument of a call given positionally or by keyword"""
                for k_, v_ in call[3]:
                    if k_ == name:
                        return v_
                return call[2][pos] if len(call[2]) > pos else None
            for s in walk_stmts(f.body):
                if s.k == 'assign' and s.target[0] == 'var' and s.target[1].startswith('block_') and s.value[0] == 'idx':
                    facts[s.target[1]] = fmt(s.value)
                if s.k == 'decl' and s.init is not None and s.init[0] == 'call' and dotted(s.init[1]) == 'DTWBlock':
                    facts['ctor'] = tuple(fmt(arg(s.init, k_, nm)) if arg(s.init, k_, nm) is not None else None for k_, nm in enumerate(('rb', 're', 'cb', 'ce')))
                    facts['blockvar'] = s.name
                if s.k == 'if':
                    for t in s.then:
                        if t.k == 'expr' and t.value[0] == 'call' and t.value[1][0] == 'attr' and t.value[1][2] == 'triu_set':
                            facts['triu'] = (fmt(s.cond), fmt(arg(t.value, 0, 'value')))
                        if t.k == 'expr' and t.value[0] == 'call' and t.value[1][0] == 'attr' and t.value[1][2] in ('re_set', 'ce_set'):
                            facts[t.value[1][2]] = (s.cond, arg(t.value, 0, 'value'), t.value[1][1])
            shapes[(pyxname, fn)] = facts
            want = {'block_rb': 'block[0][0]', 'block_re': 'block[0][1]', 'block_cb': 'block[1][0]', 'block_ce': 'block[1][1]',
                    'ctor': ('block_rb', 'block_re', 'block_cb', 'block_ce')}
            for k, v in want.items():
                ctx.check(facts.get(k) == v, 'R-ITER', mod.path, fn, 'block decoding %s' % k,
                          'the block tuple ((rb, re), (cb, ce)) must be decoded as %s = %s; found %s' % (k, v, facts.get(k)), f.line)
            tr = facts.get('triu')
            ok = tr is not None and 'block[2] is False' in tr[0] and tr[1] == 'False'
            ctx.check(ok, 'R-ITER', mod.path, fn, 'block triu flag', 'triu must be switched off exactly when the third block element is literally False; found %s' % (tr,), f.line)
            nlen = ('call', ('var', 'len'), (('var', f.args[0].name if hasattr(f.args[0], 'name') else f.args[0]),), ())
            nvars = {t.target for t in walk_stmts(f.body) if t.k == 'assign' and t.target[0] == 'var' and t.value == nlen}
            for k in ('re_set', 'ce_set'):
                v = facts.get(k)
                fld = k[:2]
                ok = v is not None and v[0] == ('bin', '==', ('attr', v[2], fld), ('num', 0)) and (v[1] == nlen or v[1] in nvars)
                ctx.check(ok, 'R-ITER', mod.path, fn, 'block completion %s' % fld, '`%s == 0` means "no block": it must be completed with the number of series; found %s'
                          % (fld, (fmt(v[0]), fmt(v[1])) if v else None), f.line)
    ctx.count('pyx block decoders', len(shapes))


def _branch_of(body, stmt):
    """The innermost if-branch body that contains stmt (None when stmt is in no branch)."""
    for t in body:
        for attr in ('then', 'els', 'body'):
            sub_ = getattr(t, attr, None)
            if isinstance(sub_, list) and any(x is stmt for x in walk_stmts(sub_)):
                inner = _branch_of(sub_, stmt)
                if inner is not None:
                    return inner
                return sub_ if t.k == 'if' else None
    return None


def rule_mp_order(ctx, m):
    """Multiprocessing branches: order-preserving pool primitive, and pairs built as (row series, column series)."""
    mod = m.py('dtaidistance.dtw')
    f = mod.funcs.get('distance_matrix')
    if f is None:
        raise AnalysisError('anchor vanished: dtw.distance_matrix')
    n = 0
    series = f.args[0]
    # pool objects: `with <...>Pool(...) as X` / `X = <...>Pool(...)`
    pools = set()
    for s in walk_stmts(f.body):
        if s.k == 'with':
            for ce, tv in s.items:
                if ce[0] == 'call' and (dotted(ce[1]) or '').split('.')[-1] == 'Pool' and tv is not None and tv[0] == 'var':
                    pools.add(tv[1])
        if s.k == 'assign' and s.target[0] == 'var' and s.value[0] == 'call' and (dotted(s.value[1]) or '').split('.')[-1] == 'Pool':
            pools.add(s.target[1])
    if not pools:
        raise AnalysisError('unrecognised shape: distance_matrix creates no multiprocessing pool')

    def work_items(scope, arg):
        """(loop target, element, iterable) of the work list: a comprehension, or a local list filled by one append loop."""
        if arg[0] == 'comp' and len(arg[3]) == 1:
            (tgt, it, conds) = arg[3][0]
            return (tgt, arg[2], it) if not conds else None
        if arg[0] == 'var':
            defs = [t for t in walk_stmts(scope) if t.k == 'assign' and t.target == arg]
            if len(defs) == 1 and defs[0].value[0] == 'comp':
                return work_items(scope, defs[0].value)
            if len(defs) == 1 and defs[0].value == ('list', ()):
                loops = [t for t in walk_stmts(scope) if t.k == 'foreach' and any(
                    u.k == 'expr' and u.value[0] == 'call' and u.value[1] == ('attr', arg, 'append') for u in walk_stmts(t.body))]
                if len(loops) == 1 and len(loops[0].body) == 1:
                    u = loops[0].body[0]
                    if u.k == 'expr' and u.value[0] == 'call' and u.value[1] == ('attr', arg, 'append') and len(u.value[2]) == 1:
                        return (loops[0].target, u.value[2][0], loops[0].iter)
        return None

    for s in walk_stmts(f.body):
        for e in stmt_exprs(s):
            for c in walk_expr(e):
                if c[0] == 'call' and c[1][0] == 'attr' and c[1][1][0] == 'var' and c[1][2] in ('map', 'imap', 'imap_unordered', 'starmap', 'map_async', 'apply_async', 'starmap_async'):
                    if c[1][1][1] not in pools:
                        continue
                    n += 1
                    ctx.check(c[1][2] in ('map', 'starmap'), 'R-ITER', mod.path, 'distance_matrix', 'pool primitive %s' % c[1][2],
                              'results must come back in submission order: Pool.%s does not guarantee that' % c[1][2], s.line)
                    scope = _branch_of(f.body, s) or f.body
                    wi = work_items(scope, c[2][1]) if len(c[2]) >= 2 else None
                    if wi is None:
                        ctx.undecided('R-ITER', 'distance_matrix pool site #%d' % n, 'unrecognised work list %s' % fmt(c)[:120])
                        continue
                    tgt, elt, it = wi
                    # the (row, column) index arrays are iterated in parallel; the element must be (s[row], s[col], opts)
                    ok = False
                    if tgt[0] == 'tuple' and len(tgt[1]) == 2 and elt[0] == 'tuple' and len(elt[1]) >= 2:
                        first, second = tgt[1][0], tgt[1][1]
                        if it[0] == 'call' and dotted(it[1]) == 'zip' and len(it[2]) == 2 and all(a[0] == 'var' for a in it[2]):
                            # zip(rows, cols): the two arrays unpacked from one call keep the order in which they were unpacked
                            un = [t for t in walk_stmts(scope) if t.k == 'assign' and t.target[0] == 'tuple' and set(it[2]) <= set(t.target[1])]
                            if len(un) == 1 and list(un[0].target[1]).index(it[2][0]) > list(un[0].target[1]).index(it[2][1]):
                                first, second = second, first
                        ok = elt[1][0] == ('idx', ('var', series), first) and elt[1][1] == ('idx', ('var', series), second)
                    ctx.check(ok, 'R-ITER', mod.path, 'distance_matrix', 'pool site #%d pair order' % n,
                              'the index arrays yield (row, column); the work item must be (s[row], s[column], ...) as in the serial enumerator, found element '
                              '%s for target %s: the two series are swapped, which changes the result whenever the settings are not symmetric '
                              '(per-series psi)' % (fmt(elt)[:60], fmt(tgt)), s.line)
    # the worker functions unpack the work item (series of the row, series of the column, options) in that order
    workers = 0
    for q in ('_distance_with_params', '_distance_with_params_ndim', '_distance_c_with_params', '_distance_c_with_params_ndim'):
        g = mod.funcs.get(q)
        if g is None:
            raise AnalysisError('anchor vanished: dtw.%s' % q)
        workers += 1
        prm = g.args[0]
        # the one distance call of the worker, returned directly or through a local
        cands = [x for s_ in walk_stmts(g.body) for e_ in stmt_exprs(s_) for x in walk_expr(e_)
                 if x[0] == 'call' and (dotted(x[1]) or '').split('.')[-1] in ('distance', 'distance_ndim', 'distance_fast')]
        ok = len(cands) == 1
        if ok:
            c = cands[0]
            item2 = ('idx', ('var', prm), ('num', 2))
            # the options: item[2] itself or a local copy of it (dict(item[2]), item[2].copy(), {**item[2], ...}) with entries added
            copies = {t_.target for t_ in walk_stmts(g.body) if t_.k == 'assign' and t_.target[0] == 'var' and (
                t_.value in (('call', ('var', 'dict'), (item2,), ()), ('call', ('attr', item2, 'copy'), (), ())) or
                (t_.value[0] == 'dict' and any(k_ is None and v_ == item2 for k_, v_ in t_.value[1])))}
            ok = tuple(c[2][:2]) == (('idx', ('var', prm), ('num', 0)), ('idx', ('var', prm), ('num', 1))) and \
                any(k is None and (v == item2 or v in copies) for k, v in c[3])
        ctx.check(ok, 'R-ITER', mod.path, q, 'work item order',
                  'the worker must compute distance(item[0], item[1], **item[2]) -- (row series, column series, options) as the pool sites build it; swapped series change '
                  'the result whenever the settings are not symmetric (per-series psi)', g.line)
    # the options dictionary of a work item is `settings.kwargs()` (possibly with None -> 0): a worker that also passes one of its keys explicitly
    # calls distance(..., key=..., **{..., key: ...}) -- TypeError "multiple values for keyword argument" on every call
    from .fwd import settings_dict_keys
    opts_src = None
    for s_ in f.body:
        if s_.k == 'assign' and s_.target[0] == 'var' and s_.value[0] == 'call' and (dotted(s_.value[1]) or '').endswith('.kwargs'):
            used_in_items = any(x == s_.target for st_ in walk_stmts(f.body) for e_ in stmt_exprs(st_) for c_ in walk_expr(e_)
                                if c_[0] in ('comp', 'tuple') for x in walk_expr(c_))
            if used_in_items:
                opts_src = s_
    keys = {k for k, v in (settings_dict_keys(m, 'kwargs') or []) if k} if opts_src is not None else set()
    for q in ('_distance_with_params', '_distance_with_params_ndim', '_distance_c_with_params', '_distance_c_with_params_ndim'):
        g = mod.funcs.get(q)
        prm = g.args[0]
        for st_ in walk_stmts(g.body):
            for e_ in stmt_exprs(st_):
                for x in walk_expr(e_):
                    it2 = ('idx', ('var', prm), ('num', 2))
                    cps = {t_.target for t_ in walk_stmts(g.body) if t_.k == 'assign' and t_.target[0] == 'var' and any(y == it2 for y in walk_expr(t_.value))}
                    if x[0] == 'call' and any(k is None and (v == it2 or v in cps) for k, v in x[3]):
                        dup = sorted(k for k, v in x[3] if k is not None and k in keys)
                        ctx.check(not dup, 'R-ITER', mod.path, q, 'explicit keyword also in the options dictionary',
                                  'the worker passes %s explicitly and again through **options: the work item\'s options are DTWSettings.kwargs(), which contains %s -- every call '
                                  'raises TypeError (multiple values for keyword argument), so the multiprocessing branch cannot produce a matrix' % (dup, dup), st_.line)
    ctx.count('pool sites', n)
    ctx.count('pool workers', workers)
    return n
