"""R-SIG: interface agreement between the layers (E6).

(a) .pxd `cdef extern` prototypes vs the C header prototypes (arity, per-position type class);
(b) pyx -> C and C -> C call sites: arity and argument *roles* (an identifier argument that names a different
    parameter of the callee is a swap);
(c) Python -> pyx call sites: the attribute exists as a `def`, positional arity and keyword names fit;
(d) module imports of compiled modules resolve statically.
"""
import os

from ..ir import fmt, dotted
from ..model import calls_in

PXD_HEADER = {'dtaidistancec_dtw': 'dd_dtw.c', 'dtaidistancec_dtw_omp': 'dd_dtw_openmp.c', 'dtaidistancec_ed': 'dd_ed.c'}


def tclass(t):
    t = t.replace('const ', '').replace('struct ', '').strip()
    depth = t.count('*') + t.count('[]')
    base = t.replace('*', '').replace('[]', '').strip()
    if base in ('seq_t', 'double', 'float', 'long double'):
        cls = 'float'
    elif base in ('bool', 'bint', '_Bool'):
        cls = 'bool'
    elif base in ('idx_t', 'Py_ssize_t', 'ssize_t', 'size_t', 'int', 'long', 'unsigned int', 'unsigned', 'unsigned long',
                  'long long', 'short', 'char', 'unsigned char', 'ba_t', 'intptr_t', 'ptrdiff_t'):
        cls = 'int'
    else:
        cls = base
    return cls, depth


def rule_pxd_vs_header(ctx, m):
    """(a)"""
    n = 0
    for pxd, cfile in PXD_HEADER.items():
        mod = m.pyx(pxd)
        unit = m.c(cfile)
        for name, (rtype, params, line) in sorted(mod.externs.items()):
            proto = unit.protos.get(name) or unit.funcs.get(name)
            inst = '%s.pxd:%s' % (pxd, name)
            if proto is None:
                # stale extern: Cython emits only used externs, an unused one is harmless; a used one would not link
                ctx.held('R-SIG', inst, 'extern without header prototype (unused by the build or link error)')
                ctx.note('pxd extern %s.%s has no prototype in the header (stale)' % (pxd, name))
                continue
            n += 1
            hp = proto.params
            ok = True
            what = None
            if len(hp) != len(params):
                ok = False
                what = 'arity differs: pxd declares %d parameters, header %d' % (len(params), len(hp))
            else:
                for k, ((pt, pn), (hn, ht)) in enumerate(zip(params, hp)):
                    pc, hc = tclass(pt), tclass(ht)
                    if pc != hc:
                        # bool <-> int of depth 0 is representation compatible for 0/1 values
                        if {pc[0], hc[0]} <= {'bool', 'int'} and pc[1] == hc[1] == 0:
                            continue
                        ok = False
                        what = 'parameter %d: pxd type `%s %s` vs header `%s %s` (different type class: silent conversion)' % (k, pt, pn, ht, hn)
                        break
                if ok and rtype.strip() != 'void' and tclass(rtype) != tclass(proto.rtype) and not ({tclass(rtype)[0], tclass(proto.rtype)[0]} <= {'bool', 'int'}):
                    ok = False
                    what = 'return type: pxd `%s` vs header `%s`' % (rtype, proto.rtype)
            ctx.check(ok, 'R-SIG', mod.path, name, 'extern %s' % name, what or '', line=line)
            if ok:
                for (pt, pn), (hn, ht) in zip(params, hp):
                    if pt.replace('Py_ssize_t', 'idx_t').replace('bint', 'bool').replace(' ', '') != ht.replace(' ', '').replace('_Bool', 'bool'):
                        ctx.note('width/name difference (not a violation) %s.%s: pxd `%s %s` header `%s %s`' % (pxd, name, pt, pn, ht, hn))
    ctx.count('pxd externs compared', n)
    return n


def _arg_ident(a):
    """Identifier a call argument 'is about': x, &x, &x[0], x.y -> last attribute name; len(x) -> None."""
    if a is None:
        return None
    if a[0] == 'var':
        return a[1]
    if a[0] == 'un' and a[1] == 'addr':
        return _arg_ident(a[2])
    if a[0] == 'attr':
        return a[2].lstrip('_') or None
    return None


def _role_check(ctx, file, fname, line, callee, args, proto, lang):
    """Arity + swapped roles at one call site.  Returns True when the site was analysed."""
    pn = [p[0] for p in proto.params]
    inst = '%s -> %s(%s)' % (fname, callee, ', '.join(fmt(a) for a in args))
    if len(args) != len(pn):
        ctx.violation('R-SIG', file, fname, 'call %s' % callee,
                      'call passes %d arguments, prototype of %s has %d' % (len(args), callee, len(pn)), line=line)
        return True
    idents = [_arg_ident(a) for a in args]
    bad = None
    for k, a in enumerate(idents):
        if a is None or a == pn[k]:
            continue
        if a in pn:
            mpos = pn.index(a)
            # the argument is named like parameter `mpos` of the callee but sits at position k.
            # It is a swap when the argument at mpos is not that name either and types are of the same class.
            if idents[mpos] != a and tclass(proto.params[mpos][1]) == tclass(proto.params[k][1]):
                # mutual swap or displaced role
                if idents[mpos] == pn[k] or idents[mpos] in pn:
                    bad = (k, a, mpos)
                    break
    if not bad:
        # duplicated role: the value named like parameter `a` sits at its own position AND at another position of the same type class
        for k, a in enumerate(idents):
            if a is None or a == pn[k] or a not in pn:
                continue
            mpos = pn.index(a)
            if idents[mpos] == a and tclass(proto.params[mpos][1]) == tclass(proto.params[k][1]):
                ctx.violation('R-SIG', file, fname, 'call %s arg %s twice' % (callee, a),
                              '`%s` is passed both as parameter `%s` (position %d) and as parameter `%s` (position %d) of %s: the second role does not receive its own value'
                              % (fmt(args[k]), a, mpos, pn[k], k, callee), line=line)
                return True
    if bad:
        k, a, mpos = bad
        ctx.violation('R-SIG', file, fname, 'call %s arg %s' % (callee, a),
                      'argument `%s` is passed at position %d (parameter `%s`) while the callee has a parameter `%s` at position %d, '
                      'which receives `%s`: swapped roles' % (a, k, pn[k], a, mpos, fmt(args[mpos])), line=line)
    else:
        ctx.held('R-SIG', inst)
    return True


def rule_pyx_to_c(ctx, m):
    """(b) for pyx -> C."""
    n = 0
    for pyxname in ('dtw_cc', 'dtw_cc_omp', 'ed_cc'):
        mod = m.pyx(pyxname)
        for q, f in sorted(mod.funcs.items()):
            for s, call in calls_in(f.body):
                d = dotted(call[1])
                if not d or '.' not in d:
                    continue
                pre, name = d.split('.', 1)
                if pre not in PXD_HEADER:
                    continue
                proto = m.cproto(name)
                if proto is None:
                    ctx.violation('R-SIG', mod.path, q, 'call %s' % d, 'C function %s has no prototype/definition' % name, line=s.line)
                    continue
                n += 1
                _role_check(ctx, mod.path, q, s.line, name, call[2], proto, 'pyx')
    ctx.count('pyx->C call sites', n)
    return n


def rule_c_to_c(ctx, m, files=('dd_dtw.c', 'dd_ed.c', 'dd_dtw_openmp.c')):
    """(b) for C -> C calls between engine functions."""
    n = 0
    allf = m.all_cfuncs()
    for cf in files:
        unit = m.c(cf)
        for fname, f in sorted(unit.funcs.items()):
            for callee, line, args in f.calls:
                if callee not in allf and callee not in unit.protos:
                    continue
                proto = allf.get(callee) or unit.protos.get(callee)
                if proto is None or not proto.params:
                    continue
                n += 1
                _role_check(ctx, unit.path, fname, line, callee, args, proto, 'c')
    ctx.count('C->C call sites', n)
    return n


PYX_LOCALS = {'dtw_cc': 'dtw_cc', 'dtw_cc_omp': 'dtw_cc_omp', 'ed_cc': 'ed_cc', 'dtw_cc_numpy': 'util_numpy_cc'}


def rule_py_to_pyx(ctx, m, modules):
    """(c) every `dtw_cc.X(...)`-style call in the Python modules resolves to a def with compatible arity/keywords."""
    n = 0
    for mname in modules:
        mod = m.py(mname)
        for q, f in sorted(mod.funcs.items()):
            for s, call in calls_in(f.body):
                d = dotted(call[1])
                if not d or '.' not in d:
                    continue
                parts = d.split('.')
                if parts[0] not in PYX_LOCALS or len(parts) != 2:
                    continue
                pyx = m.pyx(PYX_LOCALS[parts[0]])
                name = parts[1]
                n += 1
                inst = '%s:%s -> %s' % (mname, q, d)
                if name in pyx.classes:
                    ctx.held('R-SIG', inst, 'class')
                    continue
                target = pyx.funcs.get(name)
                if target is None:
                    ctx.violation('R-SIG', mod.path, q, 'call %s' % d,
                                  '%s has no def `%s` (AttributeError at run time)' % (PYX_LOCALS[parts[0]] + '.pyx', name), line=s.line)
                    continue
                pos = [a for a in call[2] if a[0] != 'star']
                has_star = any(a[0] == 'star' for a in call[2])
                kws = [k for k, v in call[3] if k is not None]
                has_dstar = any(k is None for k, v in call[3])
                params = [a.name for a in target.args]
                required = [a.name for a in target.args if a.default is None]
                what = None
                if len(pos) > len(params) and target.vararg is None:
                    what = 'passes %d positional arguments, def %s takes %d' % (len(pos), name, len(params))
                else:
                    for k in kws:
                        if k not in params and target.kwarg is None:
                            what = 'keyword `%s` is not a parameter of def %s' % (k, name)
                            break
                        if k in params[:len(pos)]:
                            what = 'keyword `%s` duplicates a positional argument of def %s' % (k, name)
                            break
                    if what is None and not has_star:
                        missing = [p for p in required[:] if p not in params[:len(pos)] and p not in kws]
                        if missing and not has_dstar:
                            what = 'required parameter(s) %s of def %s not supplied (%d positional given)' % (missing, name, len(pos))
                ctx.check(what is None, 'R-SIG', mod.path, q, 'call %s' % d, what or '', line=s.line)
    ctx.count('Python->pyx call sites', n)
    return n


def rule_imports(ctx, m, modules):
    """(d) imports of the compiled modules resolve (a failing `from . import dtw_cc` silently disables the C engine)."""
    from ..pyfront import resolve_import
    n = 0
    for mname in modules:
        mod = m.py(mname)
        for (local, kind, modname, attr, level, line, in_try) in mod.import_sites:
            if kind != 'from' or level == 0:
                continue
            if attr == '*':
                continue
            r = resolve_import(m.repo, mod, local)
            if r is None:
                continue
            # only the last import of a name is in mod.imports; evaluate this site directly
            save = mod.imports.get(local)
            mod.imports[local] = ('from', modname, attr, level)
            r = resolve_import(m.repo, mod, local)
            mod.imports[local] = save
            n += 1
            # dtw_cc_numpy is built from util_numpy_cc.pyx under another name (setup.py); accept by table
            if attr == 'dtw_cc_numpy':
                ctx.held('R-SIG', '%s import %s' % (mname, attr), 'extension built from util_numpy_cc.pyx')
                continue
            ok = r[0] != 'unresolved'
            ctx.check(ok, 'R-SIG', mod.path, '<module>', 'from %s%s import %s' % ('.' * level, modname, attr),
                      'relative import cannot resolve (%s): the name is bound to None by the except arm and the C path is dead or raises' % (r[1] if not ok else ''),
                      line=line)
    ctx.count('relative imports resolved', n)
    return n
