"""C-shape rules: R-SHD (shadowing, scan accumulators), R-VAR (variant families), R-EFF (effects, re-entrancy),
R-ALLOC (allocation/use agreement), R-PATH instances on the C DBA routines, n-D stride form."""
from ..cfront import AnalysisError
from ..ir import fmt, walk_stmts, walk_expr, stmt_exprs, dotted, sub_blocks, orient, aug_rhs
from ..symexec import assigned_vars, deep_events, Env
from .iterspace import paths_increments

INF = float('inf')
C_FILES = ('dd_dtw.c', 'dd_ed.c', 'dd_dtw_openmp.c')
DEBUG_FUNCS = {'dtw_print_wps', 'dtw_print_wps_compact', 'dtw_print_wps_type', 'dtw_print_twoline', 'dtw_settings_print',
               'dtw_block_print', 'dtw_print_nb', 'dtw_print_ch', 'dtw_printprecision_set', 'dtw_printprecision_reset'}


def _units(m):
    return [m.c(f) for f in C_FILES]


# ------------------------------------------------------------------------------------------ R-SHD (a)
def _reads_var(stmts, name):
    for s in walk_stmts(stmts):
        for e in stmt_exprs(s):
            # a plain assignment target is not a read
            for x in walk_expr(e):
                if x == ('var', name):
                    if s.k == 'assign' and s.target == ('var', name) and e is s.target:
                        continue
                    return s
    return None


def rule_shadow(ctx, m, only=None):
    """(a) an inner-scope declaration must not shadow an outer local that is read after the inner scope ends
    (the accumulator-shadowed-by-loop-counter pattern)."""
    n = 0
    for u in _units(m):
        for fname, f in sorted(u.funcs.items()):
            if only is not None and fname not in only:
                continue
            if fname in DEBUG_FUNCS:
                continue
            for (name, inner_line, outer_line, irname) in f.shadows:
                n += 1
                # locate the statement that introduces irname and the block containing it
                hit = _find_decl(f.body, irname)
                if hit is None:
                    ctx.held('R-SHD', '%s shadow %s' % (fname, irname))
                    continue
                block, idx, scope_stmt = hit
                # inner scope = the declaring `for` statement itself, or the rest of the block for a plain declaration
                if scope_stmt.k == 'for':
                    inner_writes = irname in assigned_vars(scope_stmt.body) or True
                    after = block[idx + 1:]
                    body_accumulates = any(s.k == 'assign' and s.target == ('var', irname) and s.d.get('aug') for s in walk_stmts(scope_stmt.body))
                else:
                    after = []
                    body_accumulates = False
                rd = _reads_var(after, name)
                ctx.check(not (rd is not None and body_accumulates), 'R-SHD', u.path, fname, 'declaration of %s shadows outer %s' % (name, name),
                          'the loop declares a new `%s` that shadows the outer `%s` (line %s); the loop body accumulates into the inner one while the outer '
                          '`%s` is read after the loop (line %s): the accumulated value is lost' % (name, name, outer_line, name, rd.line if rd else None), inner_line)
    ctx.count('shadowing declarations', n)
    return n


def _find_decl(stmts, irname):
    for i, s in enumerate(stmts):
        if s.k == 'for' and s.var == irname and s.d.get('declares'):
            return stmts, i, s
        if s.k == 'decl' and s.name == irname:
            return stmts, i, s
        for b in sub_blocks(s):
            r = _find_decl(b, irname)
            if r is not None:
                return r
    return None


# ------------------------------------------------------------------------------------------ R-SHD (b)
SCAN_EXCEPTIONS = {
    ('dtw_wps_max', '>'): 'affinity cells are clipped at 0, so 0 is a lower bound of every cell (documented design)',
}


def rule_scan_init(ctx, m, only=None):
    """(b) the accumulator of a max-scan starts at -inf or an element, of a min-scan at +inf or an element."""
    n = 0
    for u in _units(m):
        for fname, f in sorted(u.funcs.items()):
            if only is not None and fname not in only:
                continue
            if fname in DEBUG_FUNCS:
                continue
            for block, i, loop in _all_loops(f.body):
                # two scans chained by `else` (`if (x > hi) hi = x; else if (x < lo) lo = x;`) update only one accumulator per element: that is the pair of
                # extrema only when both start from an element of the scanned range, never from -inf / +inf (the first element and every new maximum
                # would never reach the minimum)
                for s_ in loop.body:
                    if s_.k == 'if' and len(s_.els) == 1 and s_.els[0].k == 'if':
                        class _L:           # the two arms presented as single-scan loops
                            pass
                        l1_, l2_ = _L(), _L()
                        l1_.body = [S_noelse(s_)]
                        l2_.body = [S_noelse(s_.els[0])]
                        a1, a2 = _scan_pattern(l1_), _scan_pattern(l2_)
                        if a1 is not None and a2 is not None and a1[0] != a2[0] and {a1[1], a2[1]} == {'<', '>'}:
                            inits = [_last_assign_before(block, i, a_[0]) for a_ in (a1, a2)]
                            n += 1
                            ok_ch = all(v_ is not None and _same_array(v_, a_[2]) for v_, a_ in zip(inits, (a1, a2)))
                            ctx.check(ok_ch, 'R-SHD', u.path, fname, 'else-chained extremum scans %s/%s' % (a1[0], a2[0]),
                                      'the running maximum and minimum are updated in the two arms of one if / else-if, so an element updates at most one of them: that gives '
                                      'both extrema only when both start from an element of the scanned range; they start from %s and %s'
                                      % tuple(fmt(v_) if v_ is not None else '?' for v_ in inits), loop.line)
                sc = _scan_pattern(loop)
                if sc is None:
                    continue
                acc, op, elem = sc
                if not any(t in f.locals.get(acc, '') for t in ('seq_t', 'double', 'float')):
                    continue      # integer scans (lengths, indices) have natural bounds; the rule is about value scans
                init = None
                for blk, bi in reversed(_CHAINS.get(id(loop), ((block, i),))):
                    init = _last_assign_before(blk, bi, acc)
                    if init is not None or acc in assigned_vars(blk[:bi]):
                        break
                if init is None:
                    continue
                n += 1
                if (fname, op) in SCAN_EXCEPTIONS:
                    ctx.held('R-SHD', '%s scan %s' % (fname, acc), SCAN_EXCEPTIONS[(fname, op)])
                    continue
                val = init
                ok = False
                if op == '>':
                    ok = val == ('num', -INF) or _same_array(val, elem)
                else:
                    ok = val == ('num', INF) or _same_array(val, elem)
                ctx.check(ok, 'R-SHD', u.path, fname, '%s-scan accumulator %s' % ('max' if op == '>' else 'min', acc),
                          'the running %s over %s starts from %s: elements on the wrong side of that value are ignored '
                          '(a %s must start at %s or at an element)' % ('maximum' if op == '>' else 'minimum', fmt(elem), fmt(val),
                                                                      'maximum' if op == '>' else 'minimum', '-inf' if op == '>' else '+inf'), loop.line)
    ctx.count('extremum scans', n)
    return n


def _all_loops(stmts, chain=()):
    for i, s in enumerate(stmts):
        if s.k in ('for', 'loop', 'while'):
            _CHAINS[id(s)] = chain + ((stmts, i),)
            yield stmts, i, s
        for b in sub_blocks(s):
            yield from _all_loops(b, chain + ((stmts, i),))


_CHAINS = {}


def _scan_pattern(loop):
    """loop body contains `if (X op acc) acc = X` (X an array element): -> (acc, op normalised to X ? acc, X)."""
    for s in loop.body:
        if s.k == 'if' and not s.els and s.cond[0] == 'bin' and s.cond[1] in ('<', '>'):
            a, b = s.cond[2], s.cond[3]
            op = s.cond[1]
            if a[0] == 'var' and b[0] == 'idx':
                a, b = b, a
                op = '<' if op == '>' else '>'
            if a[0] == 'idx' and b[0] == 'var':
                for t in s.then:
                    if t.k == 'assign' and t.target == b and t.value == a:
                        return b[1], op, a
    return None


def S_noelse(s):
    from ..ir import S
    d = dict(s.d)
    d['els'] = []
    return S('if', s.line, **d)


def _last_assign_before(block, i, var):
    for s in reversed(block[:i]):
        if s.k == 'assign' and s.target == ('var', var):
            return s.value
        if s.k == 'decl' and s.name == var and s.init is not None:
            return s.init
        if var in assigned_vars([s]):
            return None
    return None


def _same_array(val, elem):
    return val[0] == 'idx' and elem[0] == 'idx' and val[1] == elem[1]


# ------------------------------------------------------------------------------------------ R-VAR
def rule_variant_callees(ctx, m):
    """A `_euclidean` function calls the `_euclidean` sibling of every callee family that has one; a squared-variant
    function calls a `_euclidean` function only in the top-of-function dispatch on inner_dist."""
    allf = m.all_cfuncs()
    names = set(allf)
    n = 0
    for fname, f in sorted(allf.items()):
        is_e = fname.endswith('_euclidean') and fname != 'ub_euclidean' and not fname == 'ub_euclidean_ndim'
        for callee, line, args in f.calls:
            if callee not in names:
                continue
            c_is_e = callee.endswith('_euclidean') and callee not in ('ub_euclidean',)
            has_e_sibling = (callee + '_euclidean') in names
            if is_e and not c_is_e and has_e_sibling:
                n += 1
                ctx.violation('R-VAR', f.file, fname, 'call %s' % callee,
                              'a euclidean-variant routine calls %s although %s_euclidean exists: the value it gets belongs to the squared inner distance'
                              % (callee, callee), line)
            elif is_e:
                n += 1
                ctx.held('R-VAR', '%s -> %s' % (fname, callee))
            elif c_is_e:
                n += 1
                # squared / neutral caller: allowed only as dispatch
                ok = _is_dispatch(f, callee)
                ctx.check(ok, 'R-VAR', f.file, fname, 'call %s' % callee,
                          'a squared-variant routine calls the euclidean variant %s outside the `if (settings->inner_dist == 1) return ...` dispatch' % callee, line)
    # dimensionality: an n-D routine calls the n-D member of every callee family that has one (the 1-D member would treat the flattened
    # buffer as one long univariate series: surplus items are padded with the last scalar instead of the last vector)
    def split(nm):
        e = nm.endswith('_euclidean') and nm not in ('ub_euclidean',)
        base = nm[:-len('_euclidean')] if e else nm
        return base, e
    for fname, f in sorted(allf.items()):
        fb, _ = split(fname)
        if '_ndim' not in fb:
            continue
        for callee, line, args in f.calls:
            if callee not in names:
                continue
            cb, ce = split(callee)
            if '_ndim' in cb:
                continue
            nd = cb + '_ndim' + ('_euclidean' if ce else '')
            if nd in names:
                n += 1
                # `if (ndim == 1) X(...) else X_ndim(...)` is the legitimate use of the univariate member
                guarded = False
                for st in walk_stmts(f.body):
                    if st.k == 'if' and fmt(st.cond).replace('(', '').replace(')', '') == 'ndim == 1':
                        if any(x[0] == 'call' and dotted(x[1]) == callee for t in walk_stmts(st.then) for e_ in stmt_exprs(t) for x in walk_expr(e_)) and \
                                not any(x[0] == 'call' and dotted(x[1]) == callee for t in walk_stmts(st.els) for e_ in stmt_exprs(t) for x in walk_expr(e_)):
                            guarded = True
                if guarded:
                    ctx.held('R-VAR', '%s -> %s under ndim == 1' % (fname, callee))
                    continue
                ctx.violation('R-VAR', f.file, fname, 'call %s (dimensionality)' % callee,
                              'the n-dimensional routine %s calls the univariate %s although %s exists: the flattened buffers are then handled as 1-D series' % (fname, callee, nd), line)
    ctx.count('variant call sites', n)
    return n


def _is_dispatch(f, callee):
    for s in f.body[:3]:
        if s.k == 'if' and any(x[0] == 'attr' and x[2] == 'inner_dist' for x in walk_expr(s.cond)):
            for t in s.then:
                if t.k == 'return' and t.value is not None and t.value[0] == 'call' and dotted(t.value[1]) == callee:
                    return True
    # generic dispatchers without a variant of their own (e.g. dtw_distances_* choose per settings) are fine when guarded
    for s in walk_stmts(f.body):
        if s.k == 'if' and any(x[0] == 'attr' and x[2] == 'inner_dist' for x in walk_expr(s.cond)):
            for t in walk_stmts(s.then + s.els):
                for e in stmt_exprs(t):
                    for x in walk_expr(e):
                        if x[0] == 'call' and dotted(x[1]) == callee:
                            return True
    return False


# ------------------------------------------------------------------------------------------ R-EFF (C)
SERIES_PARAMS = {'s1', 's2', 'ptrs', 'matrix', 'matrix_r', 'matrix_c', 'from_s', 'to_s', 'sequence', 'lengths', 'mask'}


def _store_base(t):
    b = t
    while b[0] in ('idx', 'attr') or (b[0] == 'un' and b[1] == 'deref'):
        b = b[2] if b[0] == 'un' else b[1]
    return b


def rule_c_no_input_stores(ctx, m):
    """(a) no C function stores through a series parameter (or a local pointer derived from one)."""
    n = 0
    for u in _units(m):
        for fname, f in sorted(u.funcs.items()):
            series = {p for p, t in f.params if p in SERIES_PARAMS and '*' in t}
            if not series:
                continue
            # aliases: pointer locals assigned from an expression over a series parameter
            alias = set(series)
            changed = True
            while changed:
                changed = False
                for s in walk_stmts(f.body):
                    tgt = None
                    val = None
                    if s.k == 'assign' and s.target[0] == 'var':
                        tgt, val = s.target[1], s.value
                    elif s.k == 'decl' and s.init is not None:
                        tgt, val = s.name, s.init
                    if tgt and tgt not in alias and '*' in f.locals.get(tgt, ''):
                        if any(x[0] == 'var' and x[1] in alias for x in walk_expr(val)):
                            alias.add(tgt)
                            changed = True
            n += 1
            bad = []
            for s in walk_stmts(f.body):
                if s.k == 'assign' and s.target[0] != 'var':
                    b = _store_base(s.target)
                    if b[0] == 'var' and b[1] in alias:
                        bad.append((s, b[1]))
            if not bad:
                ctx.held('R-EFF', '%s series parameters %s read-only' % (fname, sorted(series)))
            for s, b in bad:
                ctx.violation('R-EFF', u.path, fname, 'store %s' % fmt(s.target),
                              'the routine writes through `%s`, which is (derived from) an input series parameter: the caller\'s data is modified' % b, s.line)
    ctx.count('C functions with series parameters', n)
    return n


SETTINGS_SETTERS = {'dtw_settings_set_psi': 'documented setter: fills the four psi fields of the caller\'s settings'}


def rule_c_settings_readonly(ctx, m):
    """(a') the DTWSettings object is shared: one struct serves every pair of a distance matrix (and every OpenMP thread).  No routine other than
    the documented setters writes through a `DTWSettings *` parameter; a kernel that does makes later results depend on earlier calls."""
    n = 0
    for u in _units(m):
        for fname, f in sorted(u.funcs.items()):
            sp = {p for p, t in f.params if 'DTWSettings' in t and '*' in t}
            if not sp or fname in SETTINGS_SETTERS:
                continue
            n += 1
            bad = []
            for s in walk_stmts(f.body):
                if s.k == 'assign' and s.target[0] != 'var':
                    b = _store_base(s.target)
                    if b[0] == 'var' and b[1] in sp:
                        bad.append(s)
            if not bad:
                ctx.held('R-EFF', '%s settings parameter read-only' % fname)
            for s in bad:
                ctx.violation('R-EFF', u.path, fname, 'store %s' % fmt(s.target),
                              'the routine writes %s into the caller\'s DTWSettings, which the distance-matrix routines share between all pairs (and OpenMP threads): '
                              'the result of a later pair depends on the pairs computed before it' % fmt(s.target), s.line)
    ctx.count('C functions with a settings parameter', n)
    return n


NON_REENTRANT = {'rand', 'srand', 'signal', 'strtok', 'localtime', 'gmtime', 'asctime', 'ctime', 'setlocale', 'getenv', 'exit'}


def rule_c_reentrant(ctx, m):
    """(d) everything reachable from an OpenMP region writes no global/static and calls no non-reentrant libc."""
    unit = m.c('dd_dtw_openmp.c')
    allf = m.all_cfuncs()
    globals_ = {}
    for u in _units(m):
        for g, info in u.globals.items():
            globals_[g] = info
    roots = set()
    for fname, st in unit.omp_regions:
        for s in walk_stmts(st.body):
            for e in stmt_exprs(s):
                for x in walk_expr(e):
                    if x[0] == 'call' and dotted(x[1]):
                        roots.add(dotted(x[1]))
    seen = set()
    work = [r for r in roots]
    while work:
        fn = work.pop()
        if fn in seen:
            continue
        seen.add(fn)
        f = allf.get(fn)
        if f is None:
            continue
        for callee, line, args in f.calls:
            work.append(callee)
    ctx.count('functions reachable from parallel regions', len([x for x in seen if x in allf]))
    for fn in sorted(seen):
        f = allf.get(fn)
        if f is None:
            ctx.check(fn not in NON_REENTRANT, 'R-EFF', unit.path, fn, 'libc call %s' % fn,
                      'non-reentrant library routine %s is reachable from a parallel region' % fn)
            continue
        statics = {s.name for s in walk_stmts(f.body) if s.k == 'decl' and s.d.get('static')}
        bad = []
        for s in walk_stmts(f.body):
            if s.k == 'assign':
                b = _store_base(s.target)
                if b[0] == 'var' and (b[1] in statics or (b[1] in globals_ and b[1] not in f.locals and b[1] not in [p for p, t in f.params])):
                    bad.append((s, b[1]))
        ctx.check(not bad and not statics, 'R-EFF', f.file, fn, 'shared state in %s' % fn,
                  'the routine is reachable from an OpenMP region but %s' % (
                      ('writes global/static `%s`' % bad[0][1]) if bad else ('keeps static local(s) %s' % sorted(statics))),
                  bad[0][0].line if bad else f.line)
        # the working buffer must be a private heap allocation
    return len(seen)


# ------------------------------------------------------------------------------------------ R-ALLOC
WPS_CONSUMERS = {'dtw_warping_paths', 'dtw_warping_paths_ndim', 'dtw_warping_paths_euclidean', 'dtw_warping_paths_ndim_euclidean',
                 'dtw_warping_paths_affinity', 'dtw_warping_paths_affinity_ndim', 'dtw_warping_paths_affinity_ndim_euclidean',
                 'dtw_best_path', 'dtw_best_path_prob', 'dtw_best_path_customstart', 'dtw_best_path_isclose', 'dtw_best_path_affinity',
                 'dtw_expand_wps', 'dtw_expand_wps_slice', 'dtw_expand_wps_affinity', 'dtw_expand_wps_slice_affinity'}


def rule_alloc_c(ctx, m):
    """(a) a compact-matrix buffer sized with dtw_settings_wps_length(a, b, s) is only handed to consumers called with the
    same (a, b); (b) index arrays handed to path routines hold at least l1 + l2 entries."""
    n = 0
    allf = m.all_cfuncs()
    for fname, f in sorted(allf.items()):
        sized = {}       # local -> (a, b)
        lenvars = {}     # scalar local -> (a, b) from dtw_settings_wps_length
        arrays = {}      # idx arrays local -> size expr
        for s in walk_stmts(f.body):
            tgt = val = None
            if s.k == 'assign' and s.target[0] == 'var':
                tgt, val = s.target[1], s.value
            elif s.k == 'decl' and s.init is not None:
                tgt, val = s.name, s.init
            if tgt is None:
                continue
            for x in walk_expr(val):
                if x[0] == 'call' and dotted(x[1]) == 'dtw_settings_wps_length' and len(x[2]) == 3:
                    if val[0] == 'call' and dotted(val[1]) == 'dtw_settings_wps_length':
                        lenvars[tgt] = (x[2][0], x[2][1])
                    elif any(y[0] == 'call' and dotted(y[1]) == 'malloc' for y in walk_expr(val)):
                        sized[tgt] = (x[2][0], x[2][1])
            if any(y[0] == 'call' and dotted(y[1]) == 'malloc' for y in walk_expr(val)):
                for y in walk_expr(val):
                    if y[0] == 'var' and y[1] in lenvars:
                        sized[tgt] = lenvars[y[1]]
                if 'idx_t' in f.locals.get(tgt, '') and '*' in f.locals.get(tgt, ''):
                    for y in walk_expr(val):
                        if y[0] == 'call' and dotted(y[1]) == 'malloc':
                            arrays[tgt] = y[2][0]
        if not sized and not arrays:
            continue
        for callee, line, args in f.calls:
            if callee in WPS_CONSUMERS and args and args[0][0] == 'var' and args[0][1] in sized:
                proto = m.cproto(callee)
                pn = [p[0] for p in proto.params]
                if 'l1' not in pn or 'l2' not in pn:
                    continue
                a, b = args[pn.index('l1')], args[pn.index('l2')]
                A, B = sized[args[0][1]]
                n += 1
                ctx.check((a, b) == (A, B), 'R-ALLOC', f.file, fname, '%s(%s, l1=%s, l2=%s)' % (callee, args[0][1], fmt(a), fmt(b)),
                          'buffer `%s` is sized with dtw_settings_wps_length(%s, %s, ..) but used by %s for series lengths (%s, %s): with a window the '
                          'compact width abs(l1-l2)+2*window+1 is LARGER for the shorter series, so the routine writes past the allocation'
                          % (args[0][1], fmt(A), fmt(B), callee, fmt(a), fmt(b)), line)
            # index arrays
            proto = m.cproto(callee)
            if proto is None:
                continue
            pn = [p[0] for p in proto.params]
            for ia in ('i1', 'i2', 'from_i', 'to_i'):
                if ia in pn and pn.index(ia) < len(args):
                    arg = args[pn.index(ia)]
                    if arg[0] == 'var' and arg[1] in arrays:
                        l1n = 'l1' if 'l1' in pn else 'from_l'
                        l2n = 'l2' if 'l2' in pn else 'to_l'
                        if l1n in pn and l2n in pn:
                            a, b = args[pn.index(l1n)], args[pn.index(l2n)]
                            size = arrays[arg[1]]
                            n += 1
                            ok = _covers(size, a, b, f)
                            ctx.check(ok, 'R-ALLOC', f.file, fname, 'index array %s for %s' % (arg[1], callee),
                                      'index array `%s` has %s entries but %s may write up to %s + %s path elements' % (arg[1], fmt(size), callee, fmt(a), fmt(b)), line)
    ctx.count('C allocation/use sites', n)
    return n


def _covers(size, a, b, f):
    """size expression (bytes) is (X + Y) * sizeof(idx_t) with {X, Y} covering {a, b}; a running maximum `max_length`
    over lengths[] covers lengths[r]."""
    terms = None
    for x in walk_expr(size):
        if x[0] == 'bin' and x[1] == '+':
            terms = [x[2], x[3]]
            break
    if terms is None:
        return False

    def cov(t, v):
        if t == v:
            return True
        # running maximum idiom: t is a local updated as `if (arr[k] > t) t = arr[k]` over all k, v is arr[...]
        if t[0] == 'var' and v[0] == 'idx':
            for s in walk_stmts(f.body):
                o = orient(s.cond, t) if s.k == 'if' else None          # t < arr[k]
                if o is not None and o[0] == '<' and o[2][0] == 'idx' and o[2][1] == v[1]:
                    return True
        return False
    return (cov(terms[0], a) and cov(terms[1], b)) or (cov(terms[0], b) and cov(terms[1], a))


def _resolve_locals(e, f, depth=4):
    """Replace locals that have exactly one definition in f (a declaration with initialiser or one assignment) by that definition."""
    from ..symexec import subst_expr
    defs = {}
    for s in walk_stmts(f.body):
        if s.k == 'decl' and s.init is not None:
            defs.setdefault(s.name, []).append(s.init)
        elif s.k == 'assign' and s.target[0] == 'var':
            defs.setdefault(s.target[1], []).append(s.value)
        elif s.k in ('for',):
            defs.setdefault(s.var, []).append(None)
    one = {k: v[0] for k, v in defs.items() if len(v) == 1 and v[0] is not None and k not in getattr(f, 'args', ())}
    for _ in range(depth):
        e2 = subst_expr(e, one)
        if e2 == e:
            break
        e = e2
    return e


def rule_alloc_pyx(ctx, m):
    """(b) pyx: index arrays passed to the C path routines are allocated with len1 + len2 entries of the same lengths."""
    mod = m.pyx('dtw_cc')
    n = 0
    # (b') a result array is sized with distance_matrix_length(block, ..): the block must already carry its form (triangular or not) -- switching the form
    # afterwards makes the C routine fill more entries than were allocated
    for pyxname in ('dtw_cc', 'dtw_cc_omp'):
        pm_ = m.pyx(pyxname)
        for q, f in sorted(pm_.funcs.items()):
            order = list(walk_stmts(f.body))
            sized = [(k_, x) for k_, st in enumerate(order) for e in stmt_exprs(st) for x in walk_expr(e)
                     if x[0] == 'call' and (dotted(x[1]) or '').split('.')[-1] == 'distance_matrix_length' and x[2] and x[2][0][0] == 'var']
            for k_, call in sized:
                blk = call[2][0]
                late = [st for st in order[k_ + 1:] for e in stmt_exprs(st) for x in walk_expr(e)
                        if x[0] == 'call' and x[1][0] == 'attr' and x[1][1] == blk and x[1][2] == 'triu_set']
                n += 1
                ctx.check(not late, 'R-ALLOC', pm_.path, q, 'result length after block form',
                          'the result array is sized by distance_matrix_length(%s, ..) and %s.triu_set(..) is called afterwards: the array is sized for the triangular form '
                          'while the C routine fills the rectangle (a write past the buffer)' % (blk[1], blk[1]), late[0].line if late else order[k_].line)
    for q, f in sorted(mod.funcs.items()):
        arrays = {}
        for s in walk_stmts(f.body):
            if s.k == 'decl' and s.init is not None and '*' in s.ctype:
                for y in walk_expr(s.init):
                    if y[0] == 'call' and dotted(y[1]) in ('PyMem_Malloc', 'malloc'):
                        arrays[s.name] = y[2][0]
        if not arrays:
            continue
        for s in walk_stmts(f.body):
            for e in stmt_exprs(s):
                for c in walk_expr(e):
                    if c[0] != 'call':
                        continue
                    d = dotted(c[1]) or ''
                    if not d.startswith('dtaidistancec_dtw.'):
                        continue
                    proto = m.cproto(d.split('.', 1)[1])
                    if proto is None:
                        continue
                    pn = [p[0] for p in proto.params]
                    for ia in ('i1', 'i2', 'from_i', 'to_i'):
                        if ia in pn and pn.index(ia) < len(c[2]):
                            arg = c[2][pn.index(ia)]
                            if arg[0] == 'var' and arg[1] in arrays:
                                l1n = 'l1' if 'l1' in pn else 'from_l'
                                l2n = 'l2' if 'l2' in pn else 'to_l'
                                a, b = c[2][pn.index(l1n)], c[2][pn.index(l2n)]
                                size = _resolve_locals(arrays[arg[1]], f)
                                a, b = _resolve_locals(a, f), _resolve_locals(b, f)
                                terms = None
                                for x in walk_expr(size):
                                    if x[0] == 'bin' and x[1] == '+':
                                        terms = [x[2], x[3]]
                                        break
                                n += 1
                                ok = terms is not None and sorted(map(fmt, terms)) == sorted(map(fmt, [a, b]))
                                ctx.check(ok, 'R-ALLOC', mod.path, q, 'index array %s for %s' % (arg[1], d),
                                          'index array `%s` is allocated with %s but the path routine may write %s + %s entries' % (arg[1], fmt(size), fmt(a), fmt(b)), s.line)
    ctx.count('pyx index arrays', n)
    return n


# ------------------------------------------------------------------------------------------ stride form of n-D reads
def _remove_addend(e, d):
    """e with the additive occurrence of d removed (d must occur exactly once, as a summand); None otherwise."""
    if e == d:
        return ('num', 0)
    if e[0] == 'bin' and e[1] == '+':
        l, r = e[2], e[3]
        if r == d and not any(y == d for y in walk_expr(l)):
            return l
        if l == d and not any(y == d for y in walk_expr(r)):
            return r
        if any(y == d for y in walk_expr(l)) and not any(y == d for y in walk_expr(r)):
            rl = _remove_addend(l, d)
            return None if rl is None else ('bin', '+', rl, r)
        if any(y == d for y in walk_expr(r)) and not any(y == d for y in walk_expr(l)):
            rr = _remove_addend(r, d)
            return None if rr is None else ('bin', '+', l, rr)
    if e[0] == 'bin' and e[1] == '-' and any(y == d for y in walk_expr(e[2])) and not any(y == d for y in walk_expr(e[3])):
        rl = _remove_addend(e[2], d)
        return None if rl is None else ('bin', '-', rl, e[3])
    return None


def _is_mult(e, nd, f, seen):
    """e is syntactically a multiple of the variable nd: 0, a product with a factor nd, a sum of multiples, or a local variable
    all of whose definitions (and += updates) are multiples."""
    if e[0] == 'num':
        return e[1] == 0
    if e[0] == 'cast':
        return _is_mult(e[-1], nd, f, seen)
    if e[0] == 'bin' and e[1] == '*':
        return e[2] == ('var', nd) or e[3] == ('var', nd) or _is_mult(e[2], nd, f, seen) or _is_mult(e[3], nd, f, seen)
    if e[0] == 'bin' and e[1] in '+-':
        return _is_mult(e[2], nd, f, seen) and _is_mult(e[3], nd, f, seen)
    if e[0] == 'var':
        v = e[1]
        if v in seen or v == nd:
            return True
        if v in [p for p, t in f.params]:
            return False
        seen = seen | {v}
        defs = [t.value for t in walk_stmts(f.body) if t.k == 'assign' and t.target == e] + \
               [t.init for t in walk_stmts(f.body) if t.k == 'decl' and t.name == v and t.init is not None]
        if not defs:
            return False
        for t in defs:
            if not _is_mult(t, nd, f, seen):
                return False
        return True
    return False


def rule_ndim_stride(ctx, m, funcs):
    """Every read of a series parameter inside a loop over the dimension variable has the form s[idx*ndim + d] -- the
    dimension loop variable appears in every such subscript."""
    n = 0
    allf = m.all_cfuncs()
    for fname in funcs:
        f = allf.get(fname)
        if f is None:
            raise AnalysisError('anchor vanished: C function %s' % fname)
        series = [p for p, t in f.params if p in ('s1', 's2') and '*' in t]
        for block, i, loop in _all_loops(f.body):
            if loop.k != 'for' or loop.hi != ('var', 'ndim'):
                continue
            dv = loop.var
            for s in walk_stmts(loop.body):
                for e in stmt_exprs(s):
                    for x in walk_expr(e):
                        if x[0] == 'idx' and x[1][0] == 'var' and x[1][1] in series:
                            n += 1
                            has_d = any(y == ('var', dv) for y in walk_expr(x[2]))
                            ctx.check(has_d, 'R-STRIDE', f.file, fname, 'read %s in dimension loop' % fmt(x),
                                      'inside the loop over the %s dimensions the read %s does not depend on the dimension index: every dimension is '
                                      'compared with component 0 of that element' % ('ndim', fmt(x)), s.line)
                            if has_d:
                                # element-major layout: the subscript is (a multiple of ndim) + d
                                rest = _remove_addend(x[2], ('var', dv))
                                okm = rest is not None and _is_mult(rest, 'ndim', f, set())
                                ctx.check(okm, 'R-STRIDE', f.file, fname, 'stride of %s' % fmt(x),
                                          'series are stored element-major (item i, dimension d at i*ndim + d): the subscript of %s is not (a multiple of ndim) + %s, '
                                          'so the components of different items are mixed' % (fmt(x), dv), s.line)
    # the n-D point distance is computed by the same block in every region / tail loop of a function: the statement that consumes the accumulated
    # `d` right after the dimension loop (sqrt for the euclidean variants, the max_step test / accumulation for the squared ones) is the same everywhere
    for fname in funcs:
        f = allf.get(fname)
        nxt = []
        for block, i, loop in _all_loops(f.body):
            if loop.k == 'for' and loop.hi == ('var', 'ndim'):
                # the accumulator of the dimension loop and the way its total is first consumed after the loop: through sqrt (euclidean point distance) or as it is
                accs = [t.target for t in walk_stmts(loop.body) if t.k == 'assign' and t.target[0] == 'var' and t.d.get('aug') == '+']
                if len(accs) != 1:
                    continue
                nxt.append((_first_use_class(block[i + 1:], accs[0]), loop.line))
        if len(nxt) >= 2:
            forms = sorted({str(t) for t, _ in nxt})
            odd = [ln for t, ln in nxt if [x for x, _ in nxt].count(t) == 1] if len(forms) > 1 else []
            ctx.check(len(forms) == 1, 'R-STRIDE', f.file, fname, 'point-distance epilogue',
                      'the %d copies of the n-D point-distance block in %s do not consume the summed squares alike: %s (odd one at line %s) -- one region / tail loop uses a different distance than the others'
                      % (len(nxt), fname, forms, odd[:1]), (odd or [f.line])[0])
        if fname.endswith('_euclidean') and nxt:
            ctx.check(all(t == 'sqrt' for t, _ in nxt), 'R-STRIDE', f.file, fname, 'euclidean point distance',
                      'in the euclidean variant the sum over the dimensions must be rooted (sqrt) after every dimension loop before it is used; found %s' % sorted({str(t) for t, _ in nxt}), f.line)
    ctx.count('n-D subscripts', n)
    return n


def _first_use_class(stmts, v):
    """How the statements following a dimension loop first use the accumulated variable v: 'sqrt' when every occurrence in the first using statement
    is the argument of sqrt, 'plain' otherwise; None when v is not used before the block ends / v is overwritten."""
    for s in stmts:
        occ = 0
        rooted = 0
        for t in walk_stmts([s]):
            for k_, e in enumerate(stmt_exprs(t)):
                if t.k == 'assign' and k_ == 0 and e == v:
                    continue          # plain assignment target
                for x in walk_expr(e):
                    if x == v:
                        occ += 1
                    if x[0] == 'call' and dotted(x[1]) in ('sqrt', 'sqrtf', 'sqrtl') and len(x[2]) == 1 and x[2][0] == v:
                        rooted += 1
        if occ:
            return 'sqrt' if occ == rooted else 'plain'
        if s.k == 'assign' and s.target == v:
            return None
    return None


# ------------------------------------------------------------------------------------------ DBA (C) path rules
def rule_dba_c(ctx, m):
    allf = m.all_cfuncs()
    for fname in ('dtw_dba_ptrs', 'dtw_dba_matrix'):
        f = allf.get(fname)
        if f is None:
            raise AnalysisError('anchor vanished: C function %s' % fname)
        series_loops = [(b, i, l) for b, i, l in _all_loops(f.body) if l.k == 'for' and l.var.split('#')[0] == 'r' and l.hi[0] == 'var' and l.hi[1] in ('nb_ptrs', 'nb_rows')]
        ctx.check(len(series_loops) == 2, 'R-PATH', f.file, fname, 'series loops', 'expected the deterministic and the sampled loop over the series, found %d' % len(series_loops), f.line)
        for b, i, loop in series_loops:
            tag = 'sampled' if any(x[0] == 'call' and dotted(x[1]) == 'dtw_best_path_prob' for s in walk_stmts(loop.body) for e in stmt_exprs(s) for x in walk_expr(e)) else 'deterministic'
            # accumulation only under bit_test(mask, r)
            accs = [s for s in walk_stmts(loop.body) if s.k == 'assign' and s.target[0] == 'idx' and s.target[1] in (('var', 'assoctab'), ('var', 'assoctab_cnt'))]
            guard_ok = True
            for s in accs:
                guard_ok = guard_ok and _under_mask(loop.body, s, loop.var)
            ctx.check(bool(accs) and guard_ok, 'R-PATH', f.file, fname, 'accumulation under mask [%s]' % tag,
                      'sums and counts must be updated only for series selected by bit_test(mask, r)', loop.line)
            # pairing: per path element one count increment and one sum per dimension -- decided on the symbolic stores of the path loop
            ploops = [l for b2, i2, l in _all_loops(loop.body) if l.k == 'for' and l.hi == ('var', 'path_length')]
            okp = bool(ploops)
            why = []
            roles = []          # (index array of the sums, series array read, index array of the reads, line)
            for pl in ploops:
                evs = [(ev, lps) for ev, lps in deep_events(pl.body, Env({pl.var: ('var', pl.var)})) if ev[0] == 'store' and ev[2][0] == 'idx']
                cnts = [(ev, lps) for ev, lps in evs if ev[3] == ('bin', '+', ev[2], ('num', 1))]
                sums = [(ev, lps) for ev, lps in evs if (ev, lps) not in cnts]
                if len(cnts) != 1 or len(sums) != 1 or cnts[0][1] or cnts[0][0][1] or sums[0][0][1]:
                    okp = False
                    why.append('%d count and %d sum stores per path element' % (len(cnts), len(sums)))
                    continue
                cev, (sev, slps) = cnts[0][0], sums[0]
                item = cev[2][2]                                    # ci[pi]
                dl = [l for l in slps if l.k == 'for' and l.hi == ('var', 'ndim') and l.lo == ('num', 0)]
                ok1 = len(slps) == 1 and len(dl) == 1
                if ok1:
                    dv = ('var', dl[0].var)
                    t_item = _item_of(sev[2][2], dv)
                    val = sev[3]
                    rd = val[3] if val[0] == 'bin' and val[1] == '+' and val[2] == sev[2] else None
                    s_item = _item_of(rd[2], dv) if rd is not None and rd[0] == 'idx' else None
                    ok1 = t_item == item and s_item is not None and s_item[0] == 'idx' and item[0] == 'idx' and s_item[1] != item[1] and s_item[2] == item[2] \
                        and sev[2][1] != cev[2][1]
                okp = okp and ok1
                if ok1:
                    roles.append((item[1], rd[1], s_item[1], pl.line))
            ctx.check(okp, 'R-PATH', f.file, fname, 'sum/count pairing [%s]' % tag,
                      'for every path element (ci, mi): assoctab[ci*ndim+d] += sequence[mi*ndim+d] for all d and assoctab_cnt[ci] += 1 exactly once %s' % '; '.join(why), loop.line)
            # which index array belongs to which series: the path routine fills (i1, i2) for the (first, second) series of the cost-matrix call;
            # the sums are indexed by the average's positions, the values are read from the other series at ITS positions
            avg_v = ('var', f.params[3][0])
            calls = [x for s in walk_stmts(loop.body) for e in stmt_exprs(s) for x in walk_expr(e) if x[0] == 'call']
            wcalls = [x for x in calls if (dotted(x[1]) or '').startswith('dtw_warping_paths') and len(x[2]) >= 5]
            pcalls = [x for x in calls if (dotted(x[1]) or '').startswith('dtw_best_path') and len(x[2]) >= 5]
            if len(wcalls) == 1 and len(pcalls) == 1 and roles:
                wc, pc = wcalls[0], pcalls[0]
                s1, l1, s2, l2 = wc[2][1:5]
                if s1 == avg_v or s2 == avg_v:
                    a_idx, o_idx, other = (pc[2][1], pc[2][2], s2) if s1 == avg_v else (pc[2][2], pc[2][1], s1)
                    okr = tuple(pc[2][3:5]) == (l1, l2) and all(ia == a_idx and rs == other and ib == o_idx for ia, rs, ib, _ln in roles)
                    ctx.check(okr, 'R-PATH', f.file, fname, 'path index roles [%s]' % tag,
                              'the cost matrix is computed for (%s, %s) and the path routine fills (%s, %s) for them in that order: the sums must be indexed through %s (positions in the '
                              'average) and read %s through %s; found sums indexed through %s reading %s through %s -- with swapped roles positions of one series index the other '
                              '(wrong average; out-of-bounds access when the lengths differ)'
                              % (fmt(s1), fmt(s2), fmt(pc[2][1]), fmt(pc[2][2]), fmt(a_idx), fmt(other), fmt(o_idx),
                                 sorted({fmt(r_[0]) for r_ in roles}), sorted({fmt(r_[1]) for r_ in roles}), sorted({fmt(r_[2]) for r_ in roles})), roles[0][3])
                else:
                    ctx.undecided('R-PATH', '%s path index roles [%s]' % (fname, tag), 'the average is not an operand of the cost-matrix call')
            else:
                ctx.undecided('R-PATH', '%s path index roles [%s]' % (fname, tag), '%d cost-matrix calls, %d path calls' % (len(wcalls), len(pcalls)))
            if fname == 'dtw_dba_matrix':
                incs = paths_increments(loop.body, 'r_idx')
                top = [s for s in loop.body if s.k == 'assign' and s.target == ('var', 'r_idx')]
                from ..canon import canon_expr
                ok = len(top) == 1 and top[0].d.get('aug') == '+' and aug_rhs(top[0]) == canon_expr(('bin', '*', ('var', 'nb_cols'), ('var', 'ndim')))
                ctx.check(ok, 'R-PATH', f.file, fname, 'row offset advance [%s]' % tag,
                          'r_idx must advance by nb_cols*ndim on EVERY iteration of the series loop (masked or not); otherwise later series are read '
                          'from the wrong offset', loop.line)
        # mean = sum / count guarded by count != 0 -- on the symbolic stores to the average (4th parameter)
        avg = ('var', f.params[3][0])
        ok = False
        bad = False
        for ev, lps in deep_events(f.body):
            if ev[0] != 'store' or ev[2][0] != 'idx' or ev[2][1] != avg:
                continue
            v = ev[3]
            if v[0] == 'bin' and v[1] == '/' and v[2][0] == 'idx' and v[3][0] == 'idx':
                nonzero = any(_cmp_zero(c, v[3]) == 'nonzero' for c in kern_conj(ev[1]))
                same = v[2][2] == ev[2][2] and v[2][1] != v[3][1]
                if nonzero and same:
                    ok = True
                else:
                    bad = True
            elif v != ('num', 0) and any(x[0] == 'bin' and x[1] == '/' for x in walk_expr(v)):
                bad = True
        ctx.check(ok and not bad, 'R-PATH', f.file, fname, 'mean', 'the new average must be assoctab[i*ndim+d] / assoctab_cnt[i], guarded by assoctab_cnt[i] != 0', f.line)
        # initialisation of sums and counts to 0
        init = [s for s in walk_stmts(f.body) if s.k == 'assign' and s.target[0] == 'idx' and s.target[1] in (('var', 'assoctab'), ('var', 'assoctab_cnt')) and s.value == ('num', 0)]
        ctx.check(len(init) >= 2, 'R-PATH', f.file, fname, 'accumulator reset', 'sums and counts must be zeroed before accumulation', f.line)


def _literal(c):
    """(atom, polarity) of a condition: `not x` and `a != b` are the negations of x and `a == b` (exact, also for NaN)."""
    pol = True
    while True:
        if c[0] == 'un' and c[1] == 'not':
            c, pol = c[2], not pol
        elif c[0] == 'bin' and c[1] == '!=':
            c, pol = ('bin', '==', c[2], c[3]), not pol
        else:
            return c, pol


def _truth_on_path(arg, path):
    """Truth value of a flag argument on a path (tuple of branch conditions): constants, or a literal the path has decided; None otherwise."""
    from .kern import _conj
    if arg in (('num', 1), ('bool', True)):
        return True
    if arg in (('num', 0), ('bool', False)):
        return False
    a, pol = _literal(arg)
    for c in _conj(path):
        b, pb = _literal(c)
        if a == b:
            return pol == pb
    return None


def rule_backtrack_repr(ctx, m):
    """The C backtracking routines compare cells of the cost matrix with the penalty of the internal (squared) domain and skip cells marked negative by the
    psi-relaxation: every cost-matrix call that can be the most recent one on the same buffer when a `dtw_best_path*` call is reached must have been asked to
    keep the internal representation and to mark the relaxed border (its parameters of those names, whatever their position).  Decided on the statement
    tree: a producer counts when its branch conditions do not contradict those of the path routine; a flag is evaluated under both sets of conditions."""
    allf = m.all_cfuncs()
    n = 0
    for fname, f in sorted(allf.items()):
        if not any(c[0].startswith('dtw_best_path') for c in f.calls):
            continue
        mutated = assigned_vars(f.body)
        producers = []          # (path, callee, args, parameter names) in program order; path = ((id of if, arm, condition), ...)
        sites = []

        def calls_in(e):
            return [x for x in reversed(list(walk_expr(e))) if x[0] == 'call' and x[2] and (dotted(x[1]) or '') in allf]

        def visit(stmts, path):
            for st in stmts:
                if st.k == 'if':
                    for x in calls_in(st.cond):
                        on_call(x, path, st)
                    visit(st.then, path + ((id(st), True, st.cond),))
                    visit(st.els, path + ((id(st), False, ('un', 'not', st.cond)),))
                    continue
                for e in stmt_exprs(st):
                    for x in calls_in(e):
                        on_call(x, path, st)
                for blk in sub_blocks(st):
                    visit(blk, path)

        def on_call(x, path, st):
            nm = dotted(x[1])
            names = [p_[0] for p_ in allf[nm].params]
            if nm.startswith('dtw_warping_paths') and 'keep_int_repr' in names:
                producers.append((path, nm, x[2], names))
            elif nm.startswith('dtw_best_path'):
                sites.append((path, nm, x[2], st, list(producers)))
        visit(f.body, ())
        for path, nm, args, st, prods in sites:
            n += 1
            inst = '%s: %s reads %s' % (fname, nm, fmt(args[0]))
            arms = {i: a for i, a, _c in path}
            relevant = []
            for ppath, pn, pargs, pnames in reversed(prods):
                if pargs[0] != args[0]:
                    continue
                if any(i in arms and arms[i] != a for i, a, _c in ppath):
                    continue            # the other arm of a branch the path routine is in
                relevant.append((ppath, pn, pargs, pnames))
                if all(i in arms for i, _a, _c in ppath):
                    break               # executed on every path that reaches the path routine: earlier producers are overwritten
            if not relevant:
                ctx.undecided('R-DOM', inst, 'no cost-matrix call on this buffer precedes the path routine')
                continue
            verdicts = []
            for ppath, pn, pargs, pnames in relevant:
                conds = tuple(c for _i, _a, c in tuple(path) + tuple(ppath))
                for flag in ('keep_int_repr', 'psi_neg'):
                    if flag in pnames and pnames.index(flag) < len(pargs):
                        arg = pargs[pnames.index(flag)]
                        free = {y[1] for y in walk_expr(arg) if y[0] == 'var'}
                        v = _truth_on_path(arg, conds) if not (free & mutated) else (_truth_on_path(arg, ()))
                        verdicts.append((v, flag, pn, pargs))
            bad = [t for t in verdicts if t[0] is False]
            if bad:
                _v, flag, pn, pargs = bad[0]
                ctx.violation('R-DOM', f.file, fname, 'matrix representation for %s' % nm,
                              '%s backtracks through a matrix that %s produced with %s false on this path (call %s): the path routine compares cells with the '
                              'squared penalty and skips cells marked negative, so it needs the internal representation with the relaxed border marked -- '
                              'with a rooted matrix and a penalty the path is no longer the optimal one'
                              % (nm, pn, ' and '.join(sorted({t[1] for t in bad})), fmt(('call', ('var', pn), pargs, ()))[:200]), st.line)
            elif any(t[0] is None for t in verdicts):
                ctx.undecided('R-DOM', inst, 'flag not decided on the path: %s' % sorted({'%s=%s' % (t[1], fmt(t[3][0])) for t in verdicts if t[0] is None}))
            else:
                ctx.held('R-DOM', inst)
    ctx.count('backtracking call sites', n)
    if n == 0:
        raise AnalysisError('anchor vanished: no dtw_best_path* call site in the C engine')
    return n


def rule_path_distance_domain(ctx, m):
    """dtw_warping_path_ndim returns the DTW distance next to the path: the cost-matrix routine is asked to keep the internal representation (the path
    routine needs it), so the value it hands back is the accumulated cost -- squared for the squared-Euclidean inner distance, already a distance for the
    Euclidean one.  Per inner distance: the returned value is rooted exactly when it is a squared cost."""
    from ..symexec import Exec
    allf = m.all_cfuncs()
    f = allf.get('dtw_warping_path_ndim')
    if f is None:
        raise AnalysisError('anchor vanished: C function dtw_warping_path_ndim')
    ex = Exec()
    ex.run(f.body, Env())
    n = 0

    def arms(val, path):
        if val is not None and val[0] == 'cond':
            yield from arms(val[2], tuple(path) + (val[1],))
            yield from arms(val[3], tuple(path) + (('un', 'not', val[1]),))
        else:
            yield tuple(path), val
    rets = [(p2, v2, st) for path, val, st in ex.returns for p2, v2 in arms(val, path)]
    for path, val, st in rets:
        if val is None:
            continue
        k = 0
        v = val
        while v[0] == 'call' and dotted(v[1]) in ('sqrt', 'sqrtf', 'sqrtl') and len(v[2]) == 1:
            k += 1
            v = v[2][0]
        callee = dotted(v[1]) if v[0] == 'call' else None
        g = allf.get(callee or '')
        if g is None or not callee.startswith('dtw_warping_paths'):
            ctx.undecided('R-DOM', 'dtw_warping_path_ndim returned distance', 'the returned value %s is not the result of a cost-matrix call' % fmt(val)[:100])
            continue
        names = [p_[0] for p_ in g.params]
        kir = _truth_on_path(v[2][names.index('keep_int_repr')], path) if 'keep_int_repr' in names else None
        if kir is None:
            ctx.undecided('R-DOM', 'dtw_warping_path_ndim returned distance', 'keep_int_repr of %s not decided' % callee)
            continue
        on_path = None
        for c in path:
            for lit in (c,):
                a_, pol = _literal(lit)
                if a_[0] == 'bin' and a_[1] == '==' and any(x[0] == 'attr' and x[2] == 'inner_dist' for x in walk_expr(a_)) and a_[3] == ('num', 1):
                    on_path = pol
        for euclid in ((True, False) if on_path is None else (on_path,)):
            n += 1
            squared = kir and not euclid and not callee.endswith('_euclidean')
            if callee.endswith('_euclidean') and not euclid:
                continue          # (calling the euclidean variant for the squared inner distance is the variant-callee rule's business)
            want = 1 if squared else 0
            ctx.check(k == want, 'R-DOM', f.file, 'dtw_warping_path_ndim', 'returned distance [inner_dist %s]' % ('euclidean' if euclid else 'squared euclidean'),
                      'with the %s inner distance %s(keep_int_repr=%s) hands back %s; dtw_warping_path_ndim applies sqrt %d time(s) where %d are needed, so the reported '
                      'distance is not the cost of the returned path' % ('euclidean' if euclid else 'squared euclidean', callee, kir,
                                                                         'the squared accumulated cost' if squared else 'a distance', k, want), st.line)
    if n == 0:
        raise AnalysisError('unrecognised shape: dtw_warping_path_ndim returns no cost-matrix result')
    return n


def _item_of(e, dv):
    """e == item * ndim + d (any order, product either way) -> item expression; None otherwise."""
    adds = []

    def flat(x):
        if x[0] == 'bin' and x[1] == '+':
            flat(x[2])
            flat(x[3])
        else:
            adds.append(x)
    flat(e)
    if len(adds) != 2 or dv not in adds:
        return None
    p = [a for a in adds if a != dv][0] if adds.count(dv) == 1 else None
    if p is None or not (p[0] == 'bin' and p[1] == '*'):
        return None
    if p[3] == ('var', 'ndim'):
        return p[2]
    if p[2] == ('var', 'ndim'):
        return p[3]
    return None


def _cmp_zero(c, cell):
    """'nonzero' when condition c states cell != 0 (or cell > 0 / not (cell == 0)), 'zero' for the opposite, None otherwise."""
    neg = False
    while c[0] == 'un' and c[1] == 'not':
        c, neg = c[2], not neg
    if c == cell:
        return 'zero' if neg else 'nonzero'
    if c[0] == 'bin' and c[1] in ('!=', '==') and ((c[2] == cell and c[3] == ('num', 0)) or (c[3] == cell and c[2] == ('num', 0))):
        return 'nonzero' if (c[1] == '!=') != neg else 'zero'
    o = orient(c, cell)
    if o is not None and o[2] == ('num', 0) and o[0] == '>':
        return 'nonzero' if not neg else 'zero'
    return None


def kern_conj(path):
    from .kern import _conj
    return _conj(path)


def _under_mask(stmts, target, rvar):
    """target statement lies inside `if (bit_test(mask, r))` = `if (mask[r/8] & (1 << (r%8)))`."""
    def find(ss, ok):
        for s in ss:
            if s is target:
                return ok
            if s.k == 'if':
                is_m = _is_bit_test(s.cond, rvar)
                if any(x is target for x in walk_stmts(s.then)):
                    return find(s.then, ok or is_m)
                if any(x is target for x in walk_stmts(s.els)):
                    return find(s.els, ok)
            else:
                for b in sub_blocks(s):
                    if any(x is target for x in walk_stmts(b)):
                        return find(b, ok)
        return False
    return find(stmts, False)


def _is_bit_test(c, rvar):
    """mask[r / 8] & (1 << (r % 8))  (little bit order inside each byte)."""
    if c[0] == 'bin' and c[1] == '&':
        a, b = c[2], c[3]
        if a[0] == 'idx' and a[1] == ('var', 'mask') and a[2] == ('bin', '/', ('var', rvar), ('num', 8)) \
                and b == ('bin', '<<', ('num', 1), ('bin', '%', ('var', rvar), ('num', 8))):
            return True
    return False


# ------------------------------------------------------------------------------------------ build-configuration invariance
LIB_UNITS = ['dd_dtw.c', 'dd_ed.c', 'dd_dtw_openmp.c', 'dd_globals.c']


def _serialise(body):
    from ..dump import dump
    import re
    out = []
    dump(body, 0, lambda l: out.append(re.sub(r'^\d+\s+', '', l.strip())))
    return out


def rule_config_invariance(ctx, m, units=LIB_UNITS):
    """The extension is built with the interpreter's CFLAGS, which contain -DNDEBUG, while the rules analyse the configuration with asserts
    (they read the asserts as stated preconditions).  The two configurations must be the same program up to the assert statements:
    (a) every assert condition is free of side effects; (b) function by function, the NDEBUG translation unit equals the analysed one with
    the asserts deleted."""
    n = 0
    for un in units:
        u0 = m.c(un)
        u1 = m.c(un, defines=('NDEBUG',))
        ctx.check(sorted(u0.funcs) == sorted(u1.funcs), 'R-CFG', u0.path, un, 'function set',
                  'the NDEBUG configuration defines a different set of functions: %s' % sorted(set(u0.funcs) ^ set(u1.funcs))[:6], 1)
        for fn, f in sorted(u0.funcs.items()):
            for st in walk_stmts(f.body):
                if st.k == 'assert':
                    n += 1
                    impure = [fmt(x)[:60] for x in walk_expr(st.cond) if x[0] in ('call', 'other')]
                    ctx.check(not impure, 'R-CFG', u0.path, fn, 'assert %s' % fmt(st.cond)[:80],
                              'assert condition has a side effect or a call (%s): the shipped NDEBUG build does not execute it' % impure, st.line)
            g = u1.funcs.get(fn)
            if g is None:
                continue
            a = [l for l in _serialise(f.body) if not l.lstrip().startswith('assert ')]
            b = [l for l in _serialise(g.body) if l.strip() != 'expr 0']
            a = [l for l in a if l.strip() != 'expr 0']
            n += 1
            if a == b:
                ctx.held('R-CFG', '%s:%s NDEBUG body' % (un, fn))
            else:
                diff = next(((x, y) for x, y in zip(a + [''] * len(b), b + [''] * len(a)) if x != y), ('', ''))
                ctx.violation('R-CFG', u0.path, fn, 'NDEBUG body', 'with -DNDEBUG (the shipped build) the function differs from the analysed configuration by more '
                              'than its asserts: `%s` vs `%s`' % (diff[0].strip()[:100], diff[1].strip()[:100]), f.line)
    ctx.count('functions compared across configurations + asserts', n)


# ------------------------------------------------------------------------------------------ sibling skeletons (squared / euclidean)
def _nx(e):
    """Normalise an expression: drop the variant suffix, sqrt(E) -> E, pow(E, 2) -> E, (a-b)*(a-b) and fabs(a-b) -> PD(a, b)."""
    if not isinstance(e, tuple) or not e:
        return e
    if e[0] == 'call':
        d = dotted(e[1]) or ''
        if d in ('sqrt', 'sqrtf') and len(e[2]) == 1:
            return _nx(e[2][0])
        if d in ('pow', 'powf') and len(e[2]) == 2 and e[2][1] == ('num', 2):
            return _nx(e[2][0])
        if d in ('fabs', 'fabsf') and len(e[2]) == 1 and e[2][0][0] == 'bin' and e[2][0][1] == '-':
            return ('call', ('var', 'PD'), [_nx(e[2][0][2]), _nx(e[2][0][3])], ())
        if d.endswith('_euclidean'):
            e = ('call', ('var', d[:-len('_euclidean')])) + tuple(e[2:])
    if e[0] == 'bin' and e[1] == '*' and e[2] == e[3] and e[2][0] == 'bin' and e[2][1] == '-':
        return ('call', ('var', 'PD'), [_nx(e[2][2]), _nx(e[2][3])], ())
    return tuple(_nx(x) if isinstance(x, tuple) else ([_nx(y) for y in x] if isinstance(x, list) else x) for x in e)


def _nstmts(stmts, self_name):
    """Normalised copy of a statement list (see rule_sibling_skeleton)."""
    from ..ir import S
    out = []
    for st in stmts:
        k = st.k
        if k == 'assert':
            continue
        if k == 'assign':
            t, v = _nx(st.target), _nx(st.value)
            if t == v:
                continue            # x = pow(x, 2) / x = sqrt(x) after normalisation
            out.append(S('assign', None, target=t, value=v))
        elif k == 'decl':
            out.append(S('decl', None, name=st.name, ctype=st.ctype, init=_nx(st.init) if st.init is not None else None))
        elif k == 'if':
            c = _nx(st.cond)
            th, el = _nstmts(st.then, self_name), _nstmts(st.els, self_name)
            # the dispatch head of the squared variant: if (settings.inner_dist == 1) return <same family>(...)
            if fmt(c) == '(settings.inner_dist == 1)' and len(th) == 1 and th[0].k == 'return' and th[0].value is not None and th[0].value[0] == 'call' \
                    and dotted(th[0].value[1]) == self_name and not el:
                continue
            if not th and not el:
                continue
            if _ser(th) == _ser(el):
                out.extend(th)      # both arms equal after normalisation (e.g. return x / return sqrt(x))
                continue
            out.append(S('if', None, cond=c, then=th, els=el))
        elif k in ('for', 'while', 'loop', 'foreach', 'omp', 'with'):
            d = dict(st.d)
            for key in ('body', 'init', 'inc'):
                if key in d and isinstance(d[key], list):
                    d[key] = _nstmts(d[key], self_name)
            for key in ('lo', 'hi', 'step', 'cond'):
                if key in d and isinstance(d[key], tuple):
                    d[key] = _nx(d[key])
            if not d.get('body'):
                continue
            out.append(S(k, None, **d))
        elif k in ('return', 'expr', 'raise'):
            out.append(S(k, None, value=_nx(st.value) if st.value is not None else None))
        else:
            out.append(S(k, None, **st.d))
    return out


def _ser(stmts):
    return _serialise(stmts)


# accepted residual differences between a squared kernel and its euclidean sibling: (family, squared line, euclidean line): reason
SIBLING_EXCEPTIONS = {
    ('lb_keogh', 't = (t + PD(li, ci))', 't = (t + (li - ci))'): 'on this branch ci < li, so li - ci = |li - ci|',
}


def rule_sibling_skeleton(ctx, m, families=None):
    """Every C kernel exists as a squared-distance function and a `_euclidean` sibling rendered from the same template.  After removing what
    legitimately differs -- the dispatch head, the point distance ((a-b)^2 vs |a-b|), the pow(x, 2) conversions of thresholds and the sqrt of
    results -- the two must be the same program: an edit made to one sibling only is a disagreement between the two inner distances."""
    allf = m.all_cfuncs()
    fams = sorted(n for n in allf if n + '_euclidean' in allf and (families is None or n in families))
    n = 0
    for fam in fams:
        a, b = allf[fam], allf[fam + '_euclidean']
        A, B = _ser(_nstmts(a.body, fam)), _ser(_nstmts(b.body, fam))
        A = [l.replace('_euclidean', '') for l in A]
        B = [l.replace('_euclidean', '') for l in B]
        n += 1
        import difflib
        sm = difflib.SequenceMatcher(a=A, b=B, autojunk=False)
        bad = []
        for tag, i1, i2, j1, j2 in sm.get_opcodes():
            if tag == 'equal':
                continue
            la, lb = A[i1:i2], B[j1:j2]
            if len(la) == len(lb) and all((fam, x, y) in SIBLING_EXCEPTIONS for x, y in zip(la, lb)):
                continue
            bad.append((la[:2], lb[:2]))
        if not bad:
            ctx.held('R-VAR', 'siblings %s / %s_euclidean agree up to the inner-distance differences' % (fam, fam), '%d statements' % len(A))
        else:
            # A syntactic disagreement is not a verdict: a behaviour-preserving rewrite of one sibling only also lands here (the self-test twins
            # T1-T3 do).  It is reported as a cross-reference for the reader; the kernels are decided one by one against the scheme.
            ctx.undecided('R-VAR', 'siblings %s / %s_euclidean' % (fam, fam), 'syntactic drift, see NOTE')
            ctx.note('SIBLING-DRIFT %s vs %s_euclidean (same template): beyond point distance / pow / sqrt the squared variant has %s where the euclidean '
                     'variant has %s (%d differing block(s)); not a verdict' % (fam, fam, bad[0][0], bad[0][1], len(bad)))
    ctx.count('squared/euclidean sibling pairs', n)
    return n
