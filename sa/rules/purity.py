"""C20: module state and per-object history."""
from ..cfront import AnalysisError
from ..ir import fmt, walk_stmts, walk_expr, stmt_exprs, dotted


def rule_globals(ctx, m, modules):
    """No function writes a module global, except util.try_import_c (documented re-import helper)."""
    n = 0
    for mname in modules:
        mod = m.py(mname)
        for q, f in sorted(mod.funcs.items()):
            gl = set()
            for s in walk_stmts(f.body):
                if s.k == 'global':
                    gl.update(s.names)
            if not gl:
                continue
            n += 1
            written = sorted(g for g in gl if any(s.k == 'assign' and s.target == ('var', g) for s in walk_stmts(f.body)) or
                             any(s.k == 'import' for s in walk_stmts(f.body)))
            ok = (mname, q) == ('dtaidistance.util', 'try_import_c') or not written
            ctx.check(ok, 'R-EFF', mod.path, q, 'module globals %s' % sorted(gl), 'the routine rebinds module-level state %s: later calls depend on call history' % written, f.line)
    ctx.held('R-EFF', 'module globals scanned in %d modules (%d functions declare globals)' % (len(modules), n))
    return n


CALLER_DICT_PARAMS = {'dists_options', 'dist_opts', 'kwargs_dict'}


def rule_history(ctx, m):
    """Option dictionaries handed in by the caller are not mutated (a shared settings object must give the same result
    in every later call); model classes store a private copy."""
    sites = 0
    for mname in ('dtaidistance.clustering.hierarchical', 'dtaidistance.clustering.kmeans', 'dtaidistance.clustering.medoids',
                  'dtaidistance.subsequence.subsequencesearch', 'dtaidistance.subsequence.subsequencealignment',
                  'dtaidistance.subsequence.localconcurrences'):
        mod = m.py(mname)
        for cname in sorted(mod.classes):
            init = mod.funcs.get(cname + '.__init__')
            if init is None:
                continue
            # attributes that alias a caller-supplied dict: self.X = <param> or self.X = {} if param is None else param
            alias = set()
            for s in walk_stmts(init.body):
                if s.k == 'assign' and s.target[0] == 'attr' and s.target[1] == ('var', 'self'):
                    v = s.value
                    names = {x[1] for x in walk_expr(v) if x[0] == 'var'}
                    copies = any(x[0] == 'call' and (dotted(x[1]) or '').split('.')[-1] in ('dict', 'copy', 'deepcopy') for x in walk_expr(v)) or \
                        any(x[0] == 'dict' and any(k is None for k, _ in x[1]) for x in walk_expr(v))
                    if names & CALLER_DICT_PARAMS and names & set(init.args) and not copies:
                        alias.add(s.target[2])
            if not alias:
                continue
            for q, f in sorted(mod.funcs.items()):
                if f.cls != cname:
                    continue
                restored = set()
                for s in walk_stmts(f.body):
                    tgt = None
                    if s.k == 'assign' and s.target[0] == 'idx' and s.target[1][0] == 'attr' and s.target[1][1] == ('var', 'self') and s.target[1][2] in alias:
                        tgt = s
                    if s.k == 'delete':
                        for t in s.targets:
                            if t[0] == 'idx' and t[1][0] == 'attr' and t[1][1] == ('var', 'self') and t[1][2] in alias:
                                tgt = s
                    if tgt is None:
                        continue
                    sites += 1
                    key = fmt(tgt.target[2]) if tgt.k == 'assign' else '?'
                    # save/restore idiom inside one method: value saved to a local before, written back after
                    saves = [x for x in walk_stmts(f.body) if x.k == 'assign' and x.target[0] == 'var' and x.line < tgt.line and
                             any(y[0] == 'idx' and y[1] == tgt.target[1] and fmt(y[2]) == key for y in walk_expr(x.value))] if tgt.k == 'assign' else []
                    backs = [x for x in walk_stmts(f.body) if x.k == 'assign' and x.target == tgt.target and x is not tgt and x.line > tgt.line and saves and
                             x.value == ('var', saves[0].target[1])] if tgt.k == 'assign' else []
                    is_restore = tgt.k == 'assign' and tgt.value[0] == 'var' and any(x.k == 'assign' and x.target == ('var', tgt.value[1]) and x.line < tgt.line and
                                                                                  any(y[0] == 'idx' and y[1] == tgt.target[1] for y in walk_expr(x.value)) for x in walk_stmts(f.body))
                    ok = bool(saves and backs) or is_restore
                    ctx.check(ok, 'R-EFF', mod.path, q, 'mutates caller dict self.%s[%s]' % (tgt.target[1][2] if tgt.k == 'assign' else '?', key),
                              'self.%s aliases the options dictionary passed by the caller (no copy is taken in __init__); this store changes the caller\'s '
                              'dictionary, so later calls that share it see different options' % (tgt.target[1][2] if tgt.k == 'assign' else '?'), tgt.line)
    ctx.count('stores into caller-owned option dictionaries', sites)
    return sites
