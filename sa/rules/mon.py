"""R-MON: monotonicity / range calculus for similarity.distance_to_similarity and similarity.squash, reported-parameter
completeness and documented-formula agreement (C19)."""
import ast
import math
import random
import re

from ..cfront import AnalysisError
from ..ir import fmt, walk_stmts, walk_expr, dotted
from ..pyfront import conv_expr

INF = float('inf')


class Val:
    """Abstract value: monotonicity in the free variable (+1, -1, 0 const, None unknown) and interval [lo, hi]."""

    def __init__(self, mono, lo, hi):
        self.mono, self.lo, self.hi = mono, lo, hi

    def __repr__(self):
        return 'Val(%s,[%s,%s])' % ({1: 'inc', -1: 'dec', 0: 'const', None: '?'}[self.mono], self.lo, self.hi)


def _neg(m):
    return None if m is None else -m


def _comb(a, b):
    if a is None or b is None:
        return None
    if a == 0:
        return b
    if b == 0:
        return a
    return a if a == b else None


def absint(e, env):
    """env: name -> Val.  Sound monotonicity/interval calculus; unknown shapes give Val(None, -inf, inf)."""
    k = e[0]
    if k == 'num':
        return Val(0, e[1], e[1])
    if k == 'var':
        return env.get(e[1], Val(None, -INF, INF))
    if k == 'un' and e[1] == 'neg':
        a = absint(e[2], env)
        return Val(_neg(a.mono), -a.hi, -a.lo)
    if k == 'bin':
        op = e[1]
        a, b = absint(e[2], env), absint(e[3], env)
        if op == '+':
            return Val(_comb(a.mono, b.mono), a.lo + b.lo, a.hi + b.hi)
        if op == '-':
            return Val(_comb(a.mono, _neg(b.mono)), a.lo - b.hi, a.hi - b.lo)
        if op == '*':
            return _mul(a, b)
        if op == '/':
            return _mul(a, _recip(b))
        if op == '**':
            if b.mono == 0 and b.lo == b.hi and b.lo == 2:
                return _square(a)
            return Val(None, -INF, INF)
    if k == 'call':
        d = (dotted(e[1]) or '').split('.')[-1]
        if d == 'exp' and len(e[2]) == 1:
            a = absint(e[2][0], env)
            return Val(a.mono, _exp(a.lo), _exp(a.hi))
        if d == 'power' and len(e[2]) == 2:
            base, ex = e[2]
            if ex == ('num', 2):
                return _square(absint(base, env))
            b = absint(base, env)
            x = absint(ex, env)
            # base ** x for a constant base > 1: monotone like x
            if b.mono == 0 and b.lo > 1:
                return Val(x.mono, _pw(b.lo, x.lo), _pw(b.lo, x.hi))
            return Val(None, -INF, INF)
        if d in ('abs', 'fabs') and len(e[2]) == 1:
            a = absint(e[2][0], env)
            if a.lo >= 0:
                return a
            return Val(None, 0, max(abs(a.lo), abs(a.hi)))
    return Val(None, -INF, INF)


def _exp(x):
    if x == -INF:
        return 0.0
    if x == INF:
        return INF
    try:
        return math.exp(x)
    except OverflowError:
        return INF


def _pw(b, x):
    if x == -INF:
        return 0.0
    if x == INF:
        return INF
    try:
        return b ** x
    except OverflowError:
        return INF


def _square(a):
    if a.lo >= 0:
        return Val(a.mono, a.lo * a.lo, a.hi * a.hi if a.hi != INF else INF)
    if a.hi <= 0:
        return Val(_neg(a.mono), a.hi * a.hi, a.lo * a.lo if a.lo != -INF else INF)
    return Val(None if a.mono != 0 else 0, 0, INF)


def _recip(b):
    if b.lo > 0:
        return Val(_neg(b.mono), 1 / b.hi if b.hi != INF else 0.0, 1 / b.lo)
    if b.hi < 0:
        return Val(_neg(b.mono), 1 / b.hi, 1 / b.lo if b.lo != -INF else 0.0)
    return Val(None, -INF, INF)


def _mul(a, b):
    cands = []
    for x in (a.lo, a.hi):
        for y in (b.lo, b.hi):
            if (x in (INF, -INF) and y == 0) or (y in (INF, -INF) and x == 0):
                cands.append(0)
            else:
                cands.append(x * y)
    lo, hi = min(cands), max(cands)
    mono = None
    if a.mono == 0 and b.mono == 0:
        mono = 0
    elif a.mono == 0:
        mono = b.mono if a.lo >= 0 else (_neg(b.mono) if a.hi <= 0 else None)
    elif b.mono == 0:
        mono = a.mono if b.lo >= 0 else (_neg(a.mono) if b.hi <= 0 else None)
    elif a.lo >= 0 and b.lo >= 0:
        mono = _comb(a.mono, b.mono)
    return Val(mono, lo, hi)


def _chain(f, var):
    """Collect {const: (arm body)} for every `if var == const` arm in the function (any chain)."""
    arms = {}

    def walk(stmts):
        for s in stmts:
            if s.k == 'if':
                c = s.cond
                if c[0] == 'bin' and c[1] == '==' and c[2] == ('var', var) and c[3][0] == 'str':
                    arms[c[3][1]] = s.then
                walk(s.els)
    walk(f.body)
    return arms


def _assign_of(stmts, name):
    """Final unconditional-or-branch assignments to `name` inside an arm -> list of value exprs."""
    return [s.value for s in walk_stmts(stmts) if s.k == 'assign' and s.target == ('var', name)]


EPS = 1e-9


def rule_similarity(ctx, m):
    pm = m.py('dtaidistance.similarity')
    file = pm.path
    f = pm.funcs.get('distance_to_similarity')
    g = pm.funcs.get('squash')
    if f is None or g is None:
        raise AnalysisError('anchor vanished: similarity.distance_to_similarity / squash')
    # ------------------------------------------------------------------ distance_to_similarity
    arms = _chain(f, 'method')
    P = Val(0, EPS, INF)          # a positive parameter
    for name, body in sorted(arms.items()):
        vals = _assign_of(body, 'S')
        if len(vals) != 1:
            ctx.undecided('R-MON', 'distance_to_similarity[%s]' % name, 'no single S assignment')
            continue
        e = vals[0]
        env = {'D': Val(1, 0.0, INF), 'r': P, 'a': P}
        if name == 'reciprocal':
            env = {'D': Val(1, 0.0, INF), 'r': Val(0, 1.0, 1.0), 'a': P}      # default scale r = 1
        if name == 'reverse':
            # default r = min(D) + max(D) >= every D: analyse (r - D) / r with D in [0, r]; scale-free: take r = 1
            env = {'D': Val(1, 0.0, 1.0), 'r': Val(0, 1.0, 1.0), 'a': P}
        v = absint(e, env)
        inst = 'distance_to_similarity[%s] S = %s' % (name, fmt(e))
        if v.mono is None:
            ctx.undecided('R-MON', inst, 'monotonicity not decided by the calculus')
        else:
            ctx.check(v.mono in (-1, 0), 'R-MON', file, 'distance_to_similarity', 'monotone arm %s' % name,
                      'the %s transform S = %s is not non-increasing in the distance' % (name, fmt(e)), f.line, detail=repr(v))
        ok_rng = v.lo >= -1e-12 and v.hi <= 1 + 1e-12
        if v.lo == -INF or v.hi == INF:
            ctx.undecided('R-MON', inst + ' range', 'range not decided by the interval calculus: %r' % v)
        else:
            ctx.check(ok_rng, 'R-MON', file, 'distance_to_similarity', 'range arm %s' % name,
                      'for non-negative distances and the default scale the %s transform must stay in [0, 1]; the calculus gives [%s, %s]' % (name, v.lo, v.hi), f.line)
        # value at zero distance is the maximum of the range
        env0 = dict(env)
        env0['D'] = Val(0, 0.0, 0.0)
        if name == 'reciprocal':
            env0['r'] = Val(0, 1.0, 1.0)      # default r
        v0 = absint(e, env0)
        ctx.check(v0.lo == v0.hi and abs(v0.lo - 1.0) < 1e-12, 'R-MON', file, 'distance_to_similarity', 'zero distance arm %s' % name,
                  'a zero distance must map to the maximal similarity 1 (default scale); the calculus gives [%s, %s]' % (v0.lo, v0.hi), f.line)
        ctx.sample({'arm': name, 'S': fmt(e), 'abstract value': repr(v)})
    # reported-parameter completeness
    reported = _reported(f)
    derived = {}
    for name, body in arms.items():
        for s in walk_stmts(body):
            # default filling: `if p is None: p = ...` or `p = ... if p is None else p`
            fill = None
            if s.k == 'if' and s.cond[0] == 'bin' and s.cond[1] == 'is' and s.cond[3] == ('none',) and s.cond[2][0] == 'var':
                fill = (s.cond[2][1], [t.value for t in walk_stmts(s.then) if t.k == 'assign'])
            elif s.k == 'assign' and s.target[0] == 'var' and s.value[0] == 'cond' and s.value[1] == ('bin', 'is', s.target, ('none',)) and s.value[3] == s.target:
                fill = (s.target[1], [s.value[2]])
            if fill is not None:
                p = fill[0]
                if p in f.args and any(x[0] == 'call' for v_ in fill[1] for x in walk_expr(v_)):
                    used = any(('var', p) in list(walk_expr(v)) for v in _assign_of(body, 'S'))
                    if used:
                        derived.setdefault(p, []).append(name)
    for p, where in sorted(derived.items()):
        ctx.check(p in reported, 'R-MON', file, 'distance_to_similarity', 'reported parameter %s' % p,
                  'parameter `%s` receives a data-derived default in arm(s) %s and enters the formula, but return_params reports only %s: re-applying the '
                  'transform with the reported parameters does not reproduce the output' % (p, where, sorted(reported)), f.line)
    # documented formulas
    _doc_formulas(ctx, file, f, arms, 'S', {'D'})
    # ------------------------------------------------------------------ squash
    arms = _chain(g, 'method')
    for name, body in sorted(arms.items()):
        vals = _assign_of(body, 'result')
        for e in vals:
            based = any(x == ('var', 'base') for x in walk_expr(e))
            env = {'X': Val(1, 0.0, INF), 'r': P, 'x0': Val(0, 0.0, 0.0) if name in ('gaussian', 'exponential') else Val(0, -INF, INF),
                   'base': Val(0, 1.0 + EPS, INF)}
            if name == 'logistic':
                env['X'] = Val(1, -INF, INF)
            v = absint(e, env)
            inst = 'squash[%s%s] result = %s' % (name, ' base' if based else '', fmt(e))
            if v.mono is None:
                ctx.undecided('R-MON', inst, 'monotonicity not decided by the calculus')
            else:
                ctx.check(v.mono in (1, 0), 'R-MON', file, 'squash', 'monotone arm %s%s' % (name, ' base' if based else ''),
                          'the %s squashing function %s is not non-decreasing' % (name, fmt(e)), g.line, detail=repr(v))
            if v.lo == -INF or v.hi == INF:
                ctx.undecided('R-MON', inst + ' range', 'range not decided: %r' % v)
            else:
                ctx.check(v.lo >= -1e-12 and v.hi <= 1 + 1e-12, 'R-MON', file, 'squash', 'range arm %s%s' % (name, ' base' if based else ''),
                          'the squashing function must map into [0, 1]; the calculus gives [%s, %s]' % (v.lo, v.hi), g.line)
            ctx.sample({'arm': 'squash ' + name, 'result': fmt(e), 'abstract value': repr(v)})
    reported = _reported(g)
    ctx.check({'r', 'x0'} <= reported, 'R-MON', file, 'squash', 'reported parameters', 'squash derives r and x0 from the data; both must be reported', g.line)
    _doc_formulas(ctx, file, g, arms, 'result', {'X'})


def _reported(f, flag='return_params'):
    """Names returned next to the result on the paths on which the `return_params` flag is set."""
    from ..symexec import Exec, Env
    ex = Exec()
    ex.run(f.body, Env())
    out = set()
    def leaves(val, path):
        if val is not None and val[0] == 'cond':
            yield from leaves(val[2], path + (val[1],))
            yield from leaves(val[3], path + (('un', 'not', val[1]),))
        else:
            yield path, val
    for path0, _value, st in ex.returns:
        if st.k != 'return' or st.value is None:
            continue
        # the returned expression as written (names, not their values), with conditional expressions split into paths
        for path, val in leaves(st.value, tuple(path0)):
            if val is None or val[0] != 'tuple':
                continue
            if any(c == ('un', 'not', ('var', flag)) for c in path):
                continue
            out |= {x[1] for x in val[1] if x[0] == 'var'}
    return out


def _doc_formulas(ctx, file, f, arms, target, free):
    """Compare each documented bullet `- Name: formula` with the arm's assignment (numerically on the two expression trees)."""
    if not f.doc:
        return
    for mt in re.finditer(r'^\s*-\s+([A-Z][a-z]+):\s*(.+)$', f.doc, re.M):
        name, txt = mt.group(1).lower(), mt.group(2).strip()
        if name not in arms:
            continue
        src = txt.replace('^', '**')
        src = re.sub(r'\be\*\*', 'EXP**', src)
        depth = src.count('(') - src.count(')')
        if depth > 0:
            src = src + ')' * depth
        try:
            tree = ast.parse(src, mode='eval').body
        except SyntaxError:
            ctx.undecided('R-MON', '%s documented formula %s' % (f.name, name), 'cannot parse %r' % txt)
            continue
        doc_e = conv_expr(tree)
        code = [v for v in _assign_of(arms[name], target) if not any(x == ('var', 'base') for x in walk_expr(v))]
        if len(code) != 1:
            ctx.undecided('R-MON', '%s documented formula %s' % (f.name, name), 'no single assignment')
            continue
        rnd = random.Random(12345)
        diff = None
        for _ in range(40):
            val = {'D': rnd.uniform(0.1, 3), 'X': rnd.uniform(0.1, 3), 'r': rnd.uniform(0.5, 2.5), 'a': rnd.uniform(0.5, 2), 'x0': rnd.uniform(0.1, 1), 'EXP': math.e}
            if name in ('gaussian', 'exponential') and 'X' in free:
                val['x0'] = 0.0
            try:
                a, b = _ev(doc_e, val), _ev(code[0], val)
            except Exception as ex:       # noqa
                diff = ('error', str(ex))
                break
            if abs(a - b) > 1e-9 * max(1, abs(a), abs(b)):
                diff = (dict((k, round(v, 3)) for k, v in val.items() if k != 'EXP'), a, b)
                break
        ctx.check(diff is None, 'R-MON', file, f.name, 'documented formula %s' % name,
                  'the docstring documents `%s: %s` but the code computes %s: at %s the two give %s' % (name.capitalize(), txt, fmt(code[0]), diff[0] if diff else '', diff[1:] if diff else ''), f.line)


def _ev(e, val):
    k = e[0]
    if k == 'num':
        return float(e[1])
    if k == 'var':
        return val[e[1]]
    if k == 'un' and e[1] == 'neg':
        return -_ev(e[2], val)
    if k == 'bin':
        a, b = _ev(e[2], val), _ev(e[3], val)
        op = e[1]
        if op == '+':
            return a + b
        if op == '-':
            return a - b
        if op == '*':
            return a * b
        if op == '/':
            return a / b
        if op == '**':
            return a ** b
        raise ValueError('operator %s' % op)
    if k == 'call':
        d = (dotted(e[1]) or '').split('.')[-1]
        args = [_ev(a, val) for a in e[2]]
        if d == 'exp':
            return math.exp(args[0])
        if d == 'power':
            return args[0] ** args[1]
        if d == 'sqrt':
            return math.sqrt(args[0])
    raise ValueError('cannot evaluate %s' % fmt(e))


# ------------------------------------------------------------------------------------------ closed-form identities (sympy)
_SP = []


def _sympy():
    """sympy is imported in place from the offline wheelhouse (pure wheels, zipimport); used only to normalise closed-form expressions."""
    if not _SP:
        import sys
        import glob
        try:
            import sympy  # noqa
        except ImportError:
            for pat in ('mpmath-*.whl', 'sympy-*.whl'):
                hits = sorted(glob.glob('/opt/veriftools/wheels/' + pat))
                if not hits:
                    raise AnalysisError('sympy / mpmath wheel not found in /opt/veriftools/wheels')
                sys.path.insert(0, hits[-1])
            import sympy  # noqa
        _SP.append(sympy)
    return _SP[0]


def to_sympy(e, sym):
    """IR expression -> sympy expression; sym maps variable names (and the text of opaque sub-expressions) to symbols."""
    sp = _sympy()
    k = e[0]
    if k == 'num':
        return sp.nsimplify(e[1]) if isinstance(e[1], float) else sp.Integer(e[1])
    if k == 'var':
        if e[1] not in sym:
            raise ValueError('free variable %s' % e[1])
        return sym[e[1]]
    if k == 'un' and e[1] == 'neg':
        return -to_sympy(e[2], sym)
    if k == 'bin' and e[1] in ('+', '-', '*', '/', '**'):
        a, b = to_sympy(e[2], sym), to_sympy(e[3], sym)
        return {'+': a + b, '-': a - b, '*': a * b, '/': a / b, '**': a ** b}[e[1]]
    if k == 'call':
        txt = fmt(e)
        if txt in sym:
            return sym[txt]
        d = (dotted(e[1]) or '').split('.')[-1]
        args = [to_sympy(a, sym) for a in e[2]]
        if d == 'exp' and len(args) == 1:
            return sp.exp(args[0])
        if d == 'log' and len(args) == 1:
            return sp.log(args[0])
        if d == 'sqrt' and len(args) == 1:
            return sp.sqrt(args[0])
        if d == 'power' and len(args) == 2:
            return args[0] ** args[1]
    raise ValueError('cannot convert %s' % fmt(e))


def _subst_var(e, name, repl):
    if e == ('var', name):
        return repl
    if isinstance(e, tuple):
        return tuple(_subst_var(x, name, repl) if isinstance(x, (tuple, list)) else x for x in e)
    if isinstance(e, list):
        return [_subst_var(x, name, repl) if isinstance(x, (tuple, list)) else x for x in e]
    return e


def _residual(expr):
    """-> (is_zero, simplified residual, sample) ; a non-zero verdict always carries a numeric sample point."""
    sp = _sympy()
    r = sp.simplify(expr)
    if r == 0:
        return True, r, None
    free = sorted(r.free_symbols, key=lambda x: x.name)
    pts = [{x: sp.Rational(3 + 2 * i, 7 + i) for i, x in enumerate(free)}, {x: sp.Rational(5 + i, 11 + 3 * i) for i, x in enumerate(free)}]
    for pt in pts:
        try:
            v = complex(sp.N(r.subs(pt)))
        except Exception:  # noqa
            continue
        if abs(v) > 1e-9:
            return False, r, {str(k_): str(v_) for k_, v_ in pt.items()}
    return None, r, None


def _blocks_with(stmts, names):
    """Yield statement lists (blocks) that directly contain assignments to all the given names."""
    def walk(block):
        got = {}
        for s in block:
            if s.k == 'assign' and s.target[0] == 'var' and s.target[1] in names:
                got[s.target[1]] = s
        if len(got) == len(names):
            yield got
        for s in block:
            if s.k == 'if':
                yield from walk(s.then)
                yield from walk(s.els)
    yield from walk(stmts)


def _split_conds(a, b):
    """Pairs (a', b') with the conditional expressions of a and b resolved consistently (both take the same branch of the same test)."""
    c = next((x for e in (a, b) for x in walk_expr(e) if x[0] == 'cond'), None)
    if c is None:
        return [(a, b)]

    def pick(e, branch):
        if not isinstance(e, tuple):
            return e
        if len(e) == 4 and e[0] == 'cond' and e[1] == c[1]:
            return pick(e[2 if branch else 3], branch)
        return tuple(pick(x, branch) for x in e)
    return _split_conds(pick(a, True), pick(b, True)) + _split_conds(pick(a, False), pick(b, False))


def rule_squash_zero_offset(ctx, m):
    """keep_sign subtracts Xz, the value of the same squashing function at 0: in every branch Xz must be `result` with X := 0."""
    sp = _sympy()
    pm = m.py('dtaidistance.similarity')
    g = pm.funcs.get('squash')
    if g is None:
        raise AnalysisError('anchor vanished: similarity.squash')
    symtab = {'r': sp.Symbol('r', positive=True), 'x0': sp.Symbol('x0', real=True), 'base': sp.Symbol('base', positive=True), 'X': sp.Symbol('X', real=True)}
    n = 0
    for name, body in sorted(_chain(g, 'method').items()):
        for got, res, xz in [(g_, r_, x_) for g_ in _blocks_with(body, ('result', 'Xz')) for r_, x_ in _split_conds(g_['result'].value, g_['Xz'].value)]:
            n += 1
            based = any(x == ('var', 'base') for x in walk_expr(res))
            inst = 'squash[%s%s] Xz = result at X = 0' % (name, ' base' if based else '')
            try:
                diff = to_sympy(xz, symtab) - to_sympy(_subst_var(res, 'X', ('num', 0)), symtab)
            except ValueError as ex:
                ctx.undecided('R-DUAL', inst, str(ex))
                continue
            z, r, pt = _residual(diff)
            if z:
                ctx.held('R-DUAL', inst, 'sympy: residual simplifies to 0')
            elif z is None:
                ctx.undecided('R-DUAL', inst, 'residual %s not decided' % r)
            else:
                ctx.violation('R-DUAL', pm.path, 'squash', 'zero offset %s%s' % (name, ' base' if based else ''),
                              'with keep_sign the output is sign(X) * (f(|X|) - Xz); Xz = %s is not f(0) for f = %s (difference %s, non-zero e.g. at %s): small inputs '
                              'change sign / the function is no longer the documented one' % (fmt(xz), fmt(res), r, pt), got['Xz'].line, facts={'witness': pt})
    ctx.check(n >= 6, 'R-DUAL', pm.path, 'squash', 'zero-offset pairs', 'expected a (result, Xz) pair in each of the 3 methods x (e, base) branches; found %d' % n, g.line)


def rule_cover_quantile(ctx, m):
    """A scale derived from cover_quantile=(q, target) must make the transform take the value `target` at the q-quantile of the data."""
    sp = _sympy()
    pm = m.py('dtaidistance.similarity')
    t = sp.Symbol('t', positive=True)
    Q = sp.Symbol('Q', positive=True)
    n = 0
    for fname, out, data in (('distance_to_similarity', 'S', 'D'), ('squash', 'result', 'X')):
        f = pm.funcs.get(fname)
        if f is None:
            raise AnalysisError('anchor vanished: similarity.%s' % fname)
        qtxt = 'np.quantile(%s, cover_quantile)' % data
        for name, body in sorted(_chain(f, 'method').items()):
            # parameters solved from the quantile: `if cover_quantile is False: p = default  else: p = SOLVE`
            solved = {}
            pre = {}
            for s in body:
                if s.k == 'assign' and s.target[0] == 'var' and s.value[0] == 'num':
                    pre[s.target[1]] = s.value            # e.g. x0 = 0 (not supported for this method)
            for s in walk_stmts(body):
                if s.k == 'if' and fmt(s.cond).replace('(', '').replace(')', '') == 'cover_quantile is False' and len(s.els) == 1 and s.els[0].k == 'assign':
                    solved[s.els[0].target[1]] = s.els[0]
            if not solved:
                continue
            for e_stmt in [s for s in walk_stmts(body) if s.k == 'assign' and s.target == ('var', out)]:
                e = e_stmt.value
                based = any(x == ('var', 'base') for x in walk_expr(e))
                symtab = {'r': sp.Symbol('r', positive=True), 'a': sp.Symbol('a', positive=True), 'x0': sp.Symbol('x0', real=True),
                          'base': sp.Symbol('base', positive=True), 'cover_quantile_target': t, qtxt: Q, data: Q}
                for k_, v_ in pre.items():
                    symtab[k_] = to_sympy(v_, symtab)
                try:
                    for p, st in solved.items():
                        symtab[p] = to_sympy(st.value, symtab)
                    val = to_sympy(e, symtab)
                except ValueError as ex:
                    ctx.undecided('R-MON', '%s[%s] cover_quantile' % (fname, name), str(ex))
                    continue
                n += 1
                inst = '%s[%s%s] value at the covered quantile == target' % (fname, name, ' base' if based else '')
                z, r, pt = _residual(val - t)
                if z:
                    ctx.note('%s: sympy proves the quantile-derived scale reaches the target' % inst)
                elif z is None:
                    ctx.note('%s: not decided (residual %s)' % (inst, r))
                else:
                    # C19 as stated does not promise that the target is reached (only monotonicity, range, explicit-parameter formulas and
                    # reproducibility), so a miss is reported for the reader, never as a violation of the property
                    ctx.note('%s[%s%s]: with cover_quantile=(q, target) the derived %s does not make %s equal `target` at the q-quantile (target + (%s)); '
                             'outside the statement of C19' % (fname, name, ' base' if based else '', '/'.join(sorted(solved)), fmt(e), r))
    ctx.count('cover_quantile derivations examined (informational)', n)


def rule_squash_derived_sign(ctx, m):
    """squash is non-decreasing only for a positive slope r.  The slope derived from cover_quantile=(q, target) is a closed-form expression of the q-quantile
    xq, the midpoint x0 and the target t; under a consistent calibration (the quantile lies on the side of the midpoint that the target lies on of the
    transform's midpoint value: above/above or below/below) it must be positive.  The extracted expression is evaluated on a grid of such calibrations
    (sign analysis of a closed form, 2 x 12 points); a non-positive value is a violation with the point as witness."""
    from ..symexec import Exec, Env
    pm = m.py('dtaidistance.similarity')
    f = pm.funcs.get('squash')
    if f is None:
        raise AnalysisError('anchor vanished: similarity.squash')

    def ev(e, val):
        k = e[0]
        if k == 'cond':
            return ev(e[2], val) if ev(e[1], val) else ev(e[3], val)
        if k in ('bool',):
            return e[1]
        if k == 'none':
            return None
        if k == 'un' and e[1] == 'not':
            return not ev(e[2], val)
        if k == 'bin' and e[1] in ('is', 'isnot', '==', '!='):
            a, b = ev(e[2], val), ev(e[3], val)
            same_ = (a is b) or (type(a) is type(b) and a == b)
            return same_ if e[1] in ('is', '==') else not same_
        if k == 'call':
            d = (dotted(e[1]) or '').split('.')[-1]
            if d == 'quantile':
                return val['XQ']
            if d == 'mean':
                return val['M']
            if d == 'log' and len(e[2]) == 1:
                return math.log(ev(e[2][0], val))
        if k == 'bin':
            a, b = ev(e[2], val), ev(e[3], val)
            return {'+': lambda: a + b, '-': lambda: a - b, '*': lambda: a * b, '/': lambda: a / b, '**': lambda: a ** b}[e[1]]()
        if k == 'un' and e[1] == 'neg':
            return -ev(e[2], val)
        return _ev(e, val)
    n = 0
    for name, body in sorted(_chain(f, 'method').items()):
        if name == 'gaussian':
            continue                    # only r**2 enters the transform
        ex = Exec()
        env = ex.run(body, Env({'r': ('none',), 'base': ('none',), 'x0': ('none',) if name == 'logistic' else ('var', 'x0')}))
        rexp = (env or {}).get('r')
        if rexp is None or not any(x[0] == 'call' and (dotted(x[1]) or '').endswith('quantile') for x in walk_expr(rexp)):
            ctx.undecided('R-MON', 'squash[%s] derived slope' % name, 'no quantile-derived slope found')
            continue
        n += 1
        # midpoint value of the transform: logistic 1/2 at x0; exponential 0 at x0 (every quantile above x0 = 0 maps above it)
        pts = []
        for i in range(12):
            d_ = 0.25 + 0.5 * i
            tt = 0.55 + 0.035 * i
            if name == 'logistic':
                pts.append({'XQ': 3.0 + d_, 'M': 3.0, 't': tt})
                pts.append({'XQ': 3.0 - d_ / 3, 'M': 3.0, 't': 1 - tt})
            else:
                pts.append({'XQ': d_, 'M': 0.0, 't': tt})
                pts.append({'XQ': d_, 'M': 0.0, 't': 1 - tt})
        bad = None
        err = None
        for pt in pts:
            val = {'cover_quantile': pt['t'], 'cover_quantile_target': pt['t'], 'XQ': pt['XQ'], 'M': pt['M'], 'x0': 0.0, 'X': pt['XQ']}
            try:
                rv = ev(rexp, val)
            except Exception as exn:  # noqa
                err = str(exn)
                break
            if not (isinstance(rv, float) and rv > 0):
                bad = (pt, rv)
                break
        inst = 'squash[%s] quantile-derived slope positive' % name
        if err is not None:
            ctx.undecided('R-MON', inst, 'cannot evaluate %s: %s' % (fmt(rexp)[:100], err))
        elif bad is None:
            ctx.held('R-MON', inst, 'r > 0 on %d consistent calibrations' % len(pts))
        else:
            ctx.violation('R-MON', pm.path, 'squash', 'derived slope %s' % name,
                          'with cover_quantile the slope is r = %s; for a q-quantile of %s, midpoint %s and target %s it evaluates to %s, not positive: the %s squashing is then '
                          'DEcreasing in X' % (fmt(rexp)[:160], bad[0]['XQ'], bad[0]['M'], bad[0]['t'], bad[1], name), f.line, facts={'witness': bad[0]})
    ctx.count('quantile-derived slopes examined', n)
    if n == 0:
        raise AnalysisError('unrecognised shape: squash derives no slope from cover_quantile')


def rule_squash_sign_epilogue(ctx, m):
    """squash(keep_sign=True): the value is computed on |X|, then shifted so that zero maps to zero and given back its sign -- result = Xs * (f(|X|) - Xz).
    Decided on the polynomial normal form of the returned expression over (f, Xs, Xz): Xs*f - Xs*Xz (an epilogue that computes Xs*f - Xz leaves -Xz at the
    zeros of the input, outside [0, 1])."""
    from ..symexec import Exec, Env
    from ..canon import poly_norm
    pm = m.py('dtaidistance.similarity')
    f = pm.funcs.get('squash')
    if f is None:
        raise AnalysisError('anchor vanished: similarity.squash')
    tail = None
    for k_ in range(len(f.body) - 1, -1, -1):
        st = f.body[k_]
        if st.k == 'if' and any(x == ('var', 'keep_sign') for x in walk_expr(st.cond)) and \
                any(t.k == 'assign' and t.target == ('var', 'result') for t in walk_stmts([st])):
            tail = f.body[k_:]
            break
    if tail is None:
        ctx.undecided('R-MON', 'squash keep_sign epilogue', 'no `if keep_sign: result = ..` at the end of squash')
        return
    ex = Exec()
    ex.run(tail, Env({'keep_sign': ('bool', True), 'result': ('var', 'F'), 'Xs': ('var', 'XS'), 'Xz': ('var', 'XZ')}))
    vals = []
    for path, val, st in ex.returns:
        if val is None:
            continue
        v = val[1][0] if val[0] == 'tuple' and val[1] else val
        vals.append((v, st))
    want = poly_norm(('bin', '*', ('var', 'XS'), ('bin', '-', ('var', 'F'), ('var', 'XZ'))))
    if not vals:
        ctx.undecided('R-MON', 'squash keep_sign epilogue', 'no return after the epilogue')
        return
    for v, st in vals:
        try:
            got = poly_norm(v)
        except Exception:  # noqa
            got = None
        ctx.check(got == want, 'R-MON', pm.path, 'squash', 'keep_sign epilogue',
                  'with keep_sign the returned value must be Xs * (f(|X|) - Xz); the code returns %s: at the zeros of the input (Xs = 0) that is %s instead of 0'
                  % (fmt(v)[:120], '-Xz' if got is not None else '?'), st.line)


def rule_default_scale(ctx, m):
    """The range / monotonicity verdicts of rule_similarity assume a data-derived default scale r with r >= max(D) (reverse) resp. r > 0
    (exponential, gaussian).  Here the default expressions themselves are checked, as linear terms over MIN = min(D) >= 0 and MAX = max(D) >= MIN."""
    from .. import sym
    pm = m.py('dtaidistance.similarity')
    f = pm.funcs.get('distance_to_similarity')
    if f is None:
        raise AnalysisError('anchor vanished: similarity.distance_to_similarity')
    V, C = sym.var, sym.const
    dom = [V('MIN'), sym.sub(V('MAX'), V('MIN')), sym.sub(V('MAX'), C(1))]
    n = 0
    for name, body in sorted(_chain(f, 'method').items()):
        defaults = []
        for s_ in walk_stmts(body):
            if s_.k == 'if' and fmt(s_.cond).replace('(', '').replace(')', '') == 'r is None':
                # the branch without cover_quantile (directly, or the `cover_quantile is False` arm)
                for t in s_.then:
                    if t.k == 'assign' and t.target == ('var', 'r'):
                        defaults.append(t)
                    if t.k == 'if' and fmt(t.cond).replace('(', '').replace(')', '') == 'cover_quantile is False':
                        defaults += [u for u in t.then if u.k == 'assign' and u.target == ('var', 'r')]
        for d in defaults:
            def atom(x):
                if x[0] == 'call' and len(x[2]) == 1 and x[2][0] == ('var', 'D'):
                    return {'max': 'MAX', 'amax': 'MAX', 'min': 'MIN', 'amin': 'MIN'}.get((dotted(x[1]) or '').split('.')[-1])
                return None
            try:
                t = sym.from_ir(d.value, atom=atom)
            except Exception:  # noqa
                t = None
            n += 1
            inst = 'distance_to_similarity[%s] default r = %s' % (name, fmt(d.value))
            if t is None or not (sym.atoms(t) <= {'MIN', 'MAX'}):
                ctx.undecided('R-MON', inst, 'default scale is not a linear expression of min(D), max(D)')
                continue
            need = sym.sub(t, V('MAX')) if name == 'reverse' else sym.sub(t, C(1))
            r = sym.equivalent(sym.tmin(need, C(0)), C(0), dom, box={'MIN': range(0, 5), 'MAX': range(1, 6)})
            if r[0] == 'equal':
                ctx.held('R-MON', inst, 'r >= max(D)' if name == 'reverse' else 'r > 0')
            elif r[0] == 'differ':
                w = dict(r[1])
                w.setdefault('MIN', 0)
                w.setdefault('MAX', max(1, w['MIN']))
                ctx.violation('R-MON', pm.path, 'distance_to_similarity', 'default scale %s' % name,
                              'the default scale of the %s transform is r = %s; for distances with min %s and max %s it is %s, %s' %
                              (name, fmt(d.value), w.get('MIN'), w.get('MAX'), sym.evaluate(t, w),
                               'smaller than the largest distance: (r - D) / r becomes negative, outside [0, 1]' if name == 'reverse' else 'not positive: the transform is no longer non-increasing in the distance'),
                              d.line, facts={'witness': w})
            else:
                ctx.undecided('R-MON', inst, r[1])
    ctx.count('default scales checked', n)
