"""R-FWD: option forwarding in delegating wrappers, use_ndim plumbing, penalty to best_path, settings key tables."""
from ..ir import fmt, dotted, walk_stmts, walk_expr, stmt_exprs
from ..model import calls_in
from ..pyres import resolve_call, bind_args


def settings_dict_keys(m, method):
    """Keys of the dict literal returned by dtw.DTWSettings.<method>."""
    f = m.py('dtaidistance.dtw').funcs.get('DTWSettings.' + method)
    if f is None:
        return None
    for s in walk_stmts(f.body):
        if s.k == 'return' and s.value is not None and s.value[0] == 'dict':
            return [(k[1] if k is not None and k[0] == 'str' else None, v) for k, v in s.value[1]]
    return None


def _names_in(e):
    out = set()
    for sub in walk_expr(e):
        if sub[0] == 'var':
            out.add(sub[1])
    return out


def _dstar_keys(m, e, func=None, stmt=None):
    """Keys contributed by a `**expr` argument, or None when unknown (open set).  A local dictionary (`d = s.c_kwargs()` ... `d['k'] = v` ... `f(**d)`)
    contributes the keys of its single definition plus the keys stored by statements that are executed on every path to the call (same block or an
    enclosing block, earlier)."""
    if e[0] == 'var' and func is not None and stmt is not None and e[1] not in func.all_params:
        defs = [t for t in walk_stmts(func.body) if t.k == 'assign' and t.target == e]
        if len(defs) != 1:
            return None
        base = _dstar_keys(m, defs[0].value)
        if base is None:
            return None
        # block path of the call statement
        path = []

        def find(stmts, acc):
            for i_, t in enumerate(stmts):
                if t is stmt:
                    path.extend(acc + [(stmts, i_)])
                    return True
                from ..ir import sub_blocks
                for b in sub_blocks(t):
                    if find(b, acc + [(stmts, i_)]):
                        return True
            return False
        find(func.body, [])
        keys = set(base)
        for blk, idx in path:
            for t in blk[:idx]:
                if t.k == 'assign' and t.target[0] == 'idx' and t.target[1] == e and t.target[2][0] == 'str':
                    keys.add(t.target[2][1])
        return keys
    if e[0] == 'call':
        d = dotted(e[1])
        if d and d.split('.')[-1] in ('kwargs', 'c_kwargs') and len(d.split('.')) >= 2:
            ks = settings_dict_keys(m, d.split('.')[-1])
            if ks is not None:
                return {k for k, v in ks if k}
    if e[0] == 'dict':
        return {k[1] for k, v in e[1] if k is not None and k[0] == 'str'}
    return None


def _delegations(func):
    """Yield (stmt, call) for delegating calls of a function: `return K(...)`, or `v = K(...)` whose v is later returned unchanged."""
    returned = {s.value[1] for s in walk_stmts(func.body) if s.k == 'return' and s.value is not None and s.value[0] == 'var'}
    for s in walk_stmts(func.body):
        if s.k == 'return' and s.value is not None and s.value[0] == 'call':
            yield s, s.value
        elif s.k == 'assign' and s.target[0] == 'var' and s.target[1] in returned and s.value[0] == 'call' \
                and s.target[1] not in func.args + func.kwonly:   # `if p is None: p = K(...)` fills a default, it does not delegate
            others = [t for t in walk_stmts(func.body) if t.k == 'assign' and t.target == s.target and t is not s and t.value[0] != 'call']
            if not others:
                yield s, s.value


class _PyxTarget:
    """Adapter presenting a PyxFunc like a PyFunc for bind_args."""

    def __init__(self, f):
        self.qual = f.qual
        self.args = [a.name for a in f.args]
        self.kwonly = []
        self.kwarg = f.kwarg
        self.vararg = f.vararg


def _resolve_any(m, mod, f, call):
    r = resolve_call(m, mod, f, call)
    if r is not None:
        return r
    d = dotted(call[1]) or ''
    parts = d.split('.')
    from .sig import PYX_LOCALS
    if len(parts) == 2 and parts[0] in PYX_LOCALS:
        pyx = m.pyx(PYX_LOCALS[parts[0]])
        t = pyx.funcs.get(parts[1])
        if t is not None:
            return pyx, _PyxTarget(t), False
    return None


# wrapping calls that deliberately leave a shared parameter to the callee's default -- (caller, callee, parameter): reason
NOT_FORWARDED = {
    ('DTWSettings.__init__', 'inner_dist_fns', 'use_ndim'): 'only the third member (inner_val, the scalar transform of the settings) is used; it does not depend on use_ndim',
    ('dba_loop', 'dba', 'nb_initial_samples'): 'c is not None at these calls (set by get_good_c above), so dba never samples an initial average',
    ('SubsequenceAlignment.__init__', 'DTWSettings.__init__', 'use_c'): 'use_c is stored on the object and selects the engine in align(); the settings object is engine-independent',
}


def rule_delegation(ctx, m, modules, floor=None):
    """(1) at every `return K(...)` whose K resolves inside the package: each wrapper parameter that is also an
    explicit parameter of K reaches K (or is overridden by a constant)."""
    n = 0
    for mname in modules:
        mod = m.py(mname)
        attrs_of = {}
        for cname in mod.classes:
            init = mod.funcs.get(cname + '.__init__')
            if init is not None:
                attrs_of[cname] = {s.target[2] for s in walk_stmts(init.body) if s.k == 'assign' and s.target[0] == 'attr' and s.target[1] == ('var', 'self')}
        for q, f in sorted(mod.funcs.items()):
            wparams = [p for p in f.args + f.kwonly if p not in ('self', 'cls')]
            if not wparams and not f.kwarg and not f.cls:
                continue
            # (1d) inside a method, an in-package callee's parameter that is also an attribute the class sets in __init__ (a setting of the object)
            # is bound at the call: otherwise the callee falls back to its default while the object carries another value
            if f.cls and f.cls in attrs_of:
                for s, call in calls_in(f.body):
                    r = _resolve_any(m, mod, f, call)
                    if r is None or r[1].qual.split('.')[0] == f.cls:
                        continue
                    tmod, target, bound = r
                    tparams = list(target.args + target.kwonly)
                    if bound and tparams:
                        tparams = tparams[1:]
                    shared = [p for p in tparams if p in attrs_of[f.cls] and (q, target.qual, p) not in NOT_FORWARDED]
                    if not shared:
                        continue
                    mapping, has_star, dstars = bind_args(target, bound, call)
                    if has_star or dstars:
                        continue
                    n += 1
                    miss = [p for p in shared if p not in mapping]
                    ctx.check(not miss, 'R-FWD', mod.path, q, 'object settings to %s' % dotted(call[1]),
                              '%s carries the setting(s) %s as attributes, and %s takes parameter(s) of the same name, but the call does not pass them: the callee uses its '
                              'default instead of the object\'s value' % (f.cls, miss, target.qual), s.line)
            # (1e) a keyword argument named like one wrapper parameter but fed from another one (k=p with k != p, both parameters of the wrapper)
            # crosses two options; this also covers callees that take the options as **kwargs
            allp = set(f.args + f.kwonly)
            for s, call in calls_in(f.body):
                # keywords written at the call, and the entries of a dictionary literal handed over as **d (d a local with that one definition)
                kws = [(k, v) for k, v in call[3] if k is not None]
                for k, v in call[3]:
                    if k is None and v[0] == 'dict':
                        kws += [(k2[1], v2) for k2, v2 in v[1] if k2 is not None and k2[0] == 'str']
                    if k is None and v[0] == 'var' and v[1] not in allp:
                        defs_ = [t for t in walk_stmts(f.body) if t.k == 'assign' and t.target == v]
                        if len(defs_) == 1 and defs_[0].value[0] == 'dict':
                            kws += [(k2[1], v2) for k2, v2 in defs_[0].value[1] if k2 is not None and k2[0] == 'str']
                if not any(k in allp for k, _ in kws):
                    continue
                crossed = [(k, v[1]) for k, v in kws if v[0] == 'var' and v[1] != k and v[1] in allp and k in allp]
                n += 1
                ctx.check(not crossed, 'R-FWD', mod.path, q, 'crossed keywords at %s' % dotted(call[1]),
                          'the call passes %s: the option named %s receives the value the caller gave for %s' %
                          (', '.join('%s=%s' % kv for kv in crossed), crossed[0][0] if crossed else '', crossed[0][1] if crossed else ''), s.line)
            deleg = list(_delegations(f))
            dids = {id(c) for _, c in deleg}
            # (1c) a function that receives its options as **kwargs passes a ** mapping (or an explicit selection of keywords) to every
            # in-package callee that takes its options as **kwargs; otherwise that callee silently runs with default settings
            if f.kwarg:
                for s, call in calls_in(f.body):
                    r = _resolve_any(m, mod, f, call)
                    if r is None or r[1] is f or not r[1].kwarg:
                        continue
                    has_d = any(k is None for k, _ in call[3])
                    # an explicit selection of options (e.g. window=s.window, ...) counts; constant keywords (use_ndim=True) do not carry the caller's options
                    has_kw = any(k is not None and v[0] not in ('bool', 'num', 'str', 'none') for k, v in call[3])
                    n += 1
                    ctx.check(has_d or has_kw, 'R-FWD', mod.path, q, 'options to %s' % dotted(call[1]),
                              '%s receives its options as **%s, but calls %s without any ** mapping or keyword: the callee runs with default settings '
                              '(window, penalty, psi, ... are dropped)' % (q, f.kwarg, r[1].qual), s.line)
            # (1f) alternative delegates of one family (K and K_ndim, chosen by a branch) that collect their options as **kwargs receive the same
            # named wrapper options: an option handed to one of them (as k=p, or as a key of the ** dictionary) and not to its sibling is dropped on that branch
            fam = {}
            for s_, call in deleg:
                r = _resolve_any(m, mod, f, call)
                if r is None or not r[1].kwarg:
                    continue
                given = {k for k, v in call[3] if k is not None and k in wparams}
                known = True
                for k, v in call[3]:
                    if k is None:
                        ks = _dstar_keys(m, v, f, s_)
                        if ks is None and v != ('var', f.kwarg):
                            known = False
                        given |= {x for x in (ks or ()) if x in wparams}
                if known:
                    base_name = (dotted(call[1]) or '').replace('_ndim', '')
                    fam.setdefault(base_name, []).append((s_, call, given))
            for base_name, members in fam.items():
                if len(members) < 2:
                    continue
                allg = set().union(*[g for _s, _c, g in members])
                # a parameter the function itself tests to choose between the siblings (`if ndim == 1`) is fixed by the branch, not dropped on it
                tested = {x[1] for t_ in walk_stmts(f.body) if t_.k == 'if' for x in walk_expr(t_.cond) if x[0] == 'var'}
                for s_, call, given in members:
                    n += 1
                    miss = sorted(allg - given - tested)
                    ctx.check(not miss, 'R-FWD', mod.path, q, 'sibling delegate %s options' % dotted(call[1]),
                              'the option(s) %s of %s reach %s but not %s: on that branch the callee runs with its default'
                              % (miss, q, sorted(dotted(c_[1]) for _s, c_, g_ in members if set(miss) <= g_), dotted(call[1])), s_.line)
            # (1b) any other in-package call that shares two or more parameter names with its caller is a wrapping call as well
            inner = [(s, c) for s, c in calls_in(f.body) if id(c) not in dids]
            for s, call in deleg + inner:
                r = _resolve_any(m, mod, f, call)
                if r is None:
                    continue
                tmod, target, bound = r
                if target is f:
                    continue
                tparams = [p for p in target.args + target.kwonly]
                if bound and tparams:
                    tparams = tparams[1:]
                common = [p for p in wparams if p in tparams]
                if not common or (id(call) not in dids and len(common) < 2):
                    continue
                common = [p for p in common if (q, target.qual, p) not in NOT_FORWARDED]
                mapping, has_star, dstars = bind_args(target, bound, call)
                open_dstar = False
                dkeys = set()
                for de in dstars:
                    ks = _dstar_keys(m, de, f, s)
                    if ks is None:
                        if de == ('var', f.kwarg):
                            continue   # wrapper's own **kwargs: cannot contain a named wrapper parameter
                        open_dstar = True
                    else:
                        dkeys |= ks
                n += 1
                inst = '%s:%s -> %s' % (mname.split('.')[-1], q, dotted(call[1]))
                dropped = []
                swapped = []
                for p in common:
                    if p in mapping:
                        a = mapping[p]
                        if a[0] == 'var' and a[1] != p and a[1] in common and mapping.get(a[1]) != a:
                            # p receives another forwarded wrapper parameter, which itself is not forwarded to its own slot
                            if mapping.get(a[1], ('var', a[1])) != ('var', a[1]) or a[1] not in mapping:
                                swapped.append((p, a[1]))
                        continue
                    if p in dkeys:
                        continue
                    if has_star and p in f.args:
                        continue
                    if open_dstar:
                        continue
                    dropped.append(p)
                if not dropped and not swapped:
                    ctx.held('R-FWD', inst)
                for p in dropped:
                    ctx.violation('R-FWD', mod.path, q, 'delegation %s drops %s' % (dotted(call[1]), p),
                                  'parameter `%s` of %s is a parameter of %s but is not forwarded at the delegating call: the callee uses its default'
                                  % (p, q, target.qual), line=s.line)
                for p, a in swapped:
                    ctx.violation('R-FWD', mod.path, q, 'delegation %s passes %s as %s' % (dotted(call[1]), a, p),
                                  'parameter `%s` of %s receives wrapper parameter `%s`' % (p, target.qual, a), line=s.line)
    ctx.count('delegating calls', n)
    return n


def rule_unused_params(ctx, m, funcs):
    """(2) pure delegating wrappers: every parameter is read in the body or overridden by a constant at the call.
    funcs: list of (module name, qual)."""
    n = 0
    for mname, q in funcs:
        mod = m.py(mname)
        f = mod.funcs.get(q)
        if f is None:
            from ..cfront import AnalysisError
            raise AnalysisError('anchor vanished: %s.%s' % (mname, q))
        used = set()
        consts = set()
        for s in walk_stmts(f.body):
            for e in stmt_exprs(s):
                used |= _names_in(e)
                for sub in walk_expr(e):
                    if sub[0] == 'call':
                        for k, v in sub[3]:
                            if k is not None and v[0] in ('num', 'bool', 'none', 'str'):
                                consts.add(k)
        for p in f.args + f.kwonly:
            if p in ('self', 'cls'):
                continue
            n += 1
            ok = p in used or p in consts
            ctx.check(ok, 'R-FWD', mod.path, q, 'parameter %s unused' % p,
                      'parameter `%s` of the delegating wrapper %s is never read: the option is silently dropped' % (p, q), line=f.line)
    return n


NDIM_SINKS = {('dtaidistance.innerdistance', 'inner_dist_fns'), ('dtaidistance.innerdistance', 'inner_dist_cls'),
              ('dtaidistance.ed', 'distance')}


def rule_use_ndim(ctx, m, modules):
    """(n) in an ndim-aware context every call that selects a point-distance/result function (or computes the
    Euclidean bound) receives use_ndim -- transitively through wrappers that lack the parameter."""
    # 1. find ndim-blind wrappers: functions without any use_ndim in scope that call a sink
    blind = {}
    for mname in modules:
        mod = m.py(mname)
        for q, f in mod.funcs.items():
            if _ndim_aware(f):
                continue
            for s, call in calls_in(f.body):
                r = resolve_call(m, mod, f, call)
                if r and (r[0].name, r[1].qual) in NDIM_SINKS:
                    mapping, _, _ = bind_args(r[1], r[2], call)
                    if 'use_ndim' not in mapping:
                        blind[(mname, q)] = (r[0].name, r[1].qual)
    n = 0
    for mname in modules:
        mod = m.py(mname)
        for q, f in sorted(mod.funcs.items()):
            if not _ndim_aware(f):
                continue
            for s in walk_stmts(f.body):
                for e in stmt_exprs(s):
                    for call in walk_expr(e):
                        if call[0] != 'call':
                            continue
                        r = resolve_call(m, mod, f, call)
                        if r is None:
                            continue
                        key = (r[0].name, r[1].qual)
                        if key in NDIM_SINKS:
                            mapping, _, dstars = bind_args(r[1], r[2], call)
                            n += 1
                            inst = '%s:%s -> %s' % (mname.split('.')[-1], q, fmt(call))
                            if 'use_ndim' in mapping or any(_dstar_has(m, d, 'use_ndim') for d in dstars):
                                ctx.held('R-FWD', inst)
                                continue
                            # exemption: only inner_val (position 2) of the triple is used
                            if s.k == 'assign' and s.value is call and s.target[0] == 'tuple' and len(s.target[1]) == 3 \
                                    and all(t == ('var', '_') or (t[0] == 'var' and t[1].startswith('_')) for t in s.target[1][:2]):
                                ctx.held('R-FWD', inst, 'only inner_val used: identical for 1-D and n-D')
                                continue
                            ctx.violation('R-FWD', mod.path, q, 'ndim sink %s' % fmt(call),
                                          'use_ndim is in scope but not passed to %s.%s: multivariate input is handled with the 1-D point distance'
                                          % key, line=s.line)
                        elif key in blind:
                            n += 1
                            ctx.violation('R-FWD', mod.path, q, 'ndim sink via %s' % r[1].qual,
                                          'use_ndim is in scope but the call goes through %s, which has no use_ndim parameter and calls %s.%s without it'
                                          % (r[1].qual, blind[key][0], blind[key][1]), line=s.line)
    ctx.count('ndim sinks', n)
    return n


def _dstar_has(m, e, key):
    ks = _dstar_keys(m, e)
    return ks is not None and key in ks


def _ndim_aware(f):
    if 'use_ndim' in f.all_params:
        return True
    if f.cls == 'DTWSettings':
        return True
    # a settings object (which carries use_ndim) is built in the function
    for s in walk_stmts(f.body):
        if s.k == 'assign' and s.value[0] == 'call':
            d = dotted(s.value[1]) or ''
            if d.split('.')[-1] == 'DTWSettings' or d.endswith('DTWSettings.for_dtw'):
                return True
    for s in walk_stmts(f.body):
        for e in stmt_exprs(s):
            for sub in walk_expr(e):
                if sub[0] == 'attr' and sub[2] == 'use_ndim':
                    return True
                if sub == ('var', 'use_ndim'):
                    return True
    return False


def rule_best_path_penalty(ctx, m, modules):
    """(p) a matrix produced by a penalised warping_paths call is back-tracked with that penalty."""
    n = 0
    for mname in modules:
        mod = m.py(mname)
        for q, f in sorted(mod.funcs.items()):
            producers = {}
            for s in walk_stmts(f.body):
                if s.k == 'assign' and s.value[0] == 'call':
                    d = dotted(s.value[1]) or ''
                    if d.split('.')[-1] in ('warping_paths', 'warping_paths_fast'):
                        tg = s.target
                        if tg[0] == 'tuple' and len(tg[1]) == 2 and tg[1][1][0] == 'var':
                            kws = {k for k, v in s.value[3]}
                            carries = ('penalty' in kws) or (None in kws)
                            producers[tg[1][1][1]] = (s, carries, s.value)
            if not producers:
                continue
            for s, call in calls_in(f.body):
                d = dotted(call[1]) or ''
                if d.split('.')[-1] != 'best_path' or not call[2]:
                    continue
                a0 = call[2][0]
                if a0[0] == 'var' and a0[1] in producers:
                    ps, carries, pcall = producers[a0[1]]
                    n += 1
                    kws = {k for k, v in call[3]}
                    inst = '%s:%s best_path(%s)' % (mname.split('.')[-1], q, a0[1])
                    if not carries:
                        ctx.held('R-FWD', inst, 'producer carries no penalty')
                        continue
                    ok = 'penalty' in kws
                    ctx.check(ok, 'R-FWD', mod.path, q, 'best_path(%s) without penalty' % a0[1],
                              'the matrix comes from %s, which may apply a penalty, but best_path back-tracks with penalty 0: the path need not achieve the distance'
                              % fmt(pcall), line=s.line)
    ctx.count('best_path sites', n)
    return n


def rule_key_tables(ctx, m):
    """Settings-key tables: DTWSettings.c_kwargs keys == keys accepted by the pyx DTWSettings (minus only_ub) and
    warping_path_args_to_c forwards every key of c_kwargs; dict literal key <-> value name agreement."""
    dtw = m.py('dtaidistance.dtw')
    ck = settings_dict_keys(m, 'c_kwargs')
    kk = settings_dict_keys(m, 'kwargs')
    if ck is None or kk is None:
        from ..cfront import AnalysisError
        raise AnalysisError('anchor vanished: DTWSettings.kwargs/c_kwargs dict literal')
    # (an attribute stored only as a neutral constant or a plain copy of self.<key> stands for that key: see below)
    copies0 = {}
    for q_, g_ in dtw.funcs.items():
        if q_.startswith('DTWSettings.'):
            for t_ in walk_stmts(g_.body):
                if t_.k == 'assign' and t_.target[0] == 'attr' and t_.target[1] == ('var', 'self'):
                    copies0.setdefault(t_.target[2], []).append(t_.value)
    NEUTRAL0 = (('num', float('inf')), ('var', 'inf'), ('num', 0), ('none',))

    def stands_for(attr):
        vals = copies0.get(attr) or []
        srcs = {v_[2] for v_ in vals if v_[0] == 'attr' and v_[1] == ('var', 'self')}
        if vals and len(srcs) == 1 and all(v_ in NEUTRAL0 or (v_[0] == 'attr' and v_[1] == ('var', 'self')) for v_ in vals):
            return list(srcs)[0]
        return None
    # key <-> value agreement
    for meth, table in (('kwargs', kk), ('c_kwargs', ck)):
        for k, v in table:
            names = _names_in(v) | {sub[2] for sub in walk_expr(v) if sub[0] == 'attr'}
            names |= {stands_for(a_) for a_ in list(names) if stands_for(a_)}
            ok = k in names
            ctx.check(ok, 'R-TAB', dtw.path, 'DTWSettings.' + meth, "key '%s' value %s" % (k, fmt(v)),
                      "dict key '%s' is filled from %s" % (k, fmt(v)))
    # c_kwargs: each local is derived from the same-named attribute
    f = dtw.funcs['DTWSettings.c_kwargs']
    from .tables import ckwargs_entries
    # an attribute that every method of the class stores only as a neutral constant or as a plain copy of self.<key> (adj_max_length_diff) is the key's own
    # value up to the None / inf normalisation; one that is stored converted (inner_val(..), a bound) is a different quantity
    copies = {}
    for q_, g_ in dtw.funcs.items():
        if not q_.startswith('DTWSettings.'):
            continue
        for t_ in walk_stmts(g_.body):
            if t_.k == 'assign' and t_.target[0] == 'attr' and t_.target[1] == ('var', 'self'):
                copies.setdefault(t_.target[2], []).append(t_.value)
    NEUTRAL = (('num', float('inf')), ('var', 'inf'), ('num', 0), ('none',))
    for key_, val_, line_ in ckwargs_entries(f):
        attrs = {sub[2] for sub in walk_expr(val_) if sub[0] == 'attr' and sub[1] == ('var', 'self')}
        alias = {a_ for a_ in attrs if a_ != key_ and copies.get(a_) and all(v_ in NEUTRAL or v_ == ('attr', ('var', 'self'), key_) for v_ in copies[a_])}
        if alias:
            attrs = (attrs - alias) | {key_}
        if attrs:
            ctx.check(key_ in attrs, 'R-TAB', dtw.path, 'DTWSettings.c_kwargs', '%s computed from its attribute' % key_,
                      "entry '%s' is computed from self.%s" % (key_, sorted(attrs)), line=line_)
    # pyx accepted keys
    pyx = m.pyx('dtw_cc')
    init = pyx.funcs.get('DTWSettings.__init__')
    accepted = set()
    for s in walk_stmts(init.body):
        if s.k == 'if' and s.cond[0] == 'bin' and s.cond[1] == 'in' and s.cond[2][0] == 'str' and s.cond[3] == ('var', 'kwargs'):
            accepted.add(s.cond[2][1])
    ckeys = {k for k, v in ck}
    for k in sorted(ckeys):
        ctx.check(k in accepted, 'R-TAB', dtw.path, 'DTWSettings.c_kwargs', "key '%s' accepted by pyx DTWSettings" % k,
                  "c_kwargs() produces key '%s' which the Cython DTWSettings.__init__ silently ignores" % k)
    # warping_path_args_to_c
    f = dtw.funcs.get('warping_path_args_to_c')
    keys = None
    for s in walk_stmts(f.body):
        for e in stmt_exprs(s):
            for sub in walk_expr(e):
                if sub[0] == 'comp' and sub[1] == 'DictComp':
                    for (t, it, conds) in sub[3]:
                        if it[0] in ('list', 'tuple', 'set'):
                            keys = {x[1] for x in it[1] if x[0] == 'str'}
    if keys is None:
        from ..cfront import AnalysisError
        raise AnalysisError('unrecognised shape: warping_path_args_to_c key list')
    for k in sorted(ckeys):
        ctx.check(k in keys, 'R-FWD', dtw.path, 'warping_path_args_to_c', "key '%s' forwarded" % k,
                  "settings key '%s' (produced by DTWSettings.c_kwargs and honoured by the C engine) is not in the key list: "
                  "warping_path_fast/warping_path_prob silently ignore the option" % k)
    ctx.count('settings keys', len(ckeys))
