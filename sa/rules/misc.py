"""R-DSP (dispatch chains), R-RET (return arity), R-ID (identity tests on arrays), R-OPT (optional NumPy symmetry)."""
import re

from ..cfront import AnalysisError
from ..ir import fmt, dotted, walk_stmts, walk_expr, stmt_exprs
from ..pyres import resolve_call


# ------------------------------------------------------------------------------------------ R-DSP
def _cmp_const(cond, var):
    """cond is `var == 'const'` (or `var.lower() == ...`) -> const string, else None."""
    if cond[0] == 'bin' and cond[1] == '==':
        a, b = cond[2], cond[3]
        if b == ('var', var) and a[0] in ('str', 'num'):
            a, b = b, a
        if a == ('var', var) and b[0] in ('str', 'num'):
            return b[1]
    if cond[0] == 'bin' and cond[1] == 'or':
        # kwargs["inner_dist"] == "x" or kwargs["inner_dist"] == 0 handled by caller
        return None
    return None


def _chain(stmt, var):
    """Flatten an if/elif chain on `var`: returns ([(const, body)], else_body or None)."""
    arms = []
    cur = stmt
    while True:
        c = _cmp_const(cur.cond, var)
        if c is None:
            return arms, [cur]      # non-dispatch condition ends the chain: treat as else
        arms.append((c, cur.then, cur))
        if len(cur.els) == 1 and cur.els[0].k == 'if':
            cur = cur.els[0]
            continue
        return arms, (cur.els if cur.els else None)


def _always_leaves(body):
    """The block always ends in return/raise."""
    if not body:
        return False
    last = body[-1]
    if last.k in ('return', 'raise'):
        return True
    if last.k == 'if':
        return _always_leaves(last.then) and _always_leaves(last.els)
    return False


def _raises(body):
    return bool(body) and body[-1].k == 'raise'


def rule_dispatch(ctx, m, mname, qual, var, documented=None):
    """The dispatch on `var` in function `qual` is ONE if/elif chain; no arm that computes a result can reach the
    final `raise`; each documented alternative has exactly one arm."""
    mod = m.py(mname)
    f = mod.funcs.get(qual)
    if f is None:
        raise AnalysisError('anchor vanished: %s.%s' % (mname, qual))
    chains = []
    for s in f.body:
        if s.k == 'if' and _cmp_const(s.cond, var) is not None:
            chains.append((s,) + _chain(s, var))
    if not chains:
        raise AnalysisError('unrecognised shape: no dispatch on `%s` in %s.%s' % (var, mname, qual))
    all_consts = []
    raising = [c for c in chains if c[2] is not None and _raises(c[2])]
    for (s, arms, els) in chains:
        for const, body, node in arms:
            all_consts.append(const)
            inst = "%s arm %s == %r" % (qual, var, const)
            ok = True
            what = ''
            if not _always_leaves(body):
                # control continues after this chain: any later chain whose else raises will reject this value
                for (s2, arms2, els2) in raising:
                    if s2 is s:
                        continue
                    if s2.line > s.line and const not in [a[0] for a in arms2]:
                        ok = False
                        what = ("the arm for %s == %r is a separate `if`; control falls into the later chain at line %s whose "
                                "`else` raises, so this documented alternative always fails" % (var, const, s2.line))
            ctx.check(ok, 'R-DSP', mod.path, qual, "arm %s == %r" % (var, const), what, line=node.line)
    dup = {c for c in all_consts if all_consts.count(c) > 1}
    for c in sorted(dup, key=str):
        ctx.violation('R-DSP', mod.path, qual, "duplicate arm %s == %r" % (var, c), 'alternative %r has more than one arm' % (c,), line=f.line)
    if documented is None and f.doc:
        documented = [x.lower() for x in re.findall(r'^\s*-\s+([A-Z][a-z]+):', f.doc, re.M)]
    for d in documented or []:
        ctx.check(d in all_consts, 'R-DSP', mod.path, qual, "documented alternative %r" % d,
                  'the docstring documents method %r but no arm handles it' % d, line=f.line)
    if not raising:
        ctx.note('%s.%s: dispatch on %s has no rejecting else' % (mname, qual, var))
    ctx.count('dispatch arms', len(all_consts))
    return all_consts


# ------------------------------------------------------------------------------------------ R-RET
def _returns_with_flags(f):
    """[(return stmt, frozenset((param, polarity)))]"""
    params = set(f.all_params)
    out = []

    def flag(cond):
        if cond[0] == 'var' and cond[1] in params:
            return (cond[1], True)
        if cond[0] == 'un' and cond[1] == 'not' and cond[2][0] == 'var' and cond[2][1] in params:
            return (cond[2][1], False)
        return None

    def walk(stmts, flags):
        flags = set(flags)
        for s in stmts:
            if s.k == 'return':
                out.append((s, frozenset(flags)))
            elif s.k == 'if':
                fl = flag(s.cond)
                walk(s.then, flags | ({fl} if fl else set()))
                walk(s.els, flags | ({(fl[0], not fl[1])} if fl else set()))
                if fl and _always_leaves(s.then):
                    flags.add((fl[0], not fl[1]))
                if fl and s.els and _always_leaves(s.els):
                    flags.add(fl)
            elif s.k in ('for', 'foreach', 'while', 'with'):
                walk(s.body, flags)
                if s.d.get('orelse'):
                    walk(s.orelse, flags)
            elif s.k == 'try':
                walk(s.body, flags)
                for h in s.handlers:
                    walk(h[2], flags)
                walk(s.orelse, flags)
                walk(s.final, flags)
    walk(f.body, set())
    return out


def _arity(m, mod, f, e, depth=0):
    if e is None or e == ('none',):
        return {1}
    if e[0] == 'tuple':
        return {len(e[1])}
    if e[0] == 'call' and depth < 3:
        r = resolve_call(m, mod, f, e)
        if r is not None and r[1].name != '__init__':
            sub = set()
            for rs, _ in _returns_with_flags(r[1]):
                sub |= _arity(m, r[0], r[1], rs.value, depth + 1)
            if sub:
                return sub
    return {1}


def rule_return_arity(ctx, m, funcs):
    """All returns of a function that callers unpack have one arity, except where the arity is selected by a
    boolean parameter (`if include_distance: return a, b` / `return a`)."""
    n = 0
    for mname, qual in funcs:
        mod = m.py(mname)
        f = mod.funcs.get(qual)
        if f is None:
            raise AnalysisError('anchor vanished: %s.%s' % (mname, qual))
        rets = _returns_with_flags(f)
        ar = []
        for s, flags in rets:
            a = _arity(m, mod, f, s.value)
            ar.append((s, flags, a))
        # the reference arity: the arity of the last top-level return (the normal exit)
        normal = None
        for s, flags, a in ar:
            if s in f.body:
                normal = (s, flags, a)
        if normal is None and ar:
            normal = ar[-1]
        for s, flags, a in ar:
            n += 1
            if s is normal[0]:
                ctx.held('R-RET', '%s return %s' % (qual, fmt(s.value) if s.value is not None else 'None'))
                continue
            if a & normal[2] and len(a) == 1 or a == normal[2]:
                ctx.held('R-RET', '%s return %s' % (qual, fmt(s.value) if s.value is not None else 'None'))
                continue
            # different arity: accepted only when a boolean parameter distinguishes the two returns
            distinguished = any((p, not pol) in normal[1] for (p, pol) in flags)
            ctx.check(distinguished, 'R-RET', mod.path, qual, 'return %s' % (fmt(s.value) if s.value is not None else 'None'),
                      'returns %s value(s) where the normal exit `return %s` returns %s and callers unpack that: TypeError/ValueError at the unpack site'
                      % (sorted(a), fmt(normal[0].value), sorted(normal[2])), line=s.line)
    ctx.count('return statements', n)
    return n


# ------------------------------------------------------------------------------------------ R-ID
def rule_identity(ctx, m, modules):
    """`x[...] is True/False` (or `.any()/.all() is ...`) where x may be a NumPy array: never true for numpy.bool_."""
    n = 0
    for mname in modules:
        mod = m.py(mname)
        for q, f in sorted(mod.funcs.items()):
            np_vars = set()
            for s in walk_stmts(f.body):
                if s.k == 'assign' and s.target[0] == 'var' and s.value[0] == 'call':
                    d = dotted(s.value[1]) or ''
                    if d.split('.')[0] in ('np', 'numpy', 'ma'):
                        np_vars.add(s.target[1])
            for s in walk_stmts(f.body):
                for e in stmt_exprs(s):
                    for sub in walk_expr(e):
                        if sub[0] == 'bin' and sub[1] in ('is', 'isnot') and sub[3][0] == 'bool':
                            left = sub[2]
                            n += 1
                            bad = None
                            if left[0] == 'idx':
                                base = left[1]
                                if base[0] == 'var' and base[1] in np_vars:
                                    bad = '`%s` is assigned from a NumPy constructor in this function' % base[1]
                                elif base[0] == 'attr' and base[2] == 'mask':
                                    bad = '`%s` is the mask of a masked array' % fmt(base)
                            elif left[0] == 'call' and left[1][0] == 'attr' and left[1][2] in ('any', 'all'):
                                bad = '`%s` returns numpy.bool_' % fmt(left)
                            ctx.check(bad is None, 'R-ID', mod.path, q, fmt(sub),
                                      'identity comparison with a Python bool on a NumPy element (%s): numpy.bool_ is never `is` True/False, '
                                      'so the test has one fixed outcome' % bad, line=s.line)
            # two data values compared by identity: equal symbols / numbers that are distinct objects compare unequal
            localnames = set(f.args + f.kwonly) | {t.target[1] for t in walk_stmts(f.body) if t.k == 'assign' and t.target[0] == 'var'}
            for s in walk_stmts(f.body):
                for e in stmt_exprs(s):
                    for sub in walk_expr(e):
                        if sub[0] == 'bin' and sub[1] in ('is', 'isnot') and sub[2][0] == 'var' and sub[3][0] == 'var' \
                                and sub[2][1] in localnames and sub[3][1] in localnames and sub[2][1] not in ('self', 'cls') and sub[3][1] not in ('self', 'cls'):
                            n += 1
                            ctx.violation('R-ID', mod.path, q, fmt(sub),
                                          '`%s` decides whether two values are the same by object identity: equal values held in distinct objects (array elements, '
                                          'non-interned strings, large ints) compare as different' % fmt(sub), line=s.line)
    ctx.count('identity comparisons', n)
    return n


# ------------------------------------------------------------------------------------------ R-OPT
def rule_optional_numpy(ctx, m, modules):
    """Names bound in the `try: import numpy` arm are also bound in the `except ImportError` arm, or every use is
    behind an `np is None -> raise` guard."""
    n = 0
    for mname in modules:
        mod = m.py(mname)
        for s in mod.toplevel:
            if s.k != 'try':
                continue
            imports_np = False
            bound_try = set()
            for t in walk_stmts(s.body):
                if t.k == 'import':
                    node = t.node
                    for a in node.names:
                        nm = a.asname or a.name.split('.')[0]
                        bound_try.add(nm)
                        if a.name.split('.')[0] == 'numpy':
                            imports_np = True
                elif t.k == 'assign' and t.target[0] == 'var':
                    bound_try.add(t.target[1])
            if not imports_np:
                continue
            bound_exc = set()
            for h in s.handlers:
                for t in walk_stmts(h[2]):
                    if t.k == 'assign' and t.target[0] == 'var':
                        bound_exc.add(t.target[1])
            # a name bound to a function in both arms is bound to the same operation (np.min / min, np.argmin / util.argmin, ...)
            KIND = {'argmin': 'argmin', 'argmax': 'argmax', 'min': 'min', 'amin': 'min', 'nanmin': 'min', 'max': 'max', 'amax': 'max', 'nanmax': 'max'}
            val_try = {t.target[1]: t.value for t in walk_stmts(s.body) if t.k == 'assign' and t.target[0] == 'var'}
            val_exc = {t.target[1]: t.value for h in s.handlers for t in walk_stmts(h[2]) if t.k == 'assign' and t.target[0] == 'var'}
            for nm in sorted(set(val_try) & set(val_exc)):
                k1 = KIND.get((dotted(val_try[nm]) or '').split('.')[-1])
                k2 = KIND.get((dotted(val_exc[nm]) or '').split('.')[-1])
                if k1 is None and k2 is None:
                    continue
                n += 1
                ctx.check(k1 == k2, 'R-OPT', mod.path, '<module>', 'fallback of %s' % nm,
                          '`%s` is %s with NumPy but %s without it: the NumPy-less mode computes a different quantity' % (nm, fmt(val_try[nm]), fmt(val_exc[nm])), line=s.line)
            for nm in sorted(bound_try):
                n += 1
                if nm in bound_exc:
                    ctx.held('R-OPT', '%s:%s' % (mname, nm))
                    continue
                # every use must be guarded
                bad = []
                for q, f in mod.funcs.items():
                    uses = [st for st in walk_stmts(f.body) for e in stmt_exprs(st) for sub in walk_expr(e) if sub == ('var', nm)]
                    if not uses:
                        continue
                    if nm in ('np', 'ma'):
                        continue   # `np` itself: bound to None by the except arm is the guard variable; `ma` only behind np
                    if not _np_guarded(f):
                        bad.append(q)
                if nm in ('np',):
                    ctx.check('np' in bound_exc, 'R-OPT', mod.path, '<module>', 'np bound in except arm',
                              'the except ImportError arm does not bind `np`', line=s.line)
                    continue
                ctx.check(not bad, 'R-OPT', mod.path, '<module>', 'name %s in except ImportError arm' % nm,
                          'module-level name `%s` is bound only when NumPy imports; without NumPy %s raise NameError instead of working/raising NumpyException'
                          % (nm, bad), line=s.line)
    ctx.count('optional-numpy names', n)
    return n


def _np_guarded(f):
    for s in f.body:
        if s.k == 'if' and s.cond == ('bin', 'is', ('var', 'np'), ('none',)) and _always_leaves(s.then):
            return True
    return False


# ------------------------------------------------------------------------------------------ mapping fields used as objects
_DICT_ATTRS = set(dir(dict))


def rule_mapping_fields(ctx, m, modules):
    """Contradiction rule: a field `self.F` that the class expands as a mapping somewhere (`**self.F`, `self.F.get(...)`, `self.F['key']`, `{**self.F}`)
    is a dict; reading or writing an attribute on it that dict does not have (`self.F.use_c`) raises AttributeError on every call of that method."""
    n = 0
    for mname in modules:
        mod = m.py(mname)
        by_cls = {}
        for q, f in mod.funcs.items():
            if f.cls:
                by_cls.setdefault(f.cls, []).append((q, f))
        # fields known to be mappings anywhere in the module's classes (subclasses share the field with their base)
        mapping = set()
        for cls, fs in by_cls.items():
            for q, f in fs:
                for s in walk_stmts(f.body):
                    for e in stmt_exprs(s):
                        for x in walk_expr(e):
                            fld = None
                            if x[0] == 'call':
                                for k, v in x[3]:
                                    if k is None and v[0] == 'attr' and v[1] == ('var', 'self'):
                                        fld = v[2]
                                if x[1][0] == 'attr' and x[1][2] in ('get', 'items', 'keys', 'pop', 'setdefault', 'update') and x[1][1][0] == 'attr' and x[1][1][1] == ('var', 'self'):
                                    fld = x[1][1][2]
                            if x[0] == 'idx' and x[1][0] == 'attr' and x[1][1] == ('var', 'self') and x[2][0] == 'str':
                                fld = x[1][2]
                            if x[0] == 'dict':
                                for kk, vv in x[1]:
                                    if kk is None and vv[0] == 'attr' and vv[1] == ('var', 'self'):
                                        fld = vv[2]
                            if fld:
                                mapping.add(fld)
        for cls, fs in sorted(by_cls.items()):
            for q, f in sorted(fs):
                for s in walk_stmts(f.body):
                    for e in stmt_exprs(s):
                        for x in walk_expr(e):
                            if x[0] == 'attr' and x[1][0] == 'attr' and x[1][1] == ('var', 'self') and x[1][2] in mapping:
                                n += 1
                                if x[2] in _DICT_ATTRS:
                                    ctx.held('R-SIG', '%s:%s self.%s.%s is a mapping method' % (mname.split('.')[-1], q, x[1][2], x[2]))
                                if x[2] not in _DICT_ATTRS:
                                    ctx.violation('R-SIG', mod.path, q, 'attribute %s of mapping field %s' % (x[2], x[1][2]),
                                                  '`self.%s` is used as a mapping elsewhere in this module (`**self.%s`, `.get(...)`), but `%s` reads/writes the attribute `%s` on it: '
                                                  'a dict has no such attribute, so every call of %s raises AttributeError' % (x[1][2], x[1][2], q, x[2], q), s.line)
    ctx.count('attribute uses of mapping fields', n)
    return n

