"""Developer tool (not a check): run every property and print the violations grouped by construct, as candidate
known-findings entries.  Usage: /venv/bin/python -m sa.tools.collect [--tier thorough]"""
import json
import sys
from ..common import Ctx
from .. import props


def main():
    tier = 'thorough' if '--tier' in sys.argv and 'thorough' in sys.argv else 'quick'
    groups = {}
    for pid in sorted(props.PROPS):
        ctx = Ctx(pid, tier)
        try:
            props.PROPS[pid][0](ctx)
        except Exception as e:  # noqa
            print('ERROR', pid, repr(e), file=sys.stderr)
            continue
        for v in ctx.violations:
            key = (v['rule'], v['file'], v['function'], v['construct_key'])
            g = groups.setdefault(key, {'rule': v['rule'], 'file': v['file'], 'function': v['function'], 'construct_key': v['construct_key'],
                                        'properties': [], 'what_fails': v['what_fails'], 'witness': (v.get('facts') or {}).get('witness'),
                                        'failset': (v.get('facts') or {}).get('failset')})
            if pid not in g['properties']:
                g['properties'].append(pid)
    json.dump(list(groups.values()), sys.stdout, indent=1, default=str)


if __name__ == '__main__':
    main()
