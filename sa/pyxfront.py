"""Cython front end: the repository environment's own Cython, used as a *parser only*.

Yields, per .pyx: def/cdef functions (with declared parameter types incl. memoryview axis specs), cdef classes and
their methods, all converted to the mini-IR;  per .pxd: `cdef extern` prototypes and struct fields.
"""
import hashlib
import os
import pickle

from .ir import S, mk_cmp, mk_if, mk_cond, canon_cond
from .cfront import AnalysisError, CACHE

INF = float('inf')


class PyxArg:
    def __init__(self, name, ctype, default, memview_axes, line):
        self.name = name
        self.ctype = ctype            # textual: 'seq_t[:]', 'bint', 'Py_ssize_t', '' (untyped object)
        self.default = default        # IR expr or None
        self.memview_axes = memview_axes   # None, or list of 'strided' / 'contig' per axis
        self.line = line

    def __repr__(self):
        return 'PyxArg(%s %s)' % (self.ctype, self.name)


class PyxFunc:
    def __init__(self, name, qual, kind, args, star, starstar, body, line, cls=None):
        self.name = name
        self.qual = qual
        self.kind = kind          # 'def' | 'cdef'
        self.args = args          # [PyxArg]
        self.vararg = star
        self.kwarg = starstar
        self.body = body
        self.line = line
        self.cls = cls
        self.locals = {}          # cdef locals: name -> ctype

    def __repr__(self):
        return 'PyxFunc(%s)' % self.qual


class PyxModule:
    def __init__(self, name, path):
        self.name = name
        self.path = path
        self.funcs = {}       # qual -> PyxFunc
        self.classes = {}     # name -> [method quals]
        self.externs = {}     # name -> (rtype, [(ptype, pname)], line)   from cdef extern blocks
        self.structs = {}     # name -> [(field, ctype)]
        self.cimports = []    # dotted
        self.class_attrs = {}  # class -> {attr: ctype} (from pxd cdef class declarations)
        self.toplevel = []


def _cy():
    try:
        import Cython  # noqa
        from Cython.Compiler import Main, Options  # noqa
    except Exception as e:  # pragma: no cover
        raise AnalysisError('Cython parser unavailable: %r (checks must run under /venv/bin/python)' % (e,))


def _parse(path, fullname):
    _cy()
    from Cython.Compiler.Main import Context, CompilationOptions, default_options
    from Cython.Compiler.Scanning import FileSourceDescriptor
    from Cython.Compiler import Errors
    d = os.path.dirname(path)
    cwd = os.getcwd()
    os.chdir(d)
    try:
        opts = CompilationOptions(default_options, language_level=3, include_path=['.'])
        ctx = Context.from_options(opts)
        sd = FileSourceDescriptor(os.path.abspath(path), os.path.basename(path))
        pxd = path.endswith('.pxd')
        scope = ctx.find_module(fullname, pos=(sd, 1, 0), need_pxd=0)
        Errors.init_thread()
        tree = ctx.parse(sd, scope, pxd=1 if pxd else 0, full_module_name=fullname)
    finally:
        os.chdir(cwd)
    return tree


def _line(n):
    p = getattr(n, 'pos', None)
    if p and len(p) >= 2:
        return p[1]
    return None


def _cn(n):
    return type(n).__name__


_BINOPS = {'AddNode': '+', 'SubNode': '-', 'MulNode': '*', 'DivNode': '/', 'ModNode': '%', 'PowNode': '**',
           'IntBinopNode': None, 'NumBinopNode': None, 'BinopNode': None, 'BitwiseOrNode': '|'}


def _type_text(bt):
    """Textual form of a C base type node (+ memoryview axes)."""
    if bt is None:
        return '', None
    c = _cn(bt)
    if c == 'CSimpleBaseTypeNode':
        nm = bt.name
        if nm is None:
            return '', None
        pre = ''
        if getattr(bt, 'signed', 1) == 0:
            pre = 'unsigned '
        ln = getattr(bt, 'longness', 0)
        if ln == 1:
            pre += 'long '
        if ln == 2:
            pre += 'long long '
        if ln == -1:
            pre += 'short '
        mp = getattr(bt, 'module_path', None) or []
        return pre + '.'.join(list(mp) + [nm]), None
    if c == 'MemoryViewSliceTypeNode':
        base, _ = _type_text(bt.base_type_node)
        axes = []
        for ax in bt.axes:
            step = getattr(ax, 'step', None)
            if step is None or _cn(step) == 'NoneNode':
                axes.append('strided')
            else:
                axes.append('contig')
        return '%s[%s]' % (base, ','.join(':' if a == 'strided' else '::1' for a in axes)), axes
    if c == 'TemplatedTypeNode':
        base, _ = _type_text(bt.base_type_node)
        return base + '[...]', None
    if c == 'CConstOrVolatileTypeNode':
        base, ax = _type_text(bt.base_type)
        return 'const ' + base, ax
    if c == 'CNestedBaseTypeNode':
        base, _ = _type_text(bt.base_type)
        return base + '.' + bt.name, None
    return c, None


def _declarator(d):
    """-> (name, pointer prefix/suffix text, params if function declarator)"""
    stars = ''
    params = None
    while d is not None:
        c = _cn(d)
        if c == 'CNameDeclaratorNode':
            return d.name, stars, params, getattr(d, 'default', None)
        if c == 'CPtrDeclaratorNode':
            stars += '*'
            d = d.base
        elif c == 'CFuncDeclaratorNode':
            params = d.args
            d = d.base
        elif c == 'CArrayDeclaratorNode':
            stars += '[]'
            d = d.base
        elif c == 'CReferenceDeclaratorNode':
            d = d.base
        else:
            return getattr(d, 'name', '?'), stars, params, None
    return '?', stars, params, None


class _Conv:
    def __init__(self, mod):
        self.mod = mod

    # ----------------------------------------------------------------------------- expressions
    def expr(self, n):
        if n is None:
            return None
        c = _cn(n)
        if c == 'NameNode':
            return ('var', n.name)
        if c == 'AttributeNode':
            b = self.expr(n.obj)
            if n.attribute in ('inf',) and b in (('var', 'np'), ('var', 'math')):
                return ('num', INF)
            return ('attr', b, n.attribute)
        if c == 'IntNode':
            try:
                return ('num', int(n.value, 0))
            except Exception:
                return ('num', int(''.join(ch for ch in n.value if ch.isdigit()) or 0))
        if c == 'FloatNode':
            return ('num', float(n.value))
        if c == 'BoolNode':
            return ('bool', bool(n.value))
        if c in ('NoneNode',):
            return ('none',)
        if c == 'NullNode':
            return ('var', 'NULL')
        if c in ('UnicodeNode', 'StringNode', 'BytesNode', 'IdentifierStringNode'):
            return ('str', str(n.value))
        if c == 'CharNode':
            return ('str', str(n.value))
        if c in ('JoinedStrNode', 'FormattedValueNode'):
            return ('other', 'fstring')
        if c == 'TupleNode':
            return ('tuple', tuple(self.expr(a) for a in n.args))
        if c == 'ListNode':
            return ('list', tuple(self.expr(a) for a in n.args))
        if c == 'SetNode':
            return ('set', tuple(self.expr(a) for a in n.args))
        if c == 'DictNode':
            return ('dict', tuple((self.expr(i.key), self.expr(i.value)) for i in n.key_value_pairs))
        if c == 'AmpersandNode':
            return ('un', 'addr', self.expr(n.operand))
        if c == 'NotNode':
            return ('un', 'not', self.expr(n.operand))
        if c == 'UnaryMinusNode':
            a = self.expr(n.operand)
            if a[0] == 'num':
                return ('num', -a[1])
            return ('un', 'neg', a)
        if c == 'UnaryPlusNode':
            return self.expr(n.operand)
        if c == 'TildeNode':
            return ('un', 'inv', self.expr(n.operand))
        if c == 'TypecastNode':
            return self.expr(n.operand)
        if c in ('SizeofTypeNode', 'SizeofVarNode'):
            t = ''
            if c == 'SizeofTypeNode':
                t, _ = _type_text(n.base_type)
                nm, stars, _, _ = _declarator(n.declarator)
                t += stars
            else:
                t = 'expr'
            return ('call', ('var', 'sizeof'), (('other', t),), ())
        if c == 'IndexNode':
            return ('idx', self.expr(n.base), self.expr(n.index))
        if c == 'SliceIndexNode':
            return ('idx', self.expr(n.base), ('slice', self.expr(n.start), self.expr(n.stop), None))
        if c == 'SliceNode':
            return ('slice', self.expr(n.start), self.expr(n.stop), self.expr(n.step))
        if c == 'SimpleCallNode':
            args = []
            for a in n.args:
                if _cn(a) == 'StarredUnpackingNode':
                    args.append(('star', self.expr(a.target)))
                else:
                    args.append(self.expr(a))
            return ('call', self.expr(n.function), tuple(args), ())
        if c == 'GeneralCallNode':
            args = []
            pa = n.positional_args
            if _cn(pa) == 'TupleNode':
                args = [self.expr(a) for a in pa.args]
            elif _cn(pa) == 'AsTupleNode':
                args = [('star', self.expr(pa.arg))]
            else:
                args = [('star', self.expr(pa))]
            kws = []
            ka = n.keyword_args
            if ka is not None:
                kws = self._kwargs(ka)
            return ('call', self.expr(n.function), tuple(args), tuple(kws))
        if c == 'PrimaryCmpNode' or c == 'CascadedCmpNode':
            ops = {'<': '<', '<=': '<=', '>': '>', '>=': '>=', '==': '==', '!=': '!=', 'is': 'is', 'is_not': 'isnot',
                   'in': 'in', 'not_in': 'notin'}
            left = self.expr(n.operand1)
            right = self.expr(n.operand2)
            e = mk_cmp(ops.get(n.operator, n.operator), left, right)
            casc = getattr(n, 'cascade', None)
            while casc is not None:
                r2 = self.expr(casc.operand2)
                e = ('bin', 'and', e, mk_cmp(ops.get(casc.operator, casc.operator), right, r2))
                right = r2
                casc = getattr(casc, 'cascade', None)
            return e
        if c == 'BoolBinopNode':
            return ('bin', n.operator, self.expr(n.operand1), self.expr(n.operand2))
        if c == 'CondExprNode':
            return mk_cond(self.expr(n.test), self.expr(n.true_val), self.expr(n.false_val))
        if hasattr(n, 'operator') and hasattr(n, 'operand1') and hasattr(n, 'operand2'):
            return ('bin', n.operator, self.expr(n.operand1), self.expr(n.operand2))
        if c == 'LambdaNode':
            return ('other', 'lambda')
        if c == 'ComprehensionNode':
            # [elt for target in iterable (if cond)*] with one generator: the same ('comp', kind, elt, generators) node the Python front end builds
            try:
                lp = n.loop
                if type(lp).__name__ == 'ForInStatNode' and lp.else_clause is None:
                    seq = getattr(lp.iterator, 'sequence', lp.iterator)
                    tgt, it = self.expr(lp.target), self.expr(seq)
                    body = lp.body
                    conds = []
                    while type(body).__name__ == 'IfStatNode' and len(body.if_clauses) == 1 and body.else_clause is None:
                        conds.append(self.expr(body.if_clauses[0].condition))
                        body = body.if_clauses[0].body
                    if type(body).__name__ == 'ExprStatNode' and type(body.expr).__name__ == 'ComprehensionAppendNode':
                        body = body.expr
                    if type(body).__name__ == 'ComprehensionAppendNode':
                        return ('comp', 'list', self.expr(body.expr), ((tgt, it, tuple(conds)),))
            except Exception:  # noqa
                pass
            return ('other', 'comprehension')
        if c in ('GeneratorExpressionNode', 'InlinedGeneratorExpressionNode'):
            return ('other', 'comprehension')
        if c in ('YieldExprNode',):
            return ('call', ('var', '__yield__'), (self.expr(n.arg),) if n.arg is not None else (), ())
        if c == 'MergedDictNode':
            return ('dict', tuple(self._kwargs(n)))
        return ('other', c)

    def _kwargs(self, ka):
        c = _cn(ka)
        out = []
        if c == 'DictNode':
            for it in ka.key_value_pairs:
                k = self.expr(it.key)
                out.append((k[1] if k and k[0] == 'str' else None, self.expr(it.value)))
        elif c == 'MergedDictNode':
            for sub in ka.keyword_args:
                out.extend(self._kwargs(sub))
        else:
            out.append((None, self.expr(ka)))
        return out

    # ----------------------------------------------------------------------------- statements
    def block(self, n):
        if n is None:
            return []
        c = _cn(n)
        if c == 'StatListNode':
            out = []
            for s in n.stats:
                out.extend(self.stmt(s))
            return out
        return self.stmt(n)

    def stmt(self, n):
        c = _cn(n)
        line = _line(n)
        if c == 'StatListNode':
            return self.block(n)
        if c == 'PassStatNode':
            return []
        if c == 'ExprStatNode':
            e = n.expr
            if _cn(e) in ('UnicodeNode', 'StringNode', 'BytesNode'):
                return []
            return [S('expr', line, value=self.expr(e))]
        if c == 'SingleAssignmentNode':
            return [S('assign', line, target=self.expr(n.lhs), value=self.expr(n.rhs), aug=None)]
        if c == 'CascadedAssignmentNode':
            v = self.expr(n.rhs)
            return [S('assign', line, target=self.expr(t), value=v, aug=None) for t in n.lhs_list]
        if c == 'ParallelAssignmentNode':
            out = []
            for s in n.stats:
                out.extend(self.stmt(s))
            return out
        if c == 'InPlaceAssignmentNode':
            t = self.expr(n.lhs)
            return [S('assign', line, target=t, value=('bin', n.operator, t, self.expr(n.rhs)), aug=n.operator)]
        if c == 'CVarDefNode':
            out = []
            bt, axes = _type_text(n.base_type)
            for d in n.declarators:
                nm, stars, params, default = _declarator(d)
                out.append(S('decl', line, name=nm, init=self.expr(default) if default is not None else None,
                             ctype=(bt + ' ' + stars).strip(), axes=axes, static=False))
            return out
        if c == 'IfStatNode':
            clauses = n.if_clauses
            els = self.block(n.else_clause) if n.else_clause is not None else []
            for cl in reversed(clauses):
                st = mk_if(_line(cl) or line, self.expr(cl.condition), self.block(cl.body), els)
                els = [st]
            return els
        if c == 'ForInStatNode':
            it = n.iterator
            seq = getattr(it, 'sequence', it)
            ie = self.expr(seq)
            tgt = self.expr(n.target)
            body = self.block(n.body)
            orelse = self.block(n.else_clause) if n.else_clause is not None else []
            if ie[0] == 'call' and ie[1] == ('var', 'range') and not ie[3] and tgt[0] == 'var' and 1 <= len(ie[2]) <= 3:
                a = ie[2]
                if len(a) == 1:
                    lo, hi, st = ('num', 0), a[0], ('num', 1)
                elif len(a) == 2:
                    lo, hi, st = a[0], a[1], ('num', 1)
                else:
                    lo, hi, st = a
                return [S('for', line, var=tgt[1], lo=lo, hi=hi, step=st, body=body, inclusive=False, orelse=orelse, declares=False)]
            return [S('foreach', line, target=tgt, iter=ie, body=body, orelse=orelse)]
        if c == 'ForFromStatNode':
            return [S('unsupported', line, what=c)]
        if c == 'WhileStatNode':
            return [S('while', line, cond=self.expr(n.condition), body=self.block(n.body),
                      orelse=self.block(n.else_clause) if n.else_clause is not None else [])]
        if c == 'ReturnStatNode':
            return [S('return', line, value=self.expr(n.value))]
        if c == 'BreakStatNode':
            return [S('break', line)]
        if c == 'ContinueStatNode':
            return [S('continue', line)]
        if c == 'RaiseStatNode':
            return [S('raise', line, value=self.expr(n.exc_type))]
        if c == 'ReraiseStatNode':
            return [S('raise', line, value=None)]
        if c == 'AssertStatNode':
            return [S('assert', line, cond=self.expr(getattr(n, 'condition', getattr(n, 'cond', None))), msg=None)]
        if c == 'TryExceptStatNode':
            hs = []
            for h in n.except_clauses:
                pat = h.pattern
                if isinstance(pat, list):
                    pe = ('tuple', tuple(self.expr(p) for p in pat)) if len(pat) != 1 else self.expr(pat[0])
                else:
                    pe = self.expr(pat)
                tgt = getattr(h, 'target', None)
                hs.append((pe, tgt.name if tgt is not None and hasattr(tgt, 'name') else None, self.block(h.body)))
            return [S('try', line, body=self.block(n.body), handlers=hs,
                      orelse=self.block(n.else_clause) if n.else_clause is not None else [], final=[])]
        if c == 'TryFinallyStatNode':
            return [S('try', line, body=self.block(n.body), handlers=[], orelse=[], final=self.block(n.finally_clause))]
        if c == 'WithStatNode':
            return [S('with', line, items=[(self.expr(n.manager), self.expr(n.target) if n.target is not None else None)],
                      body=self.block(n.body))]
        if c in ('DefNode', 'CFuncDefNode'):
            return [S('def', line, name=getattr(n, 'name', None) or _declarator(n.declarator)[0], node=None)]
        if c in ('CImportStatNode', 'FromCImportStatNode', 'FromImportStatNode', 'ImportNode'):
            return [S('import', line, node=None)]
        if c in ('GlobalNode', 'NonlocalNode'):
            return [S('global', line, names=list(n.names))]
        if c == 'DelStatNode':
            return [S('delete', line, targets=[self.expr(a) for a in n.args])]
        if c == 'PrintStatNode':
            return [S('expr', line, value=('call', ('var', 'print'), (), ()))]
        if c == 'GILStatNode':
            return self.block(n.body)
        if c == 'CDefExternNode':
            return []
        if c == 'PropertyNode':
            return []
        return [S('unsupported', line, what=c)]

    # ----------------------------------------------------------------------------- definitions
    def args(self, arglist):
        out = []
        for a in arglist:
            bt, axes = _type_text(a.base_type)
            nm, stars, _, _ = _declarator(a.declarator)
            if not nm:
                # untyped python argument: the "type" is really the name
                nm = bt
                bt = ''
            default = self.expr(a.default) if getattr(a, 'default', None) is not None else None
            out.append(PyxArg(nm, (bt + ' ' + stars).strip(), default, axes, _line(a)))
        return out

    def collect(self, body, prefix, cls):
        for n in getattr(body, 'stats', [body]):
            c = _cn(n)
            if c == 'DefNode':
                star = n.star_arg.name if n.star_arg is not None else None
                sstar = n.starstar_arg.name if n.starstar_arg is not None else None
                f = PyxFunc(n.name, prefix + n.name, 'def', self.args(n.args), star, sstar, self.block(n.body), _line(n), cls)
                self._locals(f)
                self.mod.funcs[f.qual] = f
                if cls:
                    self.mod.classes.setdefault(cls, []).append(f.qual)
            elif c == 'CFuncDefNode':
                nm, stars, params, _ = _declarator(n.declarator)
                f = PyxFunc(nm, prefix + nm, 'cdef', self.args(params or []), None, None, self.block(n.body), _line(n), cls)
                self._locals(f)
                self.mod.funcs[f.qual] = f
                if cls:
                    self.mod.classes.setdefault(cls, []).append(f.qual)
            elif c == 'CClassDefNode':
                self.mod.classes.setdefault(n.class_name, [])
                if n.body is not None:
                    self.collect(n.body, prefix + n.class_name + '.', n.class_name)
            elif c == 'PyClassDefNode':
                self.mod.classes.setdefault(n.name, [])
                self.collect(n.body, prefix + n.name + '.', n.name)
            elif c == 'CDefExternNode':
                self.externs(n.body)
            elif c == 'StatListNode':
                self.collect(n, prefix, cls)
            elif c == 'PropertyNode':
                self.collect(n.body, prefix + n.name + '.', cls)
            elif c == 'CVarDefNode' and cls is not None:
                bt, axes = _type_text(n.base_type)
                for d in n.declarators:
                    nm, stars, params, _ = _declarator(d)
                    self.mod.class_attrs.setdefault(cls, {})[nm] = (bt + ' ' + stars).strip()
            elif c in ('CImportStatNode',):
                self.mod.cimports.append(n.module_name)
            elif c == 'FromCImportStatNode':
                self.mod.cimports.append(n.module_name)

    def _locals(self, f):
        from .ir import walk_stmts
        for s in walk_stmts(f.body):
            if s.k == 'decl':
                f.locals[s.name] = s.ctype

    def externs(self, body):
        for n in getattr(body, 'stats', [body]):
            c = _cn(n)
            if c == 'CVarDefNode':
                bt, _ = _type_text(n.base_type)
                for d in n.declarators:
                    nm, stars, params, _ = _declarator(d)
                    if params is not None:
                        ps = []
                        for a in params:
                            abt, _ = _type_text(a.base_type)
                            anm, astars, _, _ = _declarator(a.declarator)
                            ps.append(((abt + ' ' + astars).strip(), anm))
                        self.mod.externs[nm] = ((bt + ' ' + stars).strip(), ps, _line(n))
            elif c == 'CStructOrUnionDefNode':
                fields = []
                for a in (n.attributes or []):
                    if _cn(a) == 'CVarDefNode':
                        bt, _ = _type_text(a.base_type)
                        for d in a.declarators:
                            nm, stars, _, _ = _declarator(d)
                            fields.append((nm, (bt + ' ' + stars).strip()))
                self.mod.structs[n.name] = fields
            elif c == 'StatListNode':
                self.externs(n)


def load(repo, relpath, fullname, use_cache=True):
    path = os.path.join(repo, relpath)
    if not os.path.exists(path):
        raise AnalysisError('anchor vanished: %s' % path)
    h = hashlib.sha256()
    d = os.path.dirname(path)
    for fn in sorted(os.listdir(d)):
        if fn.endswith('.pxd') or fn == os.path.basename(path):
            with open(os.path.join(d, fn), 'rb') as f:
                h.update(fn.encode())
                h.update(f.read())
    with open(os.path.abspath(__file__), 'rb') as f:
        h.update(f.read())
    cpath = os.path.join(CACHE, 'pyx_%s_%s.pkl' % (os.path.basename(path).replace('.', '_'), h.hexdigest()[:24]))
    if use_cache and os.path.exists(cpath):
        try:
            with open(cpath, 'rb') as f:
                return pickle.load(f)
        except Exception:
            pass
    try:
        tree = _parse(path, fullname)
    except AnalysisError:
        raise
    except Exception as e:
        raise AnalysisError('Cython could not parse %s: %r' % (relpath, e))
    mod = PyxModule(fullname, path)
    conv = _Conv(mod)
    conv.collect(tree.body, '', None)
    mod.toplevel = conv.block(tree.body)
    if use_cache:
        os.makedirs(CACHE, exist_ok=True)
        tmp = cpath + '.%d.tmp' % os.getpid()
        with open(tmp, 'wb') as f:
            pickle.dump(mod, f, protocol=pickle.HIGHEST_PROTOCOL)
        os.replace(tmp, cpath)
    return mod


PYX = {
    'dtw_cc': 'src/dtaidistance/dtw_cc.pyx',
    'dtw_cc_omp': 'src/dtaidistance/dtw_cc_omp.pyx',
    'ed_cc': 'src/dtaidistance/ed_cc.pyx',
    'util_numpy_cc': 'src/dtaidistance/util_numpy_cc.pyx',
    'dtaidistancec_dtw': 'src/dtaidistance/dtaidistancec_dtw.pxd',
    'dtaidistancec_dtw_omp': 'src/dtaidistance/dtaidistancec_dtw_omp.pxd',
    'dtaidistancec_ed': 'src/dtaidistance/dtaidistancec_ed.pxd',
    'dtaidistancec_globals': 'src/dtaidistance/dtaidistancec_globals.pxd',
    'dtw_cc_pxd': 'src/dtaidistance/dtw_cc.pxd',
}
_M = {}


def module(repo, name):
    key = (repo, name)
    if key not in _M:
        full = 'dtaidistance.' + (name[:-4] if name.endswith('_pxd') else name)
        mod = load(repo, PYX[name], full)
        from .canon import canon_body
        from . import alpha
        for q_, f in mod.funcs.items():
            if f.body is not None:
                prm = [a.name for a in f.args] + ([f.vararg] if f.vararg else []) + ([f.kwarg] if f.kwarg else [])
                from .canon import split_cond_assigns
                f.body = canon_body(alpha.absorb_new_locals('pyx:' + name, q_, prm, alpha.recover('pyx:' + name, q_, prm, split_cond_assigns(f.body))))
        _M[key] = mod
    return _M[key]


if __name__ == '__main__':
    import sys
    from .dump import dump
    m = load(os.environ.get('VERIF_REPO', '/repo'), PYX[sys.argv[1]], 'dtaidistance.' + sys.argv[1], use_cache=False)
    print(len(m.funcs), 'funcs', len(m.externs), 'externs', list(m.structs), m.classes.keys())
    for q in sys.argv[2:]:
        f = m.funcs[q]
        print(f.qual, f.args, f.vararg, f.kwarg)
        dump(f.body)
    if len(sys.argv) == 2:
        for k, v in m.externs.items():
            print(k, v)
