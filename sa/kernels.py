"""E5 fact extraction for the rolling-buffer DTW distance kernels (Python dtw.distance and the four C instantiations).

Everything is derived from dataflow roles, not from local variable names: the DP array is the array that is stored in
an inner counted loop with a value reading the same array; the row loop / column loop are the two enclosing counted
loops; the rolling offsets are whatever the index expressions subtract.  Canonical atoms:
  L1, L2 (series lengths), W (window as given; 0/None = off), i, j (row, column), PSI1B/1E/2B/2E, and for the three
  thresholds the raw settings values PEN, MAXSTEP, MAXDIST.
"""
from .cfront import AnalysisError
from .ir import fmt, walk_stmts, walk_expr, stmt_exprs, dotted
from . import sym
from .symexec import Exec, Env, subst_expr, assigned_vars, reads_of, norm_minmax

PSI = ['PSI1B', 'PSI1E', 'PSI2B', 'PSI2E']


class Facts(dict):
    __getattr__ = dict.get


def _strip_idx_base(t):
    b = t
    while b[0] == 'idx':
        b = b[1]
    return b


def find_dp_loops(body):
    """-> (outer for, inner for, store stmt, array name).  outer must be a statement of `body`."""
    for outer in body:
        if outer.k != 'for':
            continue
        for inner in outer.body:
            if inner.k != 'for':
                continue
            # local straight-line values inside the inner body
            ex = Exec()
            env = Env()
            for v in assigned_vars(inner.body):
                env[v] = ('var', v + '@in')
            ex.run(inner.body, env)
            for ev in ex.events:
                if ev[0] == 'store':
                    base = _strip_idx_base(ev[2])
                    if base[0] == 'var' and reads_of(ev[3], base[1]):
                        return outer, inner, ev[4], base[1]
    return None


class AtomMap:
    """Maps IR sub-expressions to canonical atom names (per language)."""

    def __init__(self, lang, params, settings_names=()):
        self.lang = lang
        self.params = params
        self.settings = set(settings_names)

    def __call__(self, e):
        k = e[0]
        if self.lang == 'c':
            if k == 'var':
                nm = e[1]
                if nm in self.params:
                    pos = self.params.index(nm)
                    # (s1, l1, s2, l2, [ndim], settings)
                    if nm == self.params[1]:
                        return 'L1'
                    if nm == self.params[3]:
                        return 'L2'
                    if nm == 'ndim':
                        return 'NDIM'
                return nm
            if k == 'attr' and e[1][0] == 'var' and e[1][1] in self.settings:
                return _SETTINGS_ATOM.get(e[2], 'S_' + e[2])
        else:
            if k == 'call' and dotted(e[1]) == 'len' and len(e[2]) == 1 and e[2][0][0] == 'var':
                nm = e[2][0][1]
                if nm == self.params[0]:
                    return 'L1'
                if nm == self.params[1]:
                    return 'L2'
            if k == 'attr' and _is_settings_obj(e[1]):
                return _PY_SETTINGS_ATOM.get(e[2], 'S_' + e[2])
            if k == 'idx' and e[2][0] == 'num' and e[1][0] == 'call' and e[1][1][0] == 'attr' and e[1][1][2] == 'split_psi' \
                    and 0 <= e[2][1] < 4:
                return PSI[e[2][1]]
            if k == 'var':
                return e[1]
        return None


_SETTINGS_ATOM = {'window': 'W', 'psi_1b': 'PSI1B', 'psi_1e': 'PSI1E', 'psi_2b': 'PSI2B', 'psi_2e': 'PSI2E',
                  'penalty': 'PEN', 'max_step': 'MAXSTEP', 'max_dist': 'MAXDIST', 'max_length_diff': 'MAXLENDIFF',
                  'use_pruning': 'USE_PRUNING', 'only_ub': 'ONLY_UB', 'inner_dist': 'INNER_DIST'}
_PY_SETTINGS_ATOM = {'window': 'W', 'adj_penalty': 'PEN_I', 'adj_max_step': 'MAXSTEP_I', 'adj_max_dist': 'MAXDIST_I',
                     'max_dist': 'MAXDIST', 'max_step': 'MAXSTEP', 'penalty': 'PEN', 'adj_max_length_diff': 'MAXLENDIFF_A',
                     'use_ndim': 'USE_NDIM', 'inner_dist': 'INNER_DIST', 'use_c': 'USE_C', 'use_pruning': 'USE_PRUNING'}


def _is_settings_obj(e):
    """Python: the settings object is the result of DTWSettings.for_dtw(...) / DTWSettings(...)."""
    if e[0] == 'call':
        d = dotted(e[1]) or ''
        return d.split('.')[0] == 'DTWSettings' or d.endswith('DTWSettings')
    return False


def term(e, amap):
    return sym.from_ir(norm_minmax(e), atom=amap)


def _split_row(idx_t, length_t, rows):
    """Index term = row*length + rest where `row` is one of the row-selector atoms (i0/i1 style).
    Returns (row atom, rest term) or None."""
    # the product row*length is an opaque atom '(a)*(b)'
    if idx_t[0] != 'lin':
        return None
    hits = []
    for a, k in idx_t[1]:
        if a.startswith('(') and ')*(' in a and k == 1:
            f1, f2 = a[1:-1].split(')*(')
            for r in rows:
                if r in (f1, f2):
                    other = f2 if f1 == r else f1
                    hits.append((a, r, other))
    if len(hits) != 1:
        return None
    a, r, other = hits[0]
    if other != sym.show(length_t):
        return None
    rest = sym._lin({x: k for x, k in idx_t[1] if x != a}, idx_t[2])
    return r, rest


def extract_distance_kernel(name, body, params, lang, settings_names=('settings',), consts=None):
    """Return Facts for one rolling-buffer distance kernel."""
    F = Facts(name=name, lang=lang, problems=[])
    from . import symexec as _sx
    _sx.ARRAYS.clear()
    _sx.STRUCTS.clear()
    found = find_dp_loops(body)
    if found is None:
        raise AnalysisError('unrecognised shape: no DP loop nest in %s' % name)
    outer, inner, store_stmt, arr = found
    F.arr = arr
    _sx.ARRAYS.add(arr)
    F.outer_line, F.inner_line = outer.line, inner.line
    amap = AtomMap(lang, params, settings_names)
    oi = body.index(outer)

    # ---------------------------------------------------------------- prologue
    pro = Exec(havoc_tag='pro')
    env = Env(consts or {})
    env = pro.run(body[:oi], env)
    if env is None:
        raise AnalysisError('unrecognised shape: %s always returns before its DP loop' % name)
    F.prologue = pro
    F.env0 = env.copy()
    F.early_returns = [(p, v) for (p, v, s) in pro.returns]
    F.outer_lo = term(subst_expr(outer.lo, env), amap)
    F.outer_hi = term(subst_expr(outer.hi, env), amap)

    # buffer length: allocation of arr
    F.alloc = env.get(arr)

    # ---------------------------------------------------------------- row loop body up to the column loop
    carried = assigned_vars(outer.body) - {outer.var}
    lenv = env.copy()
    for v in carried:
        lenv[v] = ('var', v + '@prev')
    lenv[outer.var] = ('var', 'i')
    ii = outer.body.index(inner)
    pre = Exec(havoc_tag='row')
    renv = pre.run(outer.body[:ii], lenv)
    if renv is None:
        raise AnalysisError('unrecognised shape: row loop of %s leaves before the column loop' % name)
    F.row_pre = pre
    F.renv = renv.copy()
    F.carried = carried
    F.lo_expr = subst_expr(inner.lo, renv)
    F.hi_expr = subst_expr(inner.hi, renv)
    F.lo = term(F.lo_expr, amap)
    F.hi = term(F.hi_expr, amap)

    # ---------------------------------------------------------------- column loop body
    icarried = assigned_vars(inner.body) - {inner.var}
    ienv = renv.copy()
    for v in icarried:
        # values flowing in from the previous column iteration / from before the loop
        ienv[v] = ('var', v + '@in') if v not in renv or True else renv[v]
    # scalars assigned before the loop and only read inside keep their row value
    for v in list(ienv):
        if v in icarried:
            ienv[v] = ('var', v + '@in')
    ienv[inner.var] = ('var', 'j')
    col = Exec(havoc_tag='col')
    F.col_env = col.run(inner.body, ienv)
    F.col = col
    F.icarried = icarried
    F.inner = inner
    F.outer = outer
    F.amap = amap
    # the DP store
    stores = [e for e in col.events if e[0] == 'store' and _strip_idx_base(e[2]) == ('var', arr) and reads_of(e[3], arr)]
    if len(stores) < 1:
        raise AnalysisError('unrecognised shape: no DP store in column loop of %s' % name)
    F.stores = stores
    F.store = stores[0]
    # post-row statements
    post = Exec(havoc_tag='post')
    penv = renv.copy()
    for v in icarried:
        penv[v] = ('var', v + '@out')
    penv[inner.var] = ('var', 'j@out')
    post.run(outer.body[ii + 1:], penv)
    F.row_post = post
    F.penv = penv
    # ---------------------------------------------------------------- epilogue
    eenv = env.copy()
    for v in carried | {outer.var}:
        eenv[v] = ('var', v + '@last')
    epi = Exec(havoc_tag='epi')
    epi.run(body[oi + 1:], eenv)
    F.epilogue = epi
    return F


def module_consts(mod):
    """Module-level names bound to numeric constants (e.g. inf = float("inf"))."""
    out = {}
    for s in mod.toplevel:
        if s.k == 'assign' and s.target[0] == 'var' and s.value[0] == 'num':
            out[s.target[1]] = s.value
    return out
